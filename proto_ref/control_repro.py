import asyncio, io, json, sys, logging
logging.disable(logging.CRITICAL)
sys.path.insert(0, "/repo/src")
from asyncio_taskpool import TaskPool, SimpleTaskPool
from asyncio_taskpool.control.session import ControlSession
from asyncio_taskpool.control.server import TCPControlServer, UnixControlServer

class W:
    def __init__(self): self.buf = []
    def write(self, b): self.buf.append(b)
    async def drain(self): pass
    def close(self): pass

class FakeServer:
    def __init__(self, pool): self.pool = pool; self.client_class_name = "X"
    def is_serving(self): return True

async def session_lines(pool, lines, width=80):
    r = asyncio.StreamReader(); w = W()
    r.feed_data((json.dumps({"terminal_width": width}) + "\n").encode())
    for l in lines: r.feed_data((l + "\n").encode())
    r.feed_eof()
    s = ControlSession(FakeServer(pool), r, w)
    await s.client_handshake()
    await s.listen()
    return [b.decode() for b in w.buf]

async def main():
    which = sys.argv[1]
    if which == "R6":
        for p in (TaskPool(), ):
            try: print("R6", (await session_lines(p, ["num-running"]))[:2])
            except Exception as e: print("R6 handshake crashed:", repr(e))
    if which == "R8":
        p = TaskPool(pool_size=3)
        try: print("R8", await session_lines(p, ["pool-size -1", "pool-size"]))
        except Exception as e: print("R8 blocked:", repr(e))
    if which == "R10":
        class P(TaskPool):
            def hello(self, x: int, how: int = 1) -> int: return x + how
        try: print("R10", (await session_lines(P(), ["hello 1 --how 2"]))[:3])
        except Exception as e: print("R10 handshake crashed:", repr(e))
    if which == "R7":
        import tempfile, os
        d = tempfile.mkdtemp(); path = os.path.join(d, "s.sock")
        p = TaskPool()
        srv = UnixControlServer(p, socket_path=path)
        task = await srv.serve_forever()
        rd, wr = await asyncio.open_unix_connection(path)
        wr.write(b'{"terminal_width": 80}\n'); await wr.drain()
        print("R7 handshake reply:", (await asyncio.wait_for(rd.readline(), 2)))
        wr.close(); await wr.wait_closed()
        await asyncio.sleep(0.1)
        task.cancel()
        try:
            await asyncio.wait_for(asyncio.shield(task), 1.5); print("R7 serving task done:", task.done(), "socket file exists:", os.path.exists(path))
        except asyncio.TimeoutError:
            print("R7 serving task NOT done 1.5 s after stop although the only client is gone; socket file exists:", os.path.exists(path))
asyncio.run(main())
