import sys
import asyncio_taskpool.queue_context as QC
async def aexit(self, exc_type, exc_val, exc_tb):
    if exc_type is None: self.item_processed()
QC.Queue.__aexit__ = aexit
sys.argv=[sys.argv[0],"2000"]
exec(open("/root/scratch/qlock.py").read())
