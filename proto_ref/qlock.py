"""Scratch lock-step for M2 (queue context manager, C20)."""
import asyncio, random, subprocess, sys, threading, os, collections, warnings
from asyncio import events
from asyncio_taskpool.queue_context import Queue
warnings.simplefilter("ignore")
DRIVER = "/root/scratch/tp/Taskpool/.lake/build/bin/qdriver"
class Boom(Exception): pass
class StepLoop(asyncio.SelectorEventLoop):
    def start(self): self._thread_id = threading.get_ident(); events._set_running_loop(self)
    def stop_(self): events._set_running_loop(None); self._thread_id = None
    def nready(self): return sum(1 for h in self._ready if not h._cancelled)
    def stepk(self, k):
        live = [h for h in self._ready if not h._cancelled]
        if k >= len(live): return False
        h = live[k]; self._ready.remove(h); h._run(); return True

class Impl:
    def __init__(self):
        self.loop = StepLoop(); self.loop.start(); self.loop.set_exception_handler(lambda l, c: None)
        W = self; self.ev = []
        class Q(Queue):
            def task_done(q):
                try:
                    super().task_done()
                except ValueError:
                    W.ev.append("VE"); raise
                W.ev.append(f"T{q._unfinished_tasks}")
        self.q = Q(); self.cons = []; self.gates = {}; self.joins = []; self.phase = {}
    def close(self): self.loop.stop_()
    def consumer(self, c):
        W = self
        async def run():
            W.phase[c] = "W"
            try:
                async with W.q as item:
                    W.phase[c] = f"B{item}"; W.ev.append(f"G{c}:{item}")
                    f = W.loop.create_future(); W.gates[c] = f
                    try:
                        await f
                    except asyncio.CancelledError:
                        W.ev.append(f"C{c}"); W.ev.append(f"X{c}"); W.phase[c] = "Dcan"; raise
                    except Boom:
                        W.ev.append(f"X{c}"); W.phase[c] = "Dexc"; raise
                    W.ev.append(f"X{c}"); W.phase[c] = "Dok"
            except asyncio.CancelledError:
                if not W.phase[c].startswith("D"): W.ev.append(f"C{c}"); W.phase[c] = "Dcan"
                raise
        return run()
    def do(self, toks):
        k = toks[0]; res = "ok"
        if k == "put": self.q.put_nowait(int(toks[1]))
        elif k == "spawn":
            c = len(self.cons); self.phase[c] = "N"; self.cons.append(self.loop.create_task(self.consumer(c)))
        elif k == "join":
            j = len(self.joins)
            async def jn():
                await self.q.join(); self.ev.append(f"J{j}")
            self.joins.append(self.loop.create_task(jn()))
        elif k == "cancel":
            c = int(toks[1])
            if c < len(self.cons): self.cons[c].cancel()
        elif k == "gate":
            f = self.gates.get(int(toks[1]))
            if f is not None and not f.done():
                if toks[2] == "ok": f.set_result(None)
                else: f.set_exception(Boom())
            else: res = "noop"
        elif k == "run":
            if not self.loop.stepk(int(toks[1]) if len(toks) > 1 else 0): res = "noop"
        return res
    def obs(self, res):
        cs = []
        for c, t in enumerate(self.cons):
            ph = self.phase[c]
            if t.done() and not ph.startswith("D"): ph = "Dcan"   # cancelled before its first step
            cs.append(ph)
        js = ",".join("D" if t.done() else "P" for t in self.joins)
        s = f"r={res} | n={self.q.qsize()} q={self.loop.nready()} | ev={','.join(self.ev)} | c={','.join(cs)} | j={js}"
        self.ev.clear(); return s

def gen(rng):
    ops = []; nc = 0
    for _ in range(rng.randint(3, 30)):
        c = rng.random()
        if c < 0.18: ops.append(["put", str(rng.randint(0, 9))])
        elif c < 0.36: ops.append(["spawn"]); nc += 1
        elif c < 0.46: ops.append(["join"])
        elif c < 0.58: ops.append(["cancel", str(rng.randint(0, max(nc, 1)))])
        elif c < 0.74: ops.append(["gate", str(rng.randint(0, max(nc, 1))), "ok" if rng.random() < 0.75 else "exc"])
        else:
            for _ in range(rng.randint(1, 4)): ops.append(["run", str(rng.randint(0, 2))] if rng.random() < 0.3 else ["run"])
    return ops

def main():
    n = int(sys.argv[1]); seed0 = int(os.environ.get("VERIF_SEED", "0"))
    batch = []
    for i in range(n):
        rng = random.Random(seed0 * 7919 + i); ops = gen(rng); I = Impl(); lines = []; obs = []
        try:
            for t in ops: lines.append(" ".join(t)); obs.append(I.obs(I.do(t)))
            for _ in range(4):
                for _ in range(200):
                    r = I.do(["run"]); lines.append("run"); obs.append(I.obs(r))
                    if r == "noop": break
                pend = [c for c, f in I.gates.items() if not f.done()]
                if not pend: break
                for c in pend: lines.append(f"gate {c} ok"); obs.append(I.obs(I.do(["gate", str(c), "ok"])))
        finally: I.close()
        batch.append((i, lines, obs))
    inp = []
    for i, lines, obs in batch: inp.append("reset"); inp.extend(lines)
    out = subprocess.run([DRIVER], input="\n".join(inp) + "\n", capture_output=True, text=True).stdout.split("\n")
    pos = 0; bad = 0; total = 0
    for i, lines, obs in batch:
        assert out[pos] == "reset"; pos += 1
        for j, (l, o) in enumerate(zip(lines, obs)):
            total += 1
            if out[pos + j] != o:
                bad += 1
                if bad <= int(os.environ.get("SHOW", "2")):
                    print(f"--- history {i} op {j}: {l}")
                    for jj in range(max(0, j - 10), j): print(f"     {lines[jj]:12s} {obs[jj]}")
                    print(f"  impl : {o}\n  model: {out[pos + j]}")
                break
        pos += len(lines)
    print(f"histories={n} compared_lines={total} mismatching_histories={bad}")
main()
