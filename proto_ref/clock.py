"""Scratch translation-validation prototype for M3/C17: Lean parse model vs real ControlSession + twin pool."""
import asyncio, inspect, io, json, logging, os, random, subprocess, sys, contextlib, math
sys.path.insert(0, "/root/scratch")
from asyncio_taskpool import TaskPool, SimpleTaskPool
from asyncio_taskpool.control.session import ControlSession
import wmod
logging.disable(logging.CRITICAL)

DRIVER = "/root/scratch/tp/Taskpool/.lake/build/bin/cdriver"

def conv_of(ann):
    a = ann.replace(" ", "")
    parts = [p for p in a.split("|") if p != "None"]
    a = parts[0] if len(parts) == 1 else a
    if a == "int": return "int"
    if a == "bool": return "bool"
    if a == "float": return "float"
    if a == "str": return "str"
    if a.startswith("Callable") or a in ("AnyCoroutineFunc", "EndCB", "CancelCB"): return "dotted"
    if a.startswith(("Iterable", "Mapping")) or a in ("ArgsT", "KwArgsT", "_P.args", "_P.kwargs"): return "literal"
    return "str"

def table_lines(cls):
    out = ["table"]; members = {}
    for name, member in inspect.getmembers(cls):
        if name.startswith("_"): continue
        if inspect.isfunction(member):
            out.append(f"cmd {name} method"); ps = []
            for p in inspect.signature(member).parameters.values():
                if p.name == "self": continue
                c = conv_of(str(p.annotation))
                if p.kind == p.VAR_POSITIONAL: kind = "var"
                elif p.default is p.empty: kind = "pos"
                elif c == "bool": kind = "flag"
                else: kind = "opt"
                d = "-" if p.default is p.empty else repr(p.default).replace(" ", "")
                out.append(f"param {p.name} {kind} {'str' if c == 'bool' else c} {d}")
                ps.append((p.name, kind, c, p.default))
            members[name] = ("method", ps)
        elif isinstance(member, property):
            if member.fset is None: out.append(f"cmd {name} propro"); members[name] = ("propro", None)
            else:
                _, p = inspect.signature(member.fset).parameters.values()
                out.append(f"cmd {name} proprw {conv_of(str(p.annotation))}"); members[name] = ("proprw", None)
    return out, members

class FakeWriter:
    def __init__(self): self.out = []
    def write(self, b): self.out.append(b)
    async def drain(self): pass
class FakeServer:
    def __init__(self, pool): self.pool = pool; self.client_class_name = "X"
    def is_serving(self): return True

def mk(cls):
    return SimpleTaskPool(wmod.w, args=(1,), name="P") if cls is SimpleTaskPool else TaskPool(name="P")

def observe(p):
    return (p.num_running, p.num_cancelled, p.num_ended, p.is_locked, str(p.pool_size), p.is_full)

def gen_lines(rng, members, n):
    lines = []
    names = sorted(members)
    ints = ["0", "1", "2", "3", "-1", "7"]
    groups = ["start-group-0", "start-group-1", "G", "apply-w-group-0", "map-w-group-0", "nope"]
    for _ in range(n):
        m = rng.choice(names); kind, ps = members[m]; cmd = m.replace("_", "-")
        r = rng.random()
        if r < 0.06: lines.append(rng.choice(["-h", "--help", "bogus", cmd + " -h", cmd + " --help", "st 1", cmd + "  1"])); continue
        if kind == "propro": lines.append(cmd if r < 0.9 else cmd + " 3"); continue
        if kind == "proprw": lines.append(cmd if r < 0.5 else cmd + " " + rng.choice(ints + ["x", "inf"])); continue
        toks = [cmd]; post = []
        for (pn, pk, pc, pd) in ps:
            def val():
                if pc == "int": return rng.choice(ints + (["x"] if rng.random() < 0.1 else []))
                if pc == "dotted":
                    if "callback" in pn: return rng.choice(["wmod.cb", "wmod.cb", "wmod.nope"])
                    return rng.choice(["wmod.w", "wmod.w", "wmod.nope", "wmod.cb"])
                if pc == "literal":
                    return rng.choice(["[1,2]", "[(1,2)]", "[{'x':1}]", "(5,)", "{'y':6}", "[]"])
                return rng.choice(groups + ["msg"])
            if pk == "pos":
                if rng.random() < 0.93: toks.append(val())
            elif pk == "var":
                for _ in range(rng.randint(0, 3)): toks.append(val())
            elif pk == "flag":
                if rng.random() < 0.4: post.append(rng.choice(["--" + pn.replace("_", "-"), "-" + pn[0]]))
            else:
                if rng.random() < 0.35:
                    post.append(rng.choice(["--" + pn.replace("_", "-"), "-" + pn[0], "-" + pn[0].upper()])); post.append(val())
        if rng.random() < 0.15: toks = [toks[0]] + post + toks[1:]
        else: toks += post
        lines.append(" ".join(toks))
    return lines

def to_py(tagged, conv_hint=None):
    k, _, v = tagged.partition(":")
    if k == "i": return int(v)
    if k == "s": return v
    if k == "b": return v == "1"
    if k == "d": return eval(v)      # repr of the method's own default
    if k == "r": return ("raw", v)
    raise ValueError(tagged)

def parse_args(s):
    out = {}
    if not s: return out
    for part in s.split(";"):
        n, _, v = part.partition("=")
        if v.startswith("["):
            inner = v[1:-1]; out[n] = [to_py(x) for x in inner.split(",") if x]
        else: out[n] = to_py(v)
    return out

def convert_raw(conv, raw):
    from ast import literal_eval
    from asyncio_taskpool.internals.helpers import resolve_dotted_path
    if conv == "dotted": return resolve_dotted_path(raw)
    if conv == "literal": return literal_eval(raw)
    if conv == "float": return float(raw)
    return raw

async def direct(twin, members, parsed):
    """apply the model's verdict directly to the twin pool; returns the expected reply text"""
    kind = parsed[0]
    if kind == "get": 
        try: return str(getattr(twin, parsed[1]))
        except Exception as e: return str(e)
    if kind == "set":
        try: setattr(twin, parsed[1], to_py(parsed[2])); return "ok"
        except Exception as e: return str(e)
    m = parsed[1]; args = parse_args(parsed[2] if len(parsed) > 2 else "")
    ps = members[m][1]; pos = []; var = []; kw = {}
    try:
        for (pn, pk, pc, pd) in ps:
            v = args[pn]
            if pk == "var":
                var = [convert_raw(pc, x[1]) if isinstance(x, tuple) and x and x[0] == "raw" else x for x in v]
                continue
            if isinstance(v, tuple) and len(v) == 2 and v[0] == "raw": v = convert_raw(pc, v[1])
            kw[pn] = v
        meth = getattr(twin, m)
        # the session passes POSITIONAL_OR_KEYWORD parameters positionally, keyword-only ones by keyword
        sig = inspect.signature(getattr(type(twin), m))
        callpos = []; callkw = {}
        for p in sig.parameters.values():
            if p.name == "self": continue
            if p.kind in (p.POSITIONAL_OR_KEYWORD, p.POSITIONAL_ONLY): callpos.append(kw[p.name])
            elif p.kind == p.KEYWORD_ONLY: callkw[p.name] = kw[p.name]
        r = meth(*callpos, *var, **callkw)
        if inspect.isawaitable(r): r = await r
        return "ok" if r is None else str(r)
    except Exception as e:
        return "CONV:" + str(e) if isinstance(e, (ImportError, AttributeError, SyntaxError)) else str(e)

def args_value(name, pos, kw, ps):
    i = 0
    for (pn, pk, pc, pd) in ps:
        if pk == "pos":
            if pn == name: return pos[i]
            i += 1
    return kw[name]

async def run_class(cls, seed, nlines):
    rng = random.Random(seed)
    tl, members = table_lines(cls)
    lines = gen_lines(rng, members, nlines)
    inp = tl + ["parse " + l for l in lines]
    out = subprocess.run([DRIVER], input="\n".join(inp) + "\n", capture_output=True, text=True).stdout.split("\n")
    served, twin = mk(cls), mk(cls)
    r = asyncio.StreamReader(); wr = FakeWriter()
    s = ControlSession(FakeServer(served), r, wr)
    r.feed_data(json.dumps({"terminal_width": 100}).encode() + b"\n")
    await s.client_handshake(); wr.out.clear()
    stats = dict(call=0, get=0, set=0, help=0, error=0, outside=0, mismatch=0, conv=0)
    shown = 0
    for line, verdict in zip(lines, out):
        parsed = verdict.split(" ", 2)
        before = observe(served)
        if parsed[0] in ("call", "get", "set") and parsed[1] in ("gather_and_close", "until_closed"):
            continue        # blocking commands: exercised separately
        r2 = asyncio.StreamReader(); s._reader = r2
        r2.feed_data(line.encode() + b"\n"); r2.feed_eof()
        so, se = io.StringIO(), io.StringIO()
        try:
            with contextlib.redirect_stdout(so), contextlib.redirect_stderr(se):
                await asyncio.wait_for(s.listen(), 2)
        except BaseException as e:
            print("ESCAPED", type(e).__name__, e, "on", repr(line)); stats["mismatch"] += 1; continue
        reply = b"".join(wr.out).decode(); nrep = len(wr.out); wr.out.clear()
        await asyncio.sleep(0); await asyncio.sleep(0)
        stats[parsed[0]] += 1
        ok = True; why = ""
        if nrep != 1 or so.getvalue() or se.getvalue(): ok = False; why = f"replies={nrep} stdout={so.getvalue()!r}"
        if parsed[0] in ("call", "get", "set"):
            exp = await asyncio.wait_for(direct(twin, members, parsed), 2)
            await asyncio.sleep(0); await asyncio.sleep(0)
            if exp.startswith("CONV:"):
                stats["conv"] += 1
                if "usage:" not in reply and "error" not in reply: ok = False; why = "conversion failure not reported"
            else:
                if reply != exp + "\n": ok = False; why = f"reply {reply!r} != expected {exp!r}"
                if observe(served) != observe(twin): ok = False; why += f" obs {observe(served)} vs twin {observe(twin)}"
        elif parsed[0] == "help":
            if "usage" not in reply or observe(served) != before: ok = False; why = "help"
        elif parsed[0] == "error":
            if "error" not in reply or observe(served) != before: ok = False; why = f"error verdict but reply {reply[:80]!r}"
        if not ok:
            stats["mismatch"] += 1
            if shown < 6: shown += 1; print(f"  MISMATCH {cls.__name__} line={line!r} model={verdict!r}: {why}")
    return stats

async def main():
    tot = {}
    for seed in range(int(sys.argv[1])):
        for cls in (SimpleTaskPool, TaskPool):
            st = await run_class(cls, seed, 60)
            for k, v in st.items(): tot[k] = tot.get(k, 0) + v
    print(tot)
    os._exit(0)
asyncio.run(main())
