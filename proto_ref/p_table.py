import inspect, io, json
from asyncio_taskpool import TaskPool, SimpleTaskPool
from asyncio_taskpool.control.parser import ControlParser
def table(cls):
    out = []
    for name, member in inspect.getmembers(cls):
        if name.startswith("_"): continue
        if inspect.isfunction(member):
            ps = []
            for p in inspect.signature(member).parameters.values():
                if p.name == "self": continue
                ps.append(dict(name=p.name, kind=p.kind.name, has_default=p.default is not p.empty,
                               default=None if p.default is p.empty else repr(p.default), ann=str(p.annotation)))
            out.append(dict(name=name, kind="function", iscoro=inspect.iscoroutinefunction(member), params=ps))
        elif isinstance(member, property):
            setter = None
            if member.fset is not None:
                _, p = inspect.signature(member.fset).parameters.values()
                setter = dict(name=p.name, ann=str(p.annotation))
            out.append(dict(name=name, kind="property", setter=setter))
    return out
def real_spec(cls):
    buf = io.StringIO()
    p = ControlParser(stream=buf, terminal_width=80, prog="", usage="x")
    p.add_subparsers(title="Commands")
    d = p.add_class_commands(cls)
    out = {}
    for name, sp in d.items():
        acts = []
        for a in sp._actions:
            if a.dest == "help": continue
            acts.append(dict(dest=a.dest, opts=a.option_strings, nargs=a.nargs, default=repr(a.default),
                             type=getattr(a.type, "__name__", None), cls=type(a).__name__))
        out[sp.prog] = acts
    return out
for cls in (TaskPool, SimpleTaskPool):
    print("=====", cls.__name__)
    t = table(cls); r = real_spec(cls)
    for m in t:
        cmd = m["name"].replace("_", "-")
        print(cmd, "|", [(p["name"], p["kind"][:3], p["default"], p["ann"]) for p in m.get("params", [])] if m["kind"]=="function" else ("prop", m["setter"]))
        print("     real:", [(a["opts"] or a["dest"], a["nargs"], a["default"], a["type"], a["cls"][1:6]) for a in r[cmd]])
