import asyncio
gate = None
async def w(x=None, y=None):
    await asyncio.sleep(3600)
def cb(task_id):
    return None
