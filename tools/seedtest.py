#!/usr/bin/env python3
"""Confirm a seeded defect (suite passes, demo fails with / passes without) and run checks against it.
usage: seedtest.py <worktree> <seed dir> [check ids...]"""
import json, os, subprocess, sys
wt, seed = sys.argv[1], sys.argv[2]
checks = sys.argv[3:]
env = dict(os.environ, PYTHONPATH=f"{wt}/src", PYTHONDONTWRITEBYTECODE="1")
def sh(cmd, **kw):
    return subprocess.run(cmd, shell=True, capture_output=True, text=True, env=env, **kw)
out = {"seed": seed}
sh(f"git -C {wt} checkout -- . ")
r = sh(f"cd {wt} && timeout 120 /venv/bin/python {seed}/demo.py"); out["demo_clean"] = r.returncode
a = sh(f"git -C {wt} apply {seed}/patch.diff"); out["apply"] = a.returncode
r = sh(f"cd {wt} && timeout 120 /venv/bin/python {seed}/demo.py"); out["demo_patched"] = r.returncode
r = sh(f"cd {wt} && /venv/bin/python -m pytest -q -p no:cacheprovider --timeout=900 2>&1 | tail -1"); out["suite"] = r.stdout.strip()
res = {}
for c in checks:
    r = subprocess.run(f"cd /verif && VERIF_REPO={wt} timeout 900 ./check {c}", shell=True, capture_output=True, text=True,
                       env=dict(os.environ, VERIF_REPO=wt))
    lines = [l for l in r.stdout.split("\n") if l.startswith("VIOLATION")]
    res[c] = {"exit": r.returncode, "violations": len(lines), "nofail": sum(1 for l in lines if l.endswith("no-failing-input-found"))}
out["checks"] = res
sh(f"git -C {wt} checkout -- . ")
print(json.dumps(out))
