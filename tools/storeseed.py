#!/usr/bin/env python3
"""Store a confirmed seeded change under /verif/seeded/<new id>/ from a seedtest.py result line.
usage: storeseed.py <worktree> <seed name in _seed/> <new id> <seedtest result file>"""
import json, os, shutil, sys
wt, name, new, resf = sys.argv[1:5]
res = json.loads(open(resf).read().strip().splitlines()[-1])
assert res["demo_clean"] == 0 and res["apply"] == 0 and res["demo_patched"] != 0 and res["suite"].startswith("112 passed"), res
src = f"{wt}/_seed/{name}"
dst = f"/verif/seeded/{new}"
os.makedirs(dst, exist_ok=True)
shutil.copy(f"{src}/patch.diff", f"{dst}/patch.diff")
shutil.copy(f"{src}/demo.py", f"{dst}/demo.py")
m = json.load(open(f"{src}/meta.json"))
meta = {"property": m.get("property", new[:3]), "summary": m.get("summary"), "needs": m.get("needs"),
        "confirmed": {"patch_applies": True, "suite_with_patch": res["suite"], "demo_exit_unchanged_tree": 0,
                      "demo_exit_patched": res["demo_patched"],
                      "how": "tools/seedtest.py <scratch worktree> <seed dir> <checks> (checks run with VERIF_REPO=<scratch worktree>, /repo untouched)"},
        "checks_run": sorted(res["checks"]),
        "caught_by_quick_checks": sorted(c for c, v in res["checks"].items() if v["exit"] == 1),
        "with_failing_input": sorted(c for c, v in res["checks"].items() if v["exit"] == 1 and v["violations"] > v["nofail"]),
        "author_ran": m.get("ran") or m.get("author_ran")}
json.dump(meta, open(f"{dst}/meta.json", "w"), indent=1)
print(new, meta["caught_by_quick_checks"], meta["with_failing_input"])
