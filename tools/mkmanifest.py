#!/usr/bin/env python3
"""Regenerates MANIFEST.json from lean/theorems.json and the table below (run after adding theorems)."""
import json
import os

ROOT = os.path.dirname(os.path.dirname(os.path.abspath(__file__)))
props = [json.loads(l) for l in open(os.path.join(ROOT, "properties.jsonl"))]
thm = json.load(open(os.path.join(ROOT, "lean", "theorems.json")))

M1 = ("Lean 4 theorems about the pool machine M1 (lean/Taskpool/Model), proved for every pool size, every input list "
      "and every handle order by induction over the history; the model is tied to /repo on every run by a lock-step "
      "correspondence check (the real pool stepped one event-loop handle at a time vs the compiled model, "
      "property-specific projection) and the property's monitors on the real run")
M1_NOTE = ("trusted: Lean kernel; axioms propext / Classical.choice / Quot.sound only (printed per theorem into the "
           "evidence); the unverified Python harness and its generators; CPython 3.12 asyncio is modelled, not verified; "
           "user code is limited to harness scripts (one suspension point per worker, plain/coroutine/raising callbacks, "
           "hook alphabet without set_size)")
TEXT = {
    "C01": "invariant by induction (slot conservation + phase + registry invariant) => live workers and num_running+num_cancelled <= size in every reachable state; idle is_full clause is a monitor",
    "C02": "slot conservation in every reachable state; accounting free+granted+running+cancelled=size (hypothesis lost=false, watched by the driver bit)",
    "C03": "registry invariant: one registry per id, meaning of each registry (partial: finite size, no pool_size assignment); callback counts are monitors",
    "C04": "loop accounting of the apply/start spawner for every n and pool state (created+skipped+remaining conserved; done means all)",
    "C05": "loop accounting of the map consumer (in order, lazy, one element in hand at most; partial: iterator makes no pool calls); concurrency/work conservation are monitors",
    "C06": "decision logic stated outright: all-or-nothing with full state equality, classification, exact frame and delivery",
    "C07": "what cancel_group/cancel_all do (frame, forgotten name) and what a spawner does at its next step for each placement of the cancellation",
    "C08": "step-level theorems of the stages of gather_and_close (collecting gather waits for the last child, closing step, until_closed); whole-history waiting is a monitor",
    "C09": "complete decision tables of the spawning calls, full state equality on rejection, lock/unlock algebra",
    "C10": "get_group_ids spec, freshness of generated names (pigeonhole; assumes decimal rendering injective), membership of new tasks",
    "C11": "ids are list indices: new id = number of tasks created, never reused, pools independent, class-level indices distinct for every history",
    "C12": "a failing worker takes the same ending path (slot released, filed as ended); collecting gathers cannot raise; reported exception is a child's",
    "C13": "exact effect of flush's last step (only snapshotted ids are forgotten), collecting flush cannot raise",
    "C14": "stop(n) = cancel of the last min(n,running) ids newest first; never raises; others unaffected",
    "C15": "as-is semantics proved exactly + closed refutations of the three violated clauses (known findings R5), negative value rejected",
    "C20": "refinement proof over all histories of the queue machine: exactly-once marking, unfinished=puts-exits, join iff",
}
TECH = {k: "Lean 4 proof over an executable model (induction over histories / decision logic) + lock-step correspondence with the real code" for k in TEXT}
checks, na = [], []
for p in props:
    pid = p["id"]
    if thm.get(pid):
        checks.append({
            "property_id": pid,
            "quick_cmd": f"./check {pid} --tier quick",
            "thorough_cmd": f"./check {pid} --tier thorough",
            "evidence_file": f"evidence/{pid}.json",
            "replay_cmd_template": f"./check {pid} --replay {{path}}",
            "engine": "lean-model-correspondence",
            "level_claimed": {"category": "proof", "text": M1 + ". " + TEXT.get(pid, ""), "design_ref": "DESIGN.md §5 " + pid},
            "level_note": M1_NOTE,
            "technique": TECH.get(pid, "Lean 4 proof over an executable model + differential correspondence check"),
        })
    else:
        na.append({"property_id": pid, "reason": "check under construction in this build session (theorems not yet registered)"})
m = {
    "version": 1,
    "setup_cmd": "cd lean && lake build",
    "hooks": {"guard": "ASYNCIO_TASKPOOL_VERIF",
              "enable": "no source hooks: the real library is imported from /repo/src (editable install) and observed through "
                        "its public API under a hand-stepped event loop; nothing in /repo reads the guard variable",
              "baseline_off_cmd": "cd /repo && /venv/bin/python -m pytest -q -p no:cacheprovider --timeout=900",
              "source_commits": [], "add_only": True},
    "engines": [{"name": "lean-model-correspondence", "path": "harness/check.py",
                 "serves_properties": [c["property_id"] for c in checks],
                 "kind_free_text": "Lean 4 proofs (lean/Taskpool/Props) + differential execution of the compiled model drivers "
                                   "against the real library"}],
    "checks": checks,
    "not_applicable": na,
    "notes": "see DESIGN.md; known_findings.json lists recorded findings and repaired defects",
}
json.dump(m, open(os.path.join(ROOT, "MANIFEST.json"), "w"), indent=1)
print(len(checks), "checks;", len(na), "not claimed")
