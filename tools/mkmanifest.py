#!/usr/bin/env python3
"""Regenerates MANIFEST.json from lean/theorems.json and the table below (run after adding theorems)."""
import json
import os

ROOT = os.path.dirname(os.path.dirname(os.path.abspath(__file__)))
props = [json.loads(l) for l in open(os.path.join(ROOT, "properties.jsonl"))]
thm = json.load(open(os.path.join(ROOT, "lean", "theorems.json")))

M1 = ("Lean 4 theorems about the pool machine M1 (lean/Taskpool/Model), proved for every pool size, every input list "
      "and every handle order by induction over the history; the model is tied to /repo on every run by a lock-step "
      "correspondence check (the real pool stepped one event-loop handle at a time vs the compiled model, "
      "property-specific projection) and the property's monitors on the real run")
M1_NOTE = ("trusted: Lean kernel; axioms propext / Classical.choice / Quot.sound only (printed per theorem into the "
           "evidence); the unverified Python harness and its generators; CPython 3.12 asyncio is modelled, not verified; "
           "user code is limited to harness scripts (workers that return / raise at once or await 1-3 harness futures in a row, plain/coroutine/raising callbacks, "
           "hook alphabet without set_size)")
M2 = ("Lean 4 theorems about the queue machine M2 (lean/Taskpool/Model/Queue.lean), proved for all histories by a "
      "refinement argument; tied to /repo on every run by lock-step execution of the real Queue under the stepped loop "
      "against the compiled model (FIFO and non-FIFO schedules, exhaustive small scope + generated histories)")
M2_NOTE = ("trusted: Lean kernel; axioms propext / Classical.choice / Quot.sound only; the unverified Python harness; "
           "asyncio.Queue's own put/get machinery (getter and putter futures, _wakeup_next, QueueFull) is modelled, not verified; "
           "producer tasks are one `await queue.put(x)` each, maxsize 1-3 in the generated histories (theorems: every maxsize)")
M3 = ("Lean 4 theorems about the control machine M3 (lean/Taskpool/Model/Control*.lean: member table -> command table, "
      "three-phase command parser, dispatch, reply rule, session pump, server life cycle), proved for all well-formed "
      "tables, all token lists and all session/server histories; tied to /repo on every run by extracting the member "
      "tables from the real classes (inspect), translation validation of every generated command line (model verdict "
      "applied to a twin pool vs a real ControlSession), in-memory multi-session runs and real TCP/Unix servers with raw "
      "clients and the bundled CLI client")
M3_NOTE = ("trusted: Lean kernel; axioms propext / Classical.choice / Quot.sound only; the unverified Python harness; "
           "argparse's lexing/formatting, inspect, json, ast.literal_eval, asyncio streams/Server and the OS socket layer "
           "are modelled or sampled, not verified (partial: help text, argparse's verdict on arbitrary strings and kernel "
           "timing are sampled through the real code)")
TEXT = {
    "C01": "invariant by induction (slot conservation + phase + registry invariant) => live workers and num_running+num_cancelled <= size in every reachable state, unbounded pool never full; is_full exactly at capacity whenever the loop's ready queue is empty and no task is in its cancel callback (two invariants over the ready queue: whoever has something to do is flagged, whoever is flagged has a handle => at idle no slot is on its way); is_full at idle also in histories with gather_and_close in which nobody calls unlock()",
    "C02": "slot conservation in every reachable state; accounting free+granted+running+cancelled=size, with the ghost hypothesis lost=false discharged for every history without gather_and_close (concurrent flushes included); at every idle point (ready queue empty) granted=0 and every unfinished task is suspended on a pending future of user code; at quiescence (idle, every asyncio Task done) the semaphore is back at the pool size with an empty queue and no spawner is left suspended (deadlock freedom); lost=false, the accounting (also at idle) and capacity back at quiescence also proved for every history WITH gather_and_close (any number, overlapping) in which nobody calls unlock() and pool_size is not assigned - the complement of known finding R9; deadlock freedom at quiescence (no spawner left waiting) also with gather_and_close in the history",
    "C03": "registry and callback life-cycle invariants for every history (one registry per id, callbacks at most once / in order / at the right moment); exactly-once and completeness with lost=false, discharged for histories without gather_and_close; a finished task stays finished after every continuation; exactly-once, completeness and 'no task is ever lost' also for every history with gather_and_close in which nobody calls unlock() (sealed pools); a task inside its end callback is counted as ended until it has finished (sealed histories)",
    "C04": "request accounting invariant for every history: created+skipped+remaining = num, the tasks of a request are exactly the ones it created (never more than num); loop accounting of the apply/start spawner for every n and pool state (done means all); at quiescence a request that was never cancelled has finished normally with created+skipped = num (no invocation lost, over whole histories); the quiescence theorem also for every history with lock() / gather_and_close() after the request in which nobody calls unlock() (the property's own clause); every task of an apply/start request was called with the request's own arguments (invariant over all histories)",
    "C05": "two-sided books of the per-call semaphore for every history (equality while the consumer lives, no lost wake-up) => never more than num_concurrent tasks of a call, and work conservation: a live consumer waiting on its own semaphore with no wake-up on its way means all num_concurrent slots are held by tasks of the call; request accounting for every history (in order, lazy, one element in hand at most); at every idle point a live consumer suspended on its own semaphore has all num_concurrent slots held (the premise 'no wake-up on its way' follows from the ready queue being empty); at quiescence a never-cancelled request has pulled its whole iterable (partial: the last element in hand); the quiescence theorem also with gather_and_close in the history (nobody calls unlock()); every task of a map-style request was called with one element in its request's star variant, and element indices increase strictly with task ids within a request (no element twice, iteration order kept) - invariant over all histories",
    "C06": "decision logic stated outright: all-or-nothing with full state equality, classification, exact frame and delivery; a worker that catches its CancelledError and goes on is a running task like any other (next cancel accepted and delivered)",
    "C07": "what cancel_group/cancel_all do (frame, forgotten name), what a spawner does at its next step for each placement of the cancellation, and the invariant over all histories that a spawner cancelled while suspended or not yet begun has created no task and pulled no element since and is over or still doomed (nothing un-cancels it); cancel_group / cancel_all record that cancellation for every live spawner concerned, and after every continuation of the history the call's counters and task count are unchanged (step relation Mono: every step only moves forward)",
    "C08": "step-level theorems of the stages of gather_and_close (collecting gather waits for the last child, closing step, until_closed); closed stays closed after every continuation of the history (so every later request is rejected); for every history the count of every gather is exact (world-level invariant over the ready queue), so a gather completes only when all its child tasks have finished; the count is an equality (no callback slot is ever dropped), hence at quiescence every flush() / gather_and_close() call has returned and until_closed() waits only for a pool that is not closed; for every history in which nobody calls unlock(): while a gather_and_close waits the pool is locked, its first gather (collecting) has every spawner filed as running among its children and every other live spawner is doomed, every spawner child of a completed collecting gather has finished (world-level counting invariant), from the second gather on no task is created any more and that gather has every task filed as running or cancelled among its children at every moment of the wait, and when it completes every task of the pool has handed back its slot: the closing step drops nothing; when the closing step runs every task of the pool has finished, callbacks included (a task inside its end callback stays filed as ended and is among the children), and every request that was never cancelled is complete; at quiescence every flush / gather_and_close / until_closed call has returned; a pool is closed exactly when a gather_and_close has returned normally (every history); what a flush / gather_and_close raises is the outcome of a task or spawner of the pool (invariant over all histories), hence if no task or callback raised every call that has returned has returned normally, and in a pool nobody unlocks gather_and_close has then, at quiescence, closed the pool",
    "C09": "complete decision tables of the spawning calls, full state equality on rejection, lock/unlock algebra",
    "C10": "get_group_ids spec, freshness of generated names (pigeonhole; decimal rendering of naturals proved injective), membership of new tasks",
    "C11": "ids are list indices: new id = number of tasks created, never reused (after every continuation of a history a pool has at least as many tasks), pools independent, class-level indices distinct for every history; the running registry lists ids in start order, each below the number of tasks started, in every reachable state",
    "C12": "a failing worker takes the same ending path (slot released, filed as ended); collecting gathers cannot raise; reported exception is a child's; two-run noninterference: a future that raises instead of returning (worker's last await or a coroutine callback) changes nothing but the task's own record and log entries, for histories whose flush / gather_and_close collect exceptions; every finished task has released its slot also in histories with gather_and_close in which nobody calls unlock(); the exception a flush / gather_and_close call ends with is what a task or spawner of this pool ended with (invariant over all histories)",
    "C13": "flush never forgets a task that still holds its slot, for every history without gather_and_close and any number of overlapping flushes (FlushOK invariant); exact effect of flush's last step; collecting flush cannot raise; every flush() has returned at quiescence; neither flush nor gather_and_close forgets an unfinished task in any history in which nobody calls unlock(); a task inside its end callback stays filed as ended and flush forgets finished tasks only (sealed histories)",
    "C14": "stop(n) = cancel of the last min(n,running) ids newest first; never raises; others unaffected; in every reachable state the running registry is strictly ascending in id (invariant by induction over the history), so the ids named are the most recently started running tasks, strictly descending, and every running task left alone is older than each one named",
    "C15": "as-is semantics proved exactly + closed refutations of the three violated clauses (known findings R5), negative value rejected",
    "C20": "refinement proof over all queue sizes (Queue() and Queue(maxsize=m)) and all histories of the queue machine: exactly-once marking (also next to hand marks: take = get_nowait()+item_processed() by non-task code), unfinished=puts-exits-takes with an item counted when it enters the queue, join iff; bounded queues with producer tasks blocked in put(): never more than maxsize items, a producer cancelled inside put() puts nothing, no lost putter wake-up (counting invariant of the shell)",
    "C16": "command surface = public functions and properties, dash-naming injective, flag assignment never claims -h and never clashes (parser can be built), handshake reply, help everywhere",
    "C17": "round trip: for every public method, every option subset in short or long form (value in the next string, attached `-cV` / `-c=V`, `--name=V`, abbreviations; several flags and an option in one single-dash string; the separator `--` around the positional strings) before or after the positionals, the parse is the call with the expected namespace (defaults = the method's own); dispatch split and reply rule",
    "C18": "one reply per non-blank line (counting invariant over all session histories), buffer empty between commands, errors and help change nothing, sessions independent",
    "C19": "server life-cycle machine: serving until stop, done iff stop requested and all clients gone, refuses after stop, disconnects isolated, socket file removed, same object serves again after a restart",
}
BASE = {pid: (M1, M1_NOTE) for pid in TEXT}
BASE["C20"] = (M2, M2_NOTE)
for _p in ("C16", "C17", "C18", "C19"):
    BASE[_p] = (M3, M3_NOTE)
TECH = {k: "Lean 4 proof over an executable model (induction over histories / decision logic) + lock-step correspondence with the real code" for k in TEXT}
checks, na = [], []
for p in props:
    pid = p["id"]
    if thm.get(pid):
        checks.append({
            "property_id": pid,
            "quick_cmd": f"./check {pid} --tier quick",
            "thorough_cmd": f"./check {pid} --tier thorough",
            "evidence_file": f"evidence/{pid}.json",
            "replay_cmd_template": f"./check {pid} --replay {{path}}",
            "engine": "lean-model-correspondence",
            "level_claimed": {"category": "proof", "text": BASE[pid][0] + ". " + TEXT.get(pid, ""), "design_ref": "DESIGN.md §5 " + pid},
            "level_note": BASE[pid][1],
            "technique": TECH.get(pid, "Lean 4 proof over an executable model + differential correspondence check"),
        })
    else:
        na.append({"property_id": pid, "reason": "check under construction in this build session (theorems not yet registered)"})
m = {
    "version": 1,
    "setup_cmd": "cd lean && lake build",
    "hooks": {"guard": "ASYNCIO_TASKPOOL_VERIF",
              "enable": "no source hooks: the real library is imported from /repo/src (editable install) and observed through "
                        "its public API under a hand-stepped event loop; nothing in /repo reads the guard variable",
              "baseline_off_cmd": "cd /repo && /venv/bin/python -m pytest -q -p no:cacheprovider --timeout=900",
              "source_commits": [], "add_only": True},
    "engines": [{"name": "lean-model-correspondence", "path": "harness/check.py",
                 "serves_properties": [c["property_id"] for c in checks],
                 "kind_free_text": "Lean 4 proofs (lean/Taskpool/Props) + differential execution of the compiled model drivers "
                                   "against the real library"}],
    "checks": checks,
    "not_applicable": na,
    "notes": "see DESIGN.md; known_findings.json lists recorded findings and repaired defects",
}
json.dump(m, open(os.path.join(ROOT, "MANIFEST.json"), "w"), indent=1)
print(len(checks), "checks;", len(na), "not claimed")
