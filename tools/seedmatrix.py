#!/usr/bin/env python3
"""Run every stored seeded change (seeded/<id>/patch.diff) against the quick check of its own property, in a scratch
git worktree of /repo (VERIF_REPO=<worktree>; /repo itself is never touched).  Prints one JSON line per seed.
usage: seedmatrix.py <scratch worktree dir (created and removed here)> [seed ids...]"""
import json, os, subprocess, sys
wt = sys.argv[1]
only = set(sys.argv[2:])
root = os.path.join(os.path.dirname(os.path.abspath(__file__)), "..", "seeded")
def sh(cmd, **kw):
    return subprocess.run(cmd, shell=True, capture_output=True, text=True, **kw)
if os.path.exists(wt):
    sys.exit(f"{wt} exists already: this tool creates and removes its own scratch worktree")
sh(f"git -C /repo worktree add --detach {wt} HEAD")
try:
    for sid in sorted(os.listdir(root)):
        if only and sid not in only:
            continue
        d = os.path.join(root, sid)
        meta = json.load(open(os.path.join(d, "meta.json")))
        prop = meta["property"]
        sh(f"git -C {wt} checkout -- .")
        a = sh(f"git -C {wt} apply {d}/patch.diff")
        if a.returncode != 0:
            print(json.dumps({"seed": sid, "apply": a.returncode, "err": a.stderr[-300:]})); continue
        env = dict(os.environ, VERIF_REPO=wt)
        r = subprocess.run(f"cd {root}/.. && timeout 900 ./check {prop}", shell=True, capture_output=True, text=True, env=env)
        lines = [l for l in r.stdout.split("\n") if l.startswith("VIOLATION")]
        print(json.dumps({"seed": sid, "check": prop, "exit": r.returncode, "violations": len(lines),
                          "nofail": sum(1 for l in lines if l.endswith("no-failing-input-found"))}), flush=True)
finally:
    sh(f"git -C /repo worktree remove --force {wt}")
