"""./check Cnn --tier quick|thorough [--replay file]

For one property: build + audit the Lean proofs, replay known findings and the corpus, run the correspondence
check (lock-step diff of that property's projection) and the property's monitors on generated histories, search
for a failing input when anything breaks, write the evidence file.  Exit 0 / 1 (VIOLATION) / 2 (harness trouble)."""
import argparse
import hashlib
import json
import multiprocessing as mp
import os
import random
import subprocess
import sys
import time
import traceback

ROOT = os.path.dirname(os.path.dirname(os.path.abspath(__file__)))
REPO = os.environ.get("VERIF_REPO", "/repo")
sys.path.insert(0, os.path.join(REPO, "src"))

from . import leanproj  # noqa: E402

EVID = os.path.join(ROOT, "evidence")
REPLAYS = os.path.join(EVID, "replays")


def load_json(path, default=None):
    try:
        with open(path) as fh:
            return json.load(fh)
    except FileNotFoundError:
        return default


def write_json(path, obj):
    os.makedirs(os.path.dirname(path), exist_ok=True)
    tmp = path + ".tmp"
    with open(tmp, "w") as fh:
        json.dump(obj, fh, indent=1, sort_keys=False)
        fh.write("\n")
    os.replace(tmp, path)


def replay_path(prop, payload):
    h = hashlib.sha1(json.dumps(payload, sort_keys=True).encode()).hexdigest()[:10]
    return os.path.join(REPLAYS, f"{prop}-{h}.json")


class Outcome:
    """collects what one run of a check did"""

    def __init__(self, prop, tier, seed):
        self.prop, self.tier, self.seed = prop, tier, seed
        self.violations = []        # (replay path, no_failing_input_found)
        self.known = []             # KNOWN-FINDING lines
        self.t0 = time.time()

    def violation(self, payload, nofail=False):
        payload = dict(payload, property=self.prop, tier=self.tier, seed=self.seed)
        path = replay_path(self.prop, payload)
        write_json(path, payload)
        self.violations.append((path, nofail))
        print(f"VIOLATION property={self.prop} replay={path}" + (" no-failing-input-found" if nofail else ""), flush=True)


def main(argv=None):
    ap = argparse.ArgumentParser()
    ap.add_argument("prop")
    ap.add_argument("--tier", default=os.environ.get("VERIF_TIER", "quick"), choices=["quick", "thorough"])
    ap.add_argument("--replay")
    ap.add_argument("--jobs", type=int, default=int(os.environ.get("VERIF_JOBS", "0")) or min(16, os.cpu_count() or 4))
    args = ap.parse_args(argv)
    seed = int(os.environ.get("VERIF_SEED", "0"))
    prop = args.prop
    from . import m1check, m2check, m3check
    if prop in m1check.PROPS:
        engine = m1check
    elif prop in m2check.PROPS:
        engine = m2check
    elif prop in m3check.PROPS:
        engine = m3check
    else:
        print(f"unknown property {prop}", file=sys.stderr)
        return 2
    out = Outcome(prop, args.tier, seed)
    try:
        import asyncio_taskpool
        src = os.path.realpath(asyncio_taskpool.__file__)
        if not src.startswith(os.path.realpath(REPO) + os.sep):
            print(f"asyncio_taskpool imported from {src}, not from {REPO}", file=sys.stderr)
            return 2
        if args.replay:
            return engine.replay(prop, args.replay, out, args)
        proof = leanproj.build_and_audit(prop, thorough=(args.tier == "thorough"))
        ev = engine.run(prop, args.tier, seed, args.jobs, proof, out)
    except subprocess.TimeoutExpired as e:
        print(f"harness timeout: {e}", file=sys.stderr)
        return 2
    except Exception:
        traceback.print_exc()
        return 2
    ev["wall_s"] = round(time.time() - out.t0, 2)
    ev["violations"] = len(out.violations)
    write_json(os.path.join(EVID, f"{prop}.json"), ev)
    for line in out.known:
        print(line, flush=True)
    return 1 if out.violations else 0


if __name__ == "__main__":
    sys.exit(main())
