"""Parsing and projecting observation lines (DESIGN §3.2, §3.3)."""
import re

POOL_FIELDS = ["nm", "n", "c", "e", "f", "l", "s", "z", "g", "ev", "api", "amb"]


def parse(line):
    """'r=.. q=.. ## nm=.. n=.. …' -> {'r':…, 'q':int, 'pools':[{…}], 'ib':str|None}"""
    parts = line.split(" ## ")
    head = dict(kv.split("=", 1) for kv in parts[0].split(" "))
    out = {"r": head.get("r", ""), "q": int(head.get("q", "0")), "pools": [], "ib": None}
    for sec in parts[1:]:
        if sec.startswith("ib="):
            out["ib"] = sec[3:]
            continue
        d = dict(kv.split("=", 1) for kv in sec.split(" "))
        d["ev"] = [] if d.get("ev", "-") == "-" else d["ev"].split(",")
        d["api"] = [] if d.get("api", "-") == "-" else d["api"].split(",")
        g = {}
        if d.get("g", "-") != "-":
            for item in d["g"].split(";"):
                name, ids = item.rsplit(":", 1)
                g[name] = None if ids == "-" else [int(x) for x in ids.split("/") if x]
        d["g"] = g
        for k in ("n", "c", "e", "f", "l", "z", "amb"):
            d[k] = int(d.get(k, "0"))
        out["pools"].append(d)
    return out


EV_KINDS = {
    # S started, X saw CancelledError (and ended by it / returned), R returned, E raised; Y caught a CancelledError and went
    # on awaiting, N its awaited future completed and it went on to its next await (both: still running)
    "worker": re.compile(r"^[SXYNRE]"),
    "cb": re.compile(r"^(cc|cd|cr|ck|ec|ed|er|ek)"),
    "pull": re.compile(r"^P"),
    "hook": re.compile(r"^h\["),
}


def ev_filter(evs, kinds, strip_counts=False, strip_args=False):
    out = []
    for e in evs:
        for k in kinds:
            if EV_KINDS[k].match(e):
                if strip_counts and e[:2] in ("cc", "ec"):
                    e = e.split(":")[0]
                if strip_args and e[0] == "S":
                    e = e.split("(")[0]
                out.append(e)
                break
    return out


def project(o, fields, evkinds=(), head=("r",), strip_counts=False, strip_args=False, api=True):
    """the part of a parsed observation a property talks about"""
    out = [tuple(o[h] for h in head)]
    for p in o["pools"]:
        row = [p.get(f) if f != "g" else tuple(sorted((k, tuple(v) if v is not None else None) for k, v in p["g"].items()))
               for f in fields]
        if evkinds:
            row.append(tuple(ev_filter(p["ev"], evkinds, strip_counts, strip_args)))
        out.append(tuple(row))
    return tuple(out)
