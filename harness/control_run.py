"""Scenario runners for C16–C18: a case is a plain dict (replayable), a run returns failures + statistics.

Failure kinds
  monitor  — the real code breaks a clause of the property on this input (a VIOLATION with a failing input)
  diff     — the Lean model and the real code disagree (correspondence broken; reported with `no-failing-input-found`
             unless a monitor failure is found as well)"""
import asyncio
import collections
import contextlib
import contextvars
import functools
import inspect
import io
import warnings

from . import control_gen as G
from . import control_world as W
from . import model, wmod

_depth = contextvars.ContextVar("verif_depth", default=0)
CALLS = "_verif_calls"


# ------------------------------------------------------------------------------------------------ counting subclass
def _enter(pool):
    d = _depth.get()
    if d == 0:
        pool.__dict__[CALLS] = pool.__dict__.get(CALLS, 0) + 1
    return _depth.set(d + 1)


_static_calls = [0]


def _wrap_static(f):
    """a public static method: the session calls it without the pool (no parameter named `self`), so its outermost
    invocations are counted on the side (deltas are taken around one command of one session)"""
    @functools.wraps(f)
    def wrapper(*a, **k):
        d = _depth.get()
        if d == 0:
            _static_calls[0] += 1
        tok = _depth.set(d + 1)
        try:
            return f(*a, **k)
        finally:
            _depth.reset(tok)
    return staticmethod(wrapper)


def _wrap(f):
    if inspect.iscoroutinefunction(f):
        @functools.wraps(f)
        async def wrapper(self, *a, **k):
            tok = _enter(self)
            try:
                return await f(self, *a, **k)
            finally:
                _depth.reset(tok)
    else:
        @functools.wraps(f)
        def wrapper(self, *a, **k):
            tok = _enter(self)
            try:
                return f(self, *a, **k)
            finally:
                _depth.reset(tok)
    return wrapper


_counting = {}


def counting_class(cls_name):
    """subclass in which every public function / property counts its outermost invocations (public API only:
    the session takes the members from the class it serves)"""
    if cls_name in _counting:
        return _counting[cls_name]
    base = W.CLASSES[cls_name]
    ns = {}
    for name, member in inspect.getmembers(base):
        if name.startswith("_"):
            continue
        if inspect.isfunction(member):
            static = isinstance(inspect.getattr_static(base, name), staticmethod)
            ns[name] = _wrap_static(member) if static else _wrap(member)
        elif isinstance(member, property):
            ns[name] = property(_wrap(member.fget), _wrap(member.fset) if member.fset else None, doc=member.__doc__)
    cls = type(base.__name__, (base,), ns)
    cls.__module__ = base.__module__
    _counting[cls_name] = cls
    return cls


def calls_of(pool):
    return pool.__dict__.get(CALLS, 0) + _static_calls[0]


def observe_quiet(pool):
    """observables without disturbing the invocation counter"""
    c = pool.__dict__.get(CALLS)
    tok = _depth.set(1)
    try:
        return W.observe(pool)
    finally:
        _depth.reset(tok)
        if c is not None:
            pool.__dict__[CALLS] = c


# ------------------------------------------------------------------------------------------------ class context
_ctx = {}


def class_ctx(cls_name, counting=False):
    """member table of the class (regenerated from the real class), the model's view of it"""
    key = (cls_name, counting)
    if key in _ctx:
        return _ctx[key]
    cls = counting_class(cls_name) if counting else W.CLASSES[cls_name]
    members = W.extract(cls)
    cmds = W.commands_of(members)
    tl = W.table_lines(members)
    q = ["wf", "names"] + [f"spec {W.hx(m['name'])}" for m in cmds.values()]
    out = model.run_driver("cdriver", tl + q)[len(tl):]
    flags, specs = {}, {}
    for (cmd, m), line in zip(cmds.items(), out[2:]):
        specs[cmd] = line
        fl = {}
        for part in line.split(" "):
            if not part:
                continue
            n, kind, short, long_, conv = part.split(":")
            if short != "-":
                fl[W.unhx(n)] = W.unhx(short)
        flags[cmd] = fl
    ctx = {"cls": cls, "cls_name": cls_name, "members": members, "cmds": cmds, "table": tl,
           "byname": {m["name"]: m for m in members}, "wf": out[0],
           "model_names": [W.unhx(x) for x in out[1].split(" ") if x], "flags": flags, "specs": specs}
    _ctx[key] = ctx
    return ctx


def make_pool(ctx, name="P"):
    cls = ctx["cls"]
    if issubclass(cls, W.SimpleTaskPool):
        return cls(wmod.w, args=(1,), name=name)
    return cls(name=name)


def verdicts_for(ctx, lines):
    inp = ctx["table"] + ["parse " + W.enc_tokens(ln) for ln in lines]
    out = model.run_driver("cdriver", inp)[len(ctx["table"]):]
    return [W.parse_verdict(v) for v in out], out


class Capture:
    """sys.stdout / sys.stderr of the serving process while a scenario runs"""

    def __enter__(self):
        self.loud = 0
        self.out, self.err = io.StringIO(), io.StringIO()
        self._cm = contextlib.ExitStack()
        self._cm.enter_context(contextlib.redirect_stdout(self.out))
        self._cm.enter_context(contextlib.redirect_stderr(self.err))
        # the serving process shows every warning every time (`-W always`): whether a warning caused by a client's input
        # reaches the server's stderr must not depend on what this process has seen before
        self._cm.enter_context(warnings.catch_warnings())
        warnings.simplefilter("always")
        return self

    def __exit__(self, *exc):
        self._cm.close()
        return False

    def take(self):
        o, e = self.out.getvalue(), self.err.getvalue()
        # what `harness.wmod.loud` workers print is user output: it belongs on the process's stdout (and nowhere else)
        kept = [ln for ln in o.split("\n") if ln != "LOUD"]
        self.loud = getattr(self, "loud", 0) + (len(o.split("\n")) - len(kept))
        o = "\n".join(kept)
        self.out.seek(0), self.out.truncate(), self.err.seek(0), self.err.truncate()
        return o, e


def run_async(coro_fn, timeout):
    """run one scenario in a fresh event loop; nothing may escape as SystemExit"""
    async def guarded():
        try:
            return await asyncio.wait_for(coro_fn(), timeout)
        except asyncio.TimeoutError:
            raise W.HarnessTimeout(f"scenario exceeded {timeout} s")
    loop = asyncio.new_event_loop()
    try:
        asyncio.set_event_loop(loop)
        loop.set_exception_handler(lambda lp, c: None)      # un-retrieved task exceptions of cancelled pools: noise
        return loop.run_until_complete(guarded())
    finally:
        try:
            # bounded: a task that answers a cancellation with yet another wait (a serving task whose clients never go)
            # is cancelled again, a few times, and then abandoned
            for _ in range(5):
                pending = [t for t in asyncio.all_tasks(loop) if not t.done()]
                if not pending:
                    break
                for t in pending:
                    t.cancel()
                loop.run_until_complete(asyncio.wait(pending, timeout=1.0))
        finally:
            asyncio.set_event_loop(None)
            loop.close()


# ------------------------------------------------------------------------------------------------ C16
def check_table(cls_name):
    """surface of the class: real parser vs the property text vs the Lean model (names, flags, nargs, defaults, types)"""
    fails = []
    ctx = class_ctx(cls_name)
    cls, members, cmds = ctx["cls"], ctx["members"], ctx["cmds"]
    try:
        spec = W.real_spec(cls)
    except Exception as e:
        return [{"kind": "monitor", "monitor": "parser-cannot-be-built", "detail": repr(e)}], {}
    real_cmds = set(spec)
    want = set(cmds)
    if real_cmds != want:
        fails.append({"kind": "monitor", "monitor": "command-surface",
                      "detail": {"missing": sorted(want - real_cmds), "unexpected": sorted(real_cmds - want)}})
    hidden = [c for c, s in spec.items() if s["member"].startswith("_")]
    if hidden:
        fails.append({"kind": "monitor", "monitor": "non-public-exposed", "detail": hidden})
    if set(ctx["model_names"]) != real_cmds:
        fails.append({"kind": "diff", "what": "command names", "model": sorted(ctx["model_names"]), "impl": sorted(real_cmds)})
    if ctx["wf"] != "wf=1 build=1":
        fails.append({"kind": "diff", "what": "member table outside the theorems' hypotheses", "model": ctx["wf"]})
    tname = {"int": "int", "str": "str", "float": "float", "literal_eval": "literal", "resolve_dotted_path": "dotted",
             "bool": "bool"}
    n_actions = 0
    for cmd in sorted(real_cmds & want):
        m = cmds[cmd]
        if spec[cmd]["help"] != [["-h", "--help"]]:
            fails.append({"kind": "monitor", "monitor": "help-flag", "detail": {cmd: spec[cmd]["help"]}})
        mod = []
        for part in ctx["specs"][cmd].split(" "):
            if not part:
                continue
            n, kind, short, long_, conv = part.split(":")
            mod.append({"dest": W.unhx(n), "kind": kind, "short": None if short == "-" else "-" + W.unhx(short),
                        "long": None if long_ == "-" else "--" + W.unhx(long_), "conv": conv})
        real = []
        for a in spec[cmd]["actions"]:
            n_actions += 1
            shorts = [o for o in a["opts"] if not o.startswith("--")]
            longs = [o for o in a["opts"] if o.startswith("--")]
            if not a["opts"]:
                kind = {None: "pos", "*": "var", "?": "pos"}.get(a["nargs"], f"nargs={a['nargs']}")
            else:
                kind = "flag" if a["action"] == "_StoreTrueAction" else "opt"
            real.append({"dest": a["dest"], "kind": kind, "short": shorts[0] if shorts else None,
                         "long": longs[0] if longs else None,
                         "conv": "str" if kind == "flag" else tname.get(a["type"], f"?{a['type']}")})
            # the defaults argparse will put into the namespace
            p = next((q for q in m["params"] if q["name"] == a["dest"]), None)
            if p is not None:
                if kind == "opt" and not (a["default"] is p["default"] or a["default"] == p["default"]):
                    fails.append({"kind": "monitor", "monitor": "default-not-the-methods-own",
                                  "detail": {cmd: [a["dest"], repr(a["default"]), repr(p["default"])]}})
                if kind == "flag" and not (a["default"] is False and p["default"] is False):
                    if cls_name in ("TaskPool", "SimpleTaskPool"):
                        fails.append({"kind": "monitor", "monitor": "default-not-the-methods-own",
                                      "detail": {cmd: [a["dest"], repr(a["default"]), repr(p["default"])]}})
        if m["kind"] == "proprw":
            if [a["nargs"] for a in spec[cmd]["actions"]] != ["?"]:
                fails.append({"kind": "diff", "what": f"setter argument of {cmd}", "impl": spec[cmd]["actions"]})
        for x in mod:
            if x["kind"] == "flag":
                x["conv"] = "str"
        if mod != real:
            fails.append({"kind": "diff", "what": f"argument spec of {cmd}", "model": mod, "impl": real})
    return fails, {"commands": len(real_cmds), "actions": n_actions}


def help_lines(ctx):
    lines = ["-h", "--help"]
    for cmd in sorted(ctx["cmds"]):
        lines += [cmd + " -h", cmd + " --help"]
    return lines


def check_handshake_help(cls_name, width, pool_name="P", lines=None):
    """handshake at `width`, then help requests through the real session"""
    ctx = class_ctx(cls_name)
    lines = help_lines(ctx) if lines is None else lines
    vs, raw = verdicts_for(ctx, lines)
    fails = []
    stats = collections.Counter()

    async def scenario():
        wmod.reset()
        W.forget_servers()
        pool = make_pool(ctx, pool_name)
        with Capture() as cap:
            s = W.MemSession(pool)
            try:
                got = await s.handshake(W.hello_line(width))
            except W.HarnessTimeout:
                raise
            except Exception as e:
                fails.append({"kind": "monitor", "monitor": "handshake-crashed", "detail": repr(e)})
                return
            if got != [str(pool) + "\n"]:
                fails.append({"kind": "monitor", "monitor": "handshake-reply", "detail": {"got": got, "want": str(pool)}})
            s.start()
            before = W.observe(pool)
            for line, v, rv in zip(lines, vs, raw):
                r = await s.send(line)
                stats["help_requests"] += 1
                esc = s.escaped()
                if esc is not None:
                    fails.append({"kind": "monitor", "monitor": "exception-escaped", "line": line, "detail": repr(esc)})
                    return
                if len(r) != 1:
                    fails.append({"kind": "monitor", "monitor": "help-not-one-reply", "line": line, "detail": r})
                    continue
                kind, first = W.classify_reply(r[0])
                cmd = line.split(" ")[0] if not line.startswith("-") else ""
                head = first if kind == "help" else ""
                ok = kind == "help" and (head == "usage: " + cmd or head.startswith("usage: " + cmd + " ")
                                         or (cmd == "" and head.startswith("usage: [-h]")))
                if not ok:
                    fails.append({"kind": "monitor", "monitor": "help-not-described", "line": line, "detail": r[0][:200]})
                if cmd and cmd not in r[0]:
                    fails.append({"kind": "monitor", "monitor": "help-not-described", "line": line, "detail": r[0][:200]})
                # the help of a command describes the member of THIS class: every parameter of it shows up
                if cmd and kind == "help" and cmd in ctx["cmds"]:
                    text = " ".join(r[0].split())
                    for prm in ctx["cmds"][cmd].get("params", []):
                        shown = ("--" + prm["name"].replace("_", "-")) if prm["kind"] in ("opt", "flag") else prm["name"]
                        if shown not in text:
                            fails.append({"kind": "monitor", "monitor": "help-lacks-a-parameter", "line": line,
                                          "detail": {"parameter": prm["name"], "help": r[0][:200]}})
                            break
                want = {"kind": "help", "of": ctx["cmds"][cmd]["name"] if cmd else None}
                if v != want:
                    fails.append({"kind": "diff", "what": "verdict of a help request", "line": line, "model": rv, "impl": "help"})
            if W.observe(pool) != before:
                fails.append({"kind": "monitor", "monitor": "help-altered-pool", "detail": [before, W.observe(pool)]})
            o, e = cap.take()
            if o or e:
                fails.append({"kind": "monitor", "monitor": "printed", "detail": {"stdout": o[:200], "stderr": e[:200]}})
            await s.finish()
            await W.settle_pool(pool)

    run_async(scenario, 60)
    return fails, stats


# ------------------------------------------------------------------------------------------------ C17 / C18 scripts
class ScriptRun:
    """one case: sessions on a served pool, an oracle pool that must stay equal to it

    mode "tv"  (C17): the model's verdict is applied as a DIRECT call to the twin pool
    mode "iso" (C18): every line is also sent through a FRESH session on the twin pool (own-output oracle), the
                      served class counts its invocations, the Lean session model follows the event trace"""

    def __init__(self, case):
        self.case = case
        self.mode = case["mode"]
        self.ctx = class_ctx(case["cls"], counting=(self.mode == "iso"))
        self.fails = []
        self.stats = collections.Counter()
        self.samples = []
        self.trace = []                 # session events for the Lean session model
        self.relaxed = False
        self.abort = False
        self.loud_base = wmod.LOUD_PRINTED
        self.lines = [it[2] for it in case["script"] if it[0] == "line"]
        for it in case["script"]:
            if it[0] == "line" and len(it) > 3:
                self.lines += list(it[3].get("queued", [])) + [x[1] for x in it[3].get("meanwhile", [])]
            if it[0] == "pair":
                self.lines += [it[1][1], it[2][1]]

    def fail(self, kind, **kw):
        self.fails.append(dict(kind=kind, **kw))

    # -- plumbing
    async def oracle(self, line):
        """expected reply for `line`; what the oracle's own pool invokes does not count as an invocation of the served one
        (static methods are counted on the side, not per pool)"""
        s0 = _static_calls[0]
        try:
            return await self._oracle(line)
        finally:
            _static_calls[0] = s0

    async def _oracle(self, line):
        """expected reply for `line`: a fresh session on the twin (iso) or a direct call on the twin (tv)"""
        v = self.verdict[line]
        if self.mode == "tv":
            if v["kind"] in ("call", "get", "set"):
                return await W.apply_verdict(self.twin, self.ctx["byname"], v)
            return None
        o = W.MemSession(self.twin, own_server=True)      # a fresh session of a fresh server: nobody else in its way
        await o.handshake(W.hello_line(self.case["width"]))
        o.start()
        r = await o.send(line)
        if o.escaped() is not None:
            return ("escaped", repr(o.escaped()))
        if not r:
            return W.Pending(session=o)
        await o.finish()
        return r[0][:-1] if r[0].endswith("\n") else r[0]

    def check_printed(self, line):
        o, e = self.cap.take()
        if o or e:
            self.fail("monitor", monitor="printed", line=line, detail={"stdout": o[:200], "stderr": e[:200]})
        if self.cap.loud != wmod.LOUD_PRINTED - self.loud_base and not getattr(self, "_loud_reported", False):
            self._loud_reported = True
            self.fail("monitor", monitor="user-output-diverted", line=line,
                      detail={"printed_by_workers": wmod.LOUD_PRINTED - self.loud_base, "reached_stdout": self.cap.loud})

    def compare_pools(self, line, where):
        a, b = observe_quiet(self.pool), observe_quiet(self.twin)
        if a != b:
            if self.mode == "tv":
                self.fail("monitor", monitor="effect-differs-from-direct-call", line=line, detail={"served": a, "direct": b})
            else:
                self.fail("monitor", monitor="effect-depends-on-session-history", line=line, detail={"served": a, "fresh": b})
            return False
        return True

    def worker_calls_paired(self, line):
        new = wmod.STARTED[self.started_seen:]
        self.started_seen = len(wmod.STARTED)
        c = collections.Counter(map(repr, new))
        odd = [k for k, n in c.items() if n % 2]
        if odd:
            self.fail("monitor", monitor="worker-arguments-differ", line=line, detail=odd[:4])

    async def end_wait(self, s, exp):
        """the environment ends the wait of a pending command: tasks finish (as often as the pool needs to drain); if that is
        not enough the pool is closed"""
        def over():
            mine = bool(self.sess[s].writer.writes) or self.sess[s].escaped() is not None
            if exp.session is not None:
                theirs = bool(exp.session.writer.writes)
            else:
                theirs = exp.task.done()
            return mine and theirs
        for _ in range(40):
            if over():
                return
            wmod.release()
            await W.spin()
        for p in (self.pool, self.twin):
            tok = _depth.set(1)
            try:
                t = asyncio.ensure_future(p.gather_and_close())
            finally:
                _depth.reset(tok)
            self.bg.append(t)
        for _ in range(40):
            if over():
                return
            wmod.release()
            await W.spin()

    # -- one line
    async def do_line(self, s, line, extra=None):
        extra = extra or {}
        sess = self.sess[s]
        v = self.verdict[line]
        self.stats["v:" + v["kind"]] += 1
        if v["kind"] == "error":
            self.stats["e:" + v["err"]] += 1
        # lines that write an option as `--name=value`, as an abbreviation, ambiguously, ...: how many were generated, how
        # many of them the model judges (inside the fragment), and with which kind of verdict
        for form in G.line_forms(line, self.ctx["cmds"]):
            self.stats["form:" + form] += 1
            self.stats["form:" + form + (":outside" if v["kind"] == "outside" else ":inside")] += 1
            if v["kind"] != "outside":
                self.stats["form:" + form + ":" + v["kind"]] += 1
        if self.dead[s] or self.abort:
            return
        if self.mode == "tv" and v["kind"] == "outside":
            self.stats["skipped_outside"] += 1
            return
        before = observe_quiet(self.pool)
        calls0 = calls_of(self.pool)
        self.trace.append(("L", s, line))
        replies = await sess.send(line)
        self.stats["lines"] += 1
        esc = sess.escaped()
        if esc is not None:
            self.dead[s] = True
            self.fail("monitor", monitor="exception-escaped", line=line, detail=repr(esc))
            return
        self.check_printed(line)
        exp = await self.oracle(line)
        if isinstance(exp, tuple) and exp and exp[0] == "escaped":
            self.fail("monitor", monitor="exception-escaped", line=line, detail=exp[1] + " (fresh session)")
            return
        await W.spin(8)
        # the served pool got its call a few loop iterations before the twin: a long chain of short tasks (`apply -n 7` of a
        # worker that returns at once in a pool of size 1) is still under way on both after a fixed number of iterations, at
        # different points - let both run until neither moves any more (tasks waiting for the environment stay where they are)
        for _ in range(40):
            snap = (observe_quiet(self.pool), observe_quiet(self.twin))
            await W.spin(4)
            if (observe_quiet(self.pool), observe_quiet(self.twin)) == snap:
                break
        pending_real = not replies
        pending_exp = isinstance(exp, W.Pending)
        if len(replies) > 1:
            self.fail("monitor", monitor="several-replies", line=line, detail=replies)
            return
        # only the three methods that themselves wait may leave a line unanswered for a while — whatever the oracle does
        if pending_real and (v["kind"] in ("help", "error", "get", "set") or
                             (v["kind"] == "call" and v.get("member") not in ("gather_and_close", "until_closed", "flush"))):
            self.fail("monitor", monitor="no-reply", line=line,
                      detail={"replies": replies, "verdict": v["kind"], "member": v.get("member")})
            if pending_exp:
                await self.drop_pending(exp)
            self.dead[s] = True
            return
        if pending_real or pending_exp:
            if pending_real != pending_exp:
                if self.mode == "tv" or v["kind"] != "outside":
                    self.fail("monitor", monitor="no-reply" if pending_real else "reply-before-wait-ended", line=line,
                              detail={"replies": replies, "oracle": "pending" if pending_exp else exp})
                if pending_exp:
                    await self.drop_pending(exp)
                if pending_real:
                    self.dead[s] = True
                return
            await self.waiting(s, line, exp, extra)
            return
        reply = replies[0]
        self.trace.append(("R", s, reply))
        self.judge(s, line, v, reply, exp, before, calls0)
        for q in extra.get("queued", []):
            await self.do_line(s, q)
        for (s2, l2) in extra.get("meanwhile", []):
            await self.do_line(s2, l2)

    def judge(self, s, line, v, reply, exp, before, calls0):
        """one reply was written for `line`"""
        if not reply.endswith("\n"):
            self.fail("monitor", monitor="reply-not-terminated", line=line, detail=reply[-40:])
        text = reply[:-1]
        kind, first = W.classify_reply(reply)
        first = first or ""
        delta = calls_of(self.pool) - calls0
        strict = self.mode == "iso" and not self.relaxed
        if strict:
            self.stats["inv:" + str(delta)] += 1
            if delta > 1:
                self.fail("monitor", monitor="several-invocations", line=line, detail=delta)
            if delta == 0 and observe_quiet(self.pool) != before:
                self.fail("monitor", monitor="pool-altered-without-invocation", line=line,
                          detail=[before, observe_quiet(self.pool)])
        if v["kind"] in ("help", "error"):
            if (observe_quiet(self.pool) != before and not self.relaxed) or (strict and delta != 0):
                self.fail("monitor", monitor="rejected-line-altered-pool", line=line,
                          detail={"before": before, "after": observe_quiet(self.pool), "invocations": delta})
            got = (kind, None) if kind == "help" else (kind, first or None)
            want = ("help", None) if v["kind"] == "help" else ("error", v["err"])
            if got != want:
                self.fail("diff", what="verdict", line=line, model=v, impl=[kind, first, text[:160]])
            if v["kind"] == "help" and v["of"] is not None:
                cmd = v["of"].replace("_", "-")
                if not (first == "usage: " + cmd or first.startswith("usage: " + cmd + " ")):
                    self.fail("monitor", monitor="reply-not-own-output", line=line, detail=text[:160])
        if exp is not None and not isinstance(exp, W.Pending):
            if text != exp:
                if self.mode == "tv":
                    if v["kind"] in ("call", "get", "set") and kind in ("help", "error"):
                        self.fail("diff", what="verdict", line=line, model=v, impl=[kind, first, text[:160]])
                    else:
                        self.fail("monitor", monitor="reply-differs-from-direct-call", line=line,
                                  detail={"reply": text[:300], "direct": exp[:300]})
                else:
                    self.fail("monitor", monitor="reply-not-own-output", line=line,
                              detail={"reply": text[:300], "fresh_session": exp[:300]})
        if self.mode == "iso" and v["kind"] in ("call", "get", "set"):
            if kind in ("help", "error"):
                self.fail("diff", what="verdict", line=line, model=v, impl=[kind, first, text[:160]])
            elif strict and delta != 1:
                self.fail("monitor", monitor="command-did-not-invoke-once", line=line, detail=delta)
        self.compare_pools(line, "after")
        self.worker_calls_paired(line)
        if len(self.samples) < 4:
            self.samples.append({"line": line, "verdict": v["kind"], "reply": text[:80]})

    async def drop_pending(self, exp):
        if exp.session is not None:
            await exp.session.finish()
        elif exp.task is not None and not exp.task.done():
            exp.task.cancel()

    async def waiting(self, s, line, exp, extra):
        """the command's method waits; `exp` is the oracle's pending counterpart"""
        sess = self.sess[s]
        self.stats["waits"] += 1
        queued = list(extra.get("queued", []))
        for q in queued:
            self.trace.append(("L", s, q))
            sess.feed(q)
        await W.spin()
        if sess.writer.writes:
            self.fail("monitor", monitor="reply-before-wait-ended", line=line, detail=sess.take())
            return
        self.relaxed = bool(queued)          # the waiting session may resume (and invoke) while another one is served
        for (s2, l2) in extra.get("meanwhile", []):
            if s2 != s:
                await self.do_line(s2, l2)
        self.relaxed = False
        await self.end_wait(s, exp)
        await W.spin()
        got = sess.take()
        if sess.escaped() is not None:
            self.dead[s] = True
            self.fail("monitor", monitor="exception-escaped", line=line, detail=repr(sess.escaped()))
            return
        # what the oracle says for the awaited command
        if self.mode == "tv":
            for _ in range(W.SPINS):
                if exp.task.done():
                    break
                await asyncio.sleep(0)
            want0 = W.reply_of(exp.task.result()) if exp.task.done() else None
        else:
            o = exp.session
            for _ in range(W.SPINS):
                if o.writer.writes:
                    break
                await asyncio.sleep(0)
            r = o.take()
            want0 = r[0][:-1] if r else None
            await o.finish()
        if not got:
            self.dead[s] = True
            if want0 is None:
                # neither the session nor the same call made directly ever returns (e.g. tasks that can never start in a
                # pool of size 0): the wait is not over, so no reply is owed
                self.stats["endless_waits"] += 1
                await self.drop_pending(exp)
                self.abort = True           # the two pools are no longer comparable once the harness cancelled one wait
                return
            self.fail("monitor", monitor="no-reply-after-wait-ended", line=line, detail={"oracle": want0})
            return
        if want0 is None:
            # the session answered although the same call made directly (or by a fresh session) is still waiting
            self.fail("monitor", monitor="effect-differs-from-direct-call" if self.mode == "tv" else
                      "effect-depends-on-session-history", line=line, detail={"reply": got, "oracle": "still waiting"})
            await self.drop_pending(exp)
            return
        # with lines queued behind the waiting command the session answers them afterwards, in order
        want = [want0]
        if len(got) != 1 + len(queued):
            # queued lines may themselves wait; keep it simple: they are generated not to
            self.fail("monitor", monitor="queued-lines-not-answered-once", line=line, detail={"got": got, "queued": queued})
            return
        for g in got:
            self.trace.append(("R", s, g))
        if got[0] != want0 + "\n":
            self.fail("monitor", monitor="reply-differs-from-direct-call" if self.mode == "tv" else "reply-not-own-output",
                      line=line, detail={"reply": got[0][:200], "oracle": want0[:200]})
        for q, g in zip(queued, got[1:]):
            e = await self.oracle(q)
            if isinstance(e, W.Pending):
                await self.drop_pending(e)
                continue
            if e is not None and not isinstance(e, tuple) and g != e + "\n":
                self.fail("monitor", monitor="reply-not-own-output", line=q, detail={"reply": g[:200], "oracle": e[:200]})
        await W.spin(8)
        self.compare_pools(line, "after-wait")
        self.worker_calls_paired(line)

    async def do_pair(self, a, b):
        """two sessions receive a line at the same moment; each must get exactly its own answer"""
        (s1, l1), (s2, l2) = a, b
        if self.dead[s1] or self.dead[s2] or s1 == s2:
            return
        for (s, ln) in (a, b):
            if self.verdict[ln]["kind"] not in ("help", "error"):
                return
        self.trace.append(("L", s1, l1))
        self.trace.append(("L", s2, l2))
        self.sess[s1].feed(l1)
        self.sess[s2].feed(l2)
        await W.spin()
        self.stats["pairs"] += 1
        for (s, ln) in (a, b):
            got = self.sess[s].take()
            self.stats["lines"] += 1
            if self.sess[s].escaped() is not None:
                self.dead[s] = True
                self.fail("monitor", monitor="exception-escaped", line=ln, detail=repr(self.sess[s].escaped()))
                continue
            if len(got) != 1:
                self.fail("monitor", monitor="no-reply" if not got else "several-replies", line=ln, detail=got)
                continue
            self.trace.append(("R", s, got[0]))
            e = await self.oracle(ln)
            if not isinstance(e, (W.Pending, tuple)) and e is not None and got[0] != e + "\n":
                self.fail("monitor", monitor="reply-not-own-output", line=ln,
                          detail={"reply": got[0][:200], "fresh_session": e[:200], "other_session_line": l2 if s == s1 else l1})
        self.check_printed(l1 + " || " + l2)

    # -- the whole script
    async def scenario(self):
        case = self.case
        wmod.reset()
        W.forget_servers()
        self.started_seen = 0
        self.bg = []
        self.pool = make_pool(self.ctx, "P")
        self.twin = make_pool(self.ctx, "P")
        n = case.get("nsess", 1)
        self.dead = [False] * n
        with Capture() as cap:
            self.cap = cap
            self.sess = []
            for i in range(n):
                s = W.MemSession(self.pool)
                try:
                    got = await s.handshake(W.hello_line(case["width"]))
                except W.HarnessTimeout:
                    raise
                except Exception as e:
                    self.fail("monitor", monitor="handshake-crashed", detail=repr(e))
                    return
                if got != [str(self.pool) + "\n"]:
                    self.fail("monitor", monitor="handshake-reply", detail=got)
                s.start()
                self.sess.append(s)
            for it in case["script"]:
                if self.abort:
                    break
                if it[0] == "line":
                    await self.do_line(it[1], it[2], it[3] if len(it) > 3 else None)
                elif it[0] == "pair":
                    await self.do_pair(it[1], it[2])
                elif it[0] == "env":
                    if it[1] == "release":
                        wmod.release()
                    elif it[1] == "swap":
                        wmod.swap()
                    await W.spin()
                    self.compare_pools("@" + it[1], "env")
                    self.worker_calls_paired("@" + it[1])
                elif it[0] == "blank":
                    s = it[1]
                    if not self.dead[s]:
                        self.trace.append(("B", s, ""))
                        got = await self.sess[s].send("")
                        if got:
                            self.fail("monitor", monitor="reply-to-blank-line", detail=got)
                        self.dead[s] = True
                        if self.sess[s].task is not None and not self.sess[s].task.done():
                            self.fail("monitor", monitor="session-did-not-end-on-blank-line", detail="")
            self.check_printed("<end>")
            for s in self.sess:
                await s.finish()
            await W.settle_pool(self.pool)
            await W.settle_pool(self.twin)
            for t in self.bg:
                if not t.done():
                    t.cancel()

    def session_model_tie(self):
        """the Lean session model follows the recorded events (lines fed, replies seen): same replies per session, in
        the same order.  In the driver every method call stays pending until `sdone` hands it the reply text the real
        session gave, so what is compared is the structure: one reply per line, queueing behind a waiting command,
        nothing after a blank line."""
        if self.mode != "iso" or not self.trace:
            return
        script = ["sreset"]
        owner = [None]
        sim = collections.defaultdict(lambda: {"waiting": False, "inbox": [], "ended": False, "owed": []})

        def process(st, line):
            if line is None:
                st["ended"] = True
            elif self.verdict[line]["kind"] in ("call", "get", "set"):
                st["waiting"] = True
                st["owed"].append("act")
            else:
                st["owed"].append("msg")

        def pump(st):
            while st["inbox"] and not st["waiting"] and not st["ended"]:
                process(st, st["inbox"].pop(0))

        real = collections.defaultdict(list)
        for ev, s, text in self.trace:
            st = sim[s]
            if ev == "L":
                script.append(f"sline {s} {W.enc_tokens(text)}")
                owner.append(s)
                st["inbox"].append(text)
                pump(st)
            elif ev == "B":
                script.append(f"sblank {s}")
                owner.append(s)
                st["inbox"].append(None)
                pump(st)
            else:
                real[s].append(text)
                if st["owed"] and st["owed"].pop(0) == "act":
                    body = text[:-1] if text.endswith("\n") else text
                    script.append(f"sdone {s} value {W.hx(body)}")
                    owner.append(s)
                    st["waiting"] = False
                    pump(st)
        outs = model.run_driver("cdriver", self.ctx["table"] + script)[len(self.ctx["table"]):]
        mod = collections.defaultdict(list)
        for s, o in zip(owner, outs):
            if s is None:
                continue
            fields = dict(x.split("=", 1) for x in o.split(" "))
            for h in [x for x in fields["replies"].split(",") if x]:
                mod[s].append(W.unhx(h[1:]))
        self.stats["model_session_steps"] += len(script) - 1
        for s in sorted(set(real) | set(mod)):
            got, m = real.get(s, []), mod.get(s, [])
            ok = len(got) == len(m) and all(a == "<msg>" or a + "\n" == g for a, g in zip(m, got))
            if not ok:
                self.fail("diff", what="session model", session=s, model=[a[:60] for a in m], impl=[g[:60] for g in got])

    def run(self):
        uniq = list(dict.fromkeys(self.lines))
        vs, raw = verdicts_for(self.ctx, uniq)
        self.verdict = dict(zip(uniq, vs))
        try:
            run_async(self.scenario, 120)
        except SystemExit as e:
            self.fail("monitor", monitor="process-exit", detail=repr(e))
        self.session_model_tie()
        return self.fails, self.stats, self.samples
