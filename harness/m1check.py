"""Engine for C01–C15: the pool machine M1 against the real pool classes."""
import collections
import glob
import hashlib
import json
import multiprocessing as mp
import os
import random
import time

from . import gen, model, monitors, props, shrink
from . import obs as O
from .leanproj import proof_coverage
from .story import Story

ROOT = os.path.dirname(os.path.dirname(os.path.abspath(__file__)))
PROPS = props.M1_PROPS
NOCMP = ("reset", "mark", "bad-op")


def known_findings(prop):
    path = os.path.join(ROOT, "known_findings.json")
    try:
        with open(path) as fh:
            data = json.load(fh)
    except FileNotFoundError:
        return []
    return [f for f in data.get("findings", []) if f["property"] == prop]


def corpus(prop):
    out = []
    for path in sorted(glob.glob(os.path.join(ROOT, "corpus", prop, "*.json"))):
        with open(path) as fh:
            d = json.load(fh)
        out.append((os.path.relpath(path, ROOT), d["body"]))
    return out


# every op sequence up to a fixed length over a small alphabet, on a pool of size 1 and on one of size 2: a systematic
# complement of the seeded random profiles (the same for every property; its own projection and monitors apply)
EX_ALPHABET = [
    "on 0 apply 2 G g 0 n c 0 1 -",          # apply(num=2) in group G: gated workers, coroutine cancel callback
    "on 0 map 0 000 1 H g1 0 p n 1 -",       # map over 3 elements, num_concurrent=1, workers with two awaits, plain end callback
    "on 0 cancel 0",
    "on 0 cancel_group G",
    "on 0 cancel_all",
    "on 0 gate 0 ok",
    "on 0 gate 1 ok",
    "run",
    "on 0 flush 1",
    "on 0 lock",
    "on 0 gac 1",
]
EX_LEN = {"quick": 4, "thorough": 5}


def exhaustive_bodies(tier):
    import itertools
    out = []
    for size in ("1", "2"):
        for n in range(1, EX_LEN[tier] + 1):
            if size == "2" and n > EX_LEN[tier] - 1:
                continue
            for seq in itertools.product(range(len(EX_ALPHABET)), repeat=n):
                out.append((f"ex:{size}:" + "".join(format(k, "x") for k in seq),
                            [f"mkpool task {size} -"] + [EX_ALPHABET[k] for k in seq]))
    return out


def model_obs(lines):
    res = model.run_driver("tpdriver", lines)
    outs, bits = [], []
    for m in res:
        if " ## ib=" in m:
            a, b = m.rsplit(" ## ib=", 1)
            outs.append(a)
            bits.append(b)
        else:
            outs.append(m)
            bits.append(None)
    return outs, bits


def first_mismatch(prop, lines, impl_obs, mod_obs, full=False):
    """index of the first observation on which the property's projection differs, or None; stops at `amb=1`"""
    fields, evk, sc, sa = props.PROJ[prop]
    for j, (a, b) in enumerate(zip(impl_obs, mod_obs)):
        if a in NOCMP or b in NOCMP:
            if a != b:
                return j, "marker"
            continue
        if "amb=1" in b:
            return None, "ambiguous"
        if full:
            if a != b:
                return j, "full"
            continue
        try:
            pa = O.project(O.parse(a), fields, evk, strip_counts=sc, strip_args=sa)
            pb = O.project(O.parse(b), fields, evk, strip_counts=sc, strip_args=sa)
        except Exception as e:          # an observation the parser does not understand is a disagreement
            return j, f"unparsable: {e!r}"
        if pa != pb:
            return j, "projection"
    return None, None


def _has_unlock(line):
    t = line.split()
    if len(t) > 2 and t[0] == "on" and t[2] == "unlock":
        return True
    return any(":" in tok and gen.has_unlock(tok) for tok in t[1:])


def examine(prop, r, mobs, mbits):
    """diff, invariant bits and monitors for one executed history; returns (failures, stats)"""
    fails = []
    j, why = first_mismatch(prop, r["lines"], r["obs"], mobs)
    ambiguous = why == "ambiguous"
    if j is not None:
        fails.append({"kind": "diff", "step": j, "detail": why, "impl": r["obs"][j], "model": mobs[j]})
    try:
        st = Story(r["lines"], r["obs"], r["extras"])
        fs = monitors.mon_C12(st, r["loopexc"]) if prop == "C12" else monitors.MONITORS[prop](st)
    except Exception as e:
        st = None
        fs = [("monitor-crashed", 0, repr(e))]
    seen = set()
    for (name, step, detail) in fs:
        if name in seen:
            continue
        seen.add(name)
        fj, _ = first_mismatch(prop, r["lines"], r["obs"], mobs, full=True)
        fails.append({"kind": "monitor", "monitor": name, "step": step, "detail": detail,
                      "model_agrees": fj is None and not ambiguous,
                      "triggers": [t for t in ("any", "set_size", "unlock_while_closing")
                                   if st is not None and monitors.trigger_holds(t, st)]})
    # invariant bits of the model state the implementation was just shown to agree with
    if j is None and st is not None:
        stop = {pi: monitors.first_ok_set_size(ps) for pi, ps in enumerate(st.pools)}
        # the first line that calls unlock() or hands user code that does to a pool: from there on the invariant of sealed
        # pools (bit 14) and "no task is ever lost" (bit 2) are not claimed (known finding R9 needs an unlock())
        first_unlock = next((k for k, ln in enumerate(r["lines"]) if _has_unlock(ln)), None)
        for k, b in enumerate(mbits):
            if not b:
                continue
            # per pool: slot, phase, not-lost, registries, life cycle + groups, map books, accounting, flush, wake-up,
            # cancelled spawners stopped, no snapshot changed by the step, snapshot taken on cancellation
            # (pools separated by '.'; the first three only in the old format)
            groups = b[3:].split(".") if b.startswith("v2:") else [b[3 * i:3 * i + 3] for i in range(len(b) // 3)]
            for pi, g in enumerate(groups):
                if len(g) < 3:
                    continue
                sbit, pbit = g[0], g[1]
                limit = stop.get(pi)
                fixed = limit is None or k < limit
                bad = pbit == "0" or (sbit == "0" and fixed)
                if len(g) >= 9:
                    names = ["slot", "phase", "lost", "registries", "life-cycle", "map-books", "accounting", "flush", "wake-up",
                             "cancelled-spawners-stopped", "snapshot-kept", "snapshot-taken", "want", "sched", "seal", "end-filed", "emptied", "elements", "blame"]
                    for idx in (3, 4, 5, 6, 7, 9, 10, 11, 12, 13, 17, 18):
                        if idx < len(g) and g[idx] == "0":
                            bad = True
                    if g[8] == "0" and fixed:
                        bad = True
                    if (first_unlock is None or k < first_unlock) and (g[2] == "0" or (len(g) > 14 and g[14] == "0") or (len(g) > 15 and g[15] == "0") or (len(g) > 16 and g[16] == "0")):
                        bad = True
                    detail = f"pool {pi} bits {g} (" + ",".join(n for n, c in zip(names, g) if c == "0") + ")"
                else:
                    detail = f"pool {pi} bits {sbit}{pbit}"
                if bad:
                    fails.append({"kind": "invbit", "step": k, "detail": detail})
                    break
            else:
                continue
            break
    return fails, ambiguous


def stats_of(r):
    c = collections.Counter()
    started = 0
    had_next = set()        # (pool, task id) of workers that have gone on to a later await
    for ln, o in zip(r["lines"], r["obs"]):
        t = ln.split()
        if not t:
            continue
        op = t[2] if t[0] == "on" and len(t) > 2 else t[0]
        c["op:" + op] += 1
        if o.startswith("r=err:"):
            c["err:" + o.split(" ")[0][6:]] += 1
        # workers with several suspension points (modes g1 / g2): accepted requests / pools carrying one, the events `N`
        # (went on to the next await), and the cancellations delivered at a later await (X or Y after an N)
        wm = (t[5] if op == "apply" and len(t) > 5 else t[7] if op == "map" and len(t) > 7 else
              t[4] if t[0] == "mkpool" and len(t) > 4 and t[1] == "simple" else "")
        if len(wm) > 1 and wm[0] == "g" and wm[1:].isdigit() and int(wm[1:]) > 0 and o.startswith("r=name:"):
            c["ma:specs_accepted"] += 1
            # hook point `n`: pool calls the worker makes between two awaits
            hi = 11 if op == "apply" else 12 if op == "map" else 10
            if len(t) > hi and any(part.startswith("n:") for part in t[hi].split("|")):
                c["ma:specs_with_next_hooks"] += 1
        for pi, sec in enumerate(o.split(" ## ")[1:]):
            if " ev=" not in sec:
                continue
            after_next = False      # the events right after an `N` are the results of the worker's pool calls there
            for e in sec.split(" ev=")[1].split(" ")[0].split(","):
                if after_next and e.startswith("h["):
                    c["ma:next_hook_calls"] += 1
                    if e == "h[ok]":
                        c["ma:next_hook_calls_ok"] += 1
                    continue
                after_next = False
                if e[:1] == "N" and e[1:].isdigit():
                    after_next = True
                    c["ma:N_events"] += 1
                    if (pi, e[1:]) not in had_next:
                        had_next.add((pi, e[1:]))
                        c["ma:workers_reaching_a_later_await"] += 1
                elif e[:1] in "XY" and e[1:].isdigit() and (pi, e[1:]) in had_next:
                    c["ma:cancellations_delivered_at_a_later_await"] += 1
                elif e[:1] == "E" and e[1:].isdigit() and (pi, e[1:]) in had_next:
                    c["ma:exceptions_at_a_later_await"] += 1
        started += o.count("S") if False else sum(1 for sec in o.split(" ## ")[1:] for e in
                                                  (sec.split(" ev=")[1].split(" ")[0].split(",") if " ev=" in sec else [])
                                                  if e[:1] == "S")
    c["len"] = len(r["lines"])
    # sealed prefix (no unlock yet): the states on which the invariants of sealed pools (bits 14-16) and lost = false are demanded
    fu = next((k for k, ln in enumerate(r["lines"]) if _has_unlock(ln)), len(r["lines"]))
    c["sealed:states_checked"] += fu
    gac_at = [k for k, ln in enumerate(r["lines"][:fu]) if len(ln.split()) > 2 and ln.split()[0] == "on" and ln.split()[2] == "gac"]
    if gac_at:
        c["sealed:histories_with_gather_and_close"] += 1
        c["sealed:states_after_a_gather_and_close"] += fu - gac_at[0]
        if any(" z=1" in o for o in r["obs"][:fu]):
            c["sealed:histories_closed_before_any_unlock"] += 1
        if len(gac_at) > 1:
            c["sealed:histories_with_several_gather_and_close"] += 1
    return c, started


def work(job):
    prop, seed, start, count, bodies = job
    prof = props.PROFILES[prop]
    runs = []
    for i in range(start, start + count):
        rng = random.Random(seed * 1000003 + i)
        runs.append((f"gen:{seed}:{i}", gen.generate(rng, prof)))
    for (name, body) in bodies:
        runs.append((name, gen.replay(body + ["mark winddown"])))
    lines = [ln for _, r in runs for ln in r["lines"]]
    mobs, mbits = model_obs(lines)
    pos = 0
    summary = {"histories": 0, "lines": 0, "ambiguous": 0, "stats": collections.Counter(), "failures": [],
               "digests": set(), "nontrivial": set(), "samples": [], "handles": 0, "hookcalls": 0}
    for name, r in runs:
        n = len(r["lines"])
        mo, mb = mobs[pos:pos + n], mbits[pos:pos + n]
        pos += n
        fails, amb = examine(prop, r, mo, mb)
        c, started = stats_of(r)
        summary["histories"] += 1
        summary["lines"] += n
        summary["ambiguous"] += int(amb)
        summary["stats"].update(c)
        summary["handles"] += c["op:run"]
        summary["hookcalls"] += sum(o.count("h[") for o in r["obs"])
        dg = hashlib.sha1("\n".join(r["lines"][1:]).encode()).hexdigest()[:16]
        summary["digests"].add(dg)
        if started > 0:
            summary["nontrivial"].add(dg)
        if len(summary["samples"]) < 1 and started > 0:
            summary["samples"].append({"source": name, "ops": r["lines"][:40]})
        for f in fails:
            f = dict(f, source=name, lines=r["lines"])
            summary["failures"].append(f)
    return summary


# ------------------------------------------------------------------------------------------------
def run_once(prop, body):
    r = gen.replay(body + ["mark winddown"])
    mobs, mbits = model_obs(r["lines"])
    fails, amb = examine(prop, r, mobs, mbits)
    return r, mobs, fails


def shrink_failure(prop, f):
    """smallest body on which the same kind of failure persists"""
    def still(body):
        try:
            _, _, fails = run_once(prop, body)
        except Exception:
            return False
        for g in fails:
            if g["kind"] == f["kind"] and (f["kind"] != "monitor" or g["monitor"] == f["monitor"]):
                return True
        return False
    try:
        return shrink.shrink(f["lines"], still, budget=250)
    except Exception:
        return gen.body_of(f["lines"])


def run(prop, tier, seed, jobs, proof, out):
    t0 = time.time()
    total = props.BUDGET[tier]
    bodies = corpus(prop)
    kf = known_findings(prop)
    chunks = max(jobs * 2, 1)
    per = max(1, total // chunks)
    jobl = []
    exb = exhaustive_bodies(tier)
    for k in range(chunks):
        jobl.append((prop, seed, k * per, per, (bodies if k == 0 else []) + exb[k::chunks]))
    agg = {"histories": 0, "lines": 0, "ambiguous": 0, "stats": collections.Counter(), "failures": [],
           "digests": set(), "nontrivial": set(), "samples": [], "handles": 0, "hookcalls": 0}
    with mp.Pool(min(jobs, chunks)) as pool:
        for s in pool.imap_unordered(work, jobl):
            for k in ("histories", "lines", "ambiguous", "handles", "hookcalls"):
                agg[k] += s[k]
            agg["stats"].update(s["stats"])
            agg["failures"].extend(s["failures"])
            agg["digests"] |= s["digests"]
            agg["nontrivial"] |= s["nontrivial"]
            if len(agg["samples"]) < 3:
                agg["samples"].extend(s["samples"])

    # ---- known findings: replay each witness on the real code
    known_monitors = {}
    for f in kf:
        for m in f["monitors"]:
            known_monitors[m] = f
        try:
            _, _, fails = run_once(prop, f["witness"])
        except Exception as e:
            fails = [{"kind": "monitor", "monitor": "witness-crashed", "detail": repr(e), "model_agrees": False}]
        hit = [g for g in fails if g["kind"] == "monitor" and g["monitor"] in f["monitors"]]
        if hit:
            out.known.append(f"KNOWN-FINDING: property={prop} {f['id']}: {f['what']}")

    # ---- classify what the sweep found
    diffs = [f for f in agg["failures"] if f["kind"] in ("diff", "invbit")]
    mons = [f for f in agg["failures"] if f["kind"] == "monitor"]
    new_mons = []
    attributed = collections.Counter()
    for f in mons:
        k = known_monitors.get(f["monitor"])
        if k is not None and f["model_agrees"] and k.get("trigger", "any") in f.get("triggers", []):
            attributed[k["id"]] += 1        # same clause, and the model (which mirrors the defect) reproduces the trace
        else:
            new_mons.append(f)
    reported = set()
    for f in sorted(new_mons, key=lambda f: len(f["lines"])):
        if f["monitor"] in reported:
            continue
        reported.add(f["monitor"])
        body = shrink_failure(prop, f)
        r, mobs, fails = run_once(prop, body)
        hit = [g for g in fails if g["kind"] == "monitor" and g["monitor"] == f["monitor"]]
        out.violation({"kind": "monitor", "monitor": {"name": f["monitor"], "detail": (hit[0] if hit else f)["detail"],
                                                      "step": (hit[0] if hit else f)["step"]},
                       "ops": body, "trace": list(zip(r["lines"], r["obs"]))[:200], "source": f["source"],
                       "broken_obligation": None, "known_finding": None})
    if not proof["ok"] or diffs:
        # a proof obligation or the correspondence no longer checks: is there a failing input?
        if not reported:
            what = []
            if not proof["ok"]:
                what.append({"proof": proof["problems"], "theorems": proof["theorems"]})
            payload = {"kind": "proof" if not proof["ok"] else diffs[0]["kind"], "broken_obligation": what or
                       f"lock-step correspondence of the {prop} projection (model tpdriver vs asyncio_taskpool.pool)",
                       "searched": {"histories": agg["histories"], "monitors_of": prop}, "known_finding": None}
            if diffs:
                d = sorted(diffs, key=lambda f: len(f["lines"]))[0]
                body = shrink_failure(prop, d)
                r, mobs, fails = run_once(prop, body)
                dd = [g for g in fails if g["kind"] == d["kind"]]
                payload.update({"ops": body, "first_divergence": (dd[0] if dd else {k: d[k] for k in d if k != "lines"}),
                                "source": d["source"], "trace": list(zip(r["lines"], r["obs"]))[:200],
                                "diverging_histories": len(diffs)})
            out.violation(payload, nofail=True)

    cov = proof_coverage(proof)
    cov.update({
        "evaluations": agg["histories"],
        "distinct_nontrivial": len(agg["nontrivial"]),
        "rule": "histories generated from VERIF_SEED by the property's profile (plus corpus), executed on the real pool "
                "one event-loop handle at a time and on the Lean model; distinct = distinct op-line sequences; "
                "non-trivial = at least one pool task's worker started",
        "samples": agg["samples"][:3],
        "traces_validated_against_impl": agg["histories"] - len(set(id(f) for f in diffs)),
        "observation_lines_compared": agg["lines"],
        "handles_run": agg["handles"],
        "calls_from_user_code": agg["hookcalls"],
        "ambiguous_histories": agg["ambiguous"],
        "diverging_histories": len(diffs),
        "monitor_findings": {"new": len(new_mons), "attributed_to_known_findings": dict(attributed)},
        "op_histogram": {k: v for k, v in sorted(agg["stats"].items()) if k.startswith("op:")},
        "error_kinds": {k: v for k, v in sorted(agg["stats"].items()) if k.startswith("err:")},
        "multi_await_workers": {k[3:]: v for k, v in sorted(agg["stats"].items()) if k.startswith("ma:")},
        "sealed_prefixes": {k[7:]: v for k, v in sorted(agg["stats"].items()) if k.startswith("sealed:")},
        "corpus_histories": len(bodies),
        "projection": {"fields": props.PROJ[prop][0], "events": list(props.PROJ[prop][1])},
        "exhaustive": False,
        "exhaustive_subspace": {"histories": len(exb), "max_len": EX_LEN[tier], "alphabet": EX_ALPHABET,
                                "pools": "TaskPool of size 1 (all lengths) and of size 2 (one op shorter)",
                                "note": "every op sequence up to max_len over the alphabet, each followed by the wind-down"},
    })
    ev = {"property_id": prop, "tier": tier, "seed": seed, "level": "proof", "coverage": cov,
          "assumptions": [
              "theorems are about the hand-written Lean model lean/Taskpool/Model; the tie to /repo is this run's "
              "lock-step correspondence (bounded: sizes 0-4/unbounded, <= 3 pools, <= 6 items, FIFO handle order)",
              "workers/callbacks/iterators are harness scripts: a worker returns / raises at once or awaits 1-3 harness "
              "futures in a row (a cancellation may arrive at any of them; it lets it through, or catches it and "
              "returns, or catches the first one and goes on); callbacks plain, "
              "coroutine (gated) or raising; user-code pool calls limited to the hook alphabet (no set_size)",
              "CPython 3.12.1 asyncio semantics as modelled (Task, Semaphore, Event, gather)"]}
    return ev


def replay(prop, path, out, args):
    with open(path) as fh:
        d = json.load(fh)
    body = d.get("ops") or d.get("body") or d.get("witness")
    if not body:
        print("replay file has no ops (proof/audit failure): rebuild with `cd lean && lake build`")
        return 1
    r, mobs, fails = run_once(prop, body)
    for ln, a, b in zip(r["lines"], r["obs"], mobs):
        print(ln)
        print("   impl :", a)
        if a != b:
            print("   model:", b)
    for f in fails:
        print({k: v for k, v in f.items() if k != "lines"})
    kf = {m: f for f in known_findings(prop) for m in f["monitors"]}
    bad = [f for f in fails if not (f["kind"] == "monitor" and f["monitor"] in kf and f["model_agrees"]
                                    and kf[f["monitor"]].get("trigger", "any") in f.get("triggers", []))]
    if bad:
        print(f"VIOLATION property={prop} replay={path}")
        return 1
    return 0
