"""Property monitors: direct Python statements of C01–C15 over a trace (DESIGN §3.6, §5).
They are the oracle of the *search* for a failing input; they never stand in for a theorem.
Every monitor is sound for the property as stated: it only reports what contradicts the statement.
A finding is (monitor name, step index, detail)."""
from .story import Story

POOL_CMP = ["nm", "n", "c", "e", "f", "l", "s", "z", "g", "api"]


def pool_same(a, b):
    return all(a[k] == b[k] for k in POOL_CMP)


def first_ok_set_size(ps):
    for j, v, ok in ps.set_size_steps:
        if ok:
            return j
    return None


def later_set_size(ps):
    """first successful assignment to pool_size that is not the one made before the first request"""
    for j, v, ok in ps.set_size_steps:
        if ok and not (ps.early is not None and ps.early[0] == j):
            return j
    return None


def size_at(ps, j):
    """the size the pool was given, as of step j (an assignment before the first request counts as given)"""
    if ps.early is not None and j >= ps.early[0]:
        return ps.early[1]
    return ps.size


def obs_steps(st):
    for j, o in enumerate(st.obs):
        if o is not None:
            yield j, o


def quiet_step(st):
    """index of the last observation before the `quiet` mark (all gates released, loop idle), or None"""
    m = st.mark("quiet")
    if m is None:
        return None
    j = m - 1
    while j >= 0 and st.obs[j] is None:
        j -= 1
    return j if j >= 0 else None


def finished_before(t, j):
    return any(x is not None and x <= j for x in (t.R, t.E, t.X))


# --------------------------------------------------------------------------------------------- C01
def mon_C01(st):
    out = []
    for pi, ps in enumerate(st.pools):
        stop = later_set_size(ps)
        lc = st.live_counts(pi)
        for j, o in obs_steps(st):
            if pi >= len(o["pools"]) or (stop is not None and j >= stop):
                continue
            po = o["pools"][pi]
            if size_at(ps, j) is None:
                if po["f"]:
                    out.append(("unbounded-pool-full", j, f"pool {pi} is_full on an unbounded pool"))
                continue
            N = size_at(ps, j)
            if po["n"] > N:
                out.append(("num_running>size", j, f"pool {pi}: num_running={po['n']} size={N}"))
            if lc[j][1] > N:
                out.append(("live>size", j, f"pool {pi}: {lc[j][1]} workers running, size={N}"))
            ex = st.extras[j]
            if ex and pi < len(ex) and ex[pi]["maxlive"] > N:
                out.append(("live>size", j, f"pool {pi}: {ex[pi]['maxlive']} workers running (harness count), size={N}"))
            if o["q"] == 0 and not st.in_callback(pi, j):
                if bool(po["f"]) != (po["n"] == N):
                    out.append(("is_full-at-idle", j, f"pool {pi}: is_full={po['f']} num_running={po['n']} size={N}"))
    return out


# --------------------------------------------------------------------------------------------- C02
def mon_C02(st):
    out = []
    qj = quiet_step(st)
    for pi, ps in enumerate(st.pools):
        stop = later_set_size(ps)
        for j, o in obs_steps(st):
            if pi >= len(o["pools"]) or size_at(ps, j) is None or (stop is not None and j >= stop):
                continue
            po = o["pools"][pi]
            N = size_at(ps, j)
            if po["n"] + po["c"] > N:
                out.append(("in-flight>size", j, f"pool {pi}: running+cancelled={po['n'] + po['c']} size={N}"))
            if o["q"] == 0 and bool(po["f"]) != (po["n"] + po["c"] == N):
                out.append(("slots-vs-in-flight-at-idle", j,
                            f"pool {pi}: is_full={po['f']} but {po['n'] + po['c']} tasks in flight, size={N}"))
        if qj is not None and pi < len(st.obs[qj]["pools"]):
            po = st.obs[qj]["pools"][pi]
            if po["n"] != 0 or po["c"] != 0:
                out.append(("task-never-accounted", qj,
                            f"pool {pi}: all work released and loop idle, yet running={po['n']} cancelled={po['c']}"))
    # capacity probe
    pm = st.mark("probe")
    if pm is not None:
        for j in range(pm, len(st.toks)):
            toks = st.toks[j]
            o = st.obs[j]
            if o is None or len(toks) < 3 or toks[0] != "on" or toks[2] not in ("apply", "start"):
                continue
            pi = int(toks[1])
            if pi >= len(st.pools) or not o["r"].startswith("name:"):
                continue
            ps = st.pools[pi]
            if size_at(ps, j) in (None, 0) or later_set_size(ps) is not None:
                continue
            if ps.kind == "simple" and (ps.has_hooks or ps.spec["bad"]):
                continue
            for k in range(j + 1, len(st.toks)):
                tk = st.toks[k]
                if len(tk) >= 3 and tk[0] == "on" and int(tk[1]) == pi and tk[2] == "get_ids" and st.obs[k] is not None:
                    r = st.obs[k]["r"]
                    got = len([x for x in r[4:].split("/") if x]) if r.startswith("set:") else -1
                    if got != size_at(ps, j):
                        out.append(("capacity-lost", k, f"pool {pi}: a size-{size_at(ps, j)} pool at rest started {got} of "
                                                       f"{size_at(ps, j)} requested tasks"))
                    break
    return out


# --------------------------------------------------------------------------------------------- C03
def mon_C03(st):
    out = []
    qj = quiet_step(st)
    for pi, ps in enumerate(st.pools):
        for t in ps.tasks.values():
            if len(t.ec) > 1:
                out.append(("end-callback-twice", t.ec[1][0], f"pool {pi} task {t.tid}"))
            if len(t.cc) > 1:
                out.append(("cancel-callback-twice", t.cc[1][0], f"pool {pi} task {t.tid}"))
            if t.cc and t.ec and t.seq["cc"] > t.seq["ec"]:
                out.append(("cancel-callback-after-end-callback", t.cc[0][0], f"pool {pi} task {t.tid}"))
            for (j, r, c, e, reg) in t.cc:
                if reg != "C" or c < 1:
                    out.append(("not-counted-cancelled-in-cancel-callback", j,
                                f"pool {pi} task {t.tid}: cancel(id) says {reg}, num_cancelled={c}"))
            for (j, r, c, e, reg) in t.ec:
                if reg != "E" or e < 1:
                    out.append(("not-counted-ended-in-end-callback", j,
                                f"pool {pi} task {t.tid}: cancel(id) says {reg}, num_ended={e}"))
                if t.S is not None and not finished_before(t, j):
                    out.append(("end-callback-before-coroutine-finished", j, f"pool {pi} task {t.tid}"))
            if t.cc and (t.R is not None or t.E is not None):
                out.append(("cancel-callback-without-cancellation", t.cc[0][0], f"pool {pi} task {t.tid}"))
            if t.badtag:
                out.append(("callback-id-differs-from-task-name", t.first_seen, f"pool {pi} task {t.tid}"))
            for (j, kind) in t.cdone + t.edone:
                if kind == "k" and not ps.has_hooks:
                    # a task inside a callback counts as cancelled / ended: nothing the pool offers may cancel it again
                    out.append(("callback-cancelled-midway", j, f"pool {pi} task {t.tid}"))
            if qj is not None and t.req is not None and t.req.spec is not None and t.first_seen <= qj:
                sp = t.req.spec
                if sp["ecb"] != "n" and len(t.ec) != 1:
                    out.append(("end-callback-count", qj, f"pool {pi} task {t.tid}: {len(t.ec)} end callbacks at rest"))
                if sp["ccb"] != "n" and t.X is not None and t.R is None and t.E is None and len(t.cc) != 1:
                    out.append(("cancel-callback-count", qj,
                                f"pool {pi} task {t.tid}: coroutine ended by cancellation, {len(t.cc)} cancel callbacks"))
                if sp["ccb"] != "n" and t.S is None and t.first_seen < qj and len(t.cc) != 1:
                    # the loop is idle and the worker never began: the task was cancelled before its first step
                    out.append(("cancel-callback-count", qj,
                                f"pool {pi} task {t.tid}: cancelled before its first step, {len(t.cc)} cancel callbacks"))
                if len(t.cc) > len(t.cdone) or len(t.ec) > len(t.edone):
                    out.append(("callback-not-run-to-completion", qj, f"pool {pi} task {t.tid}"))
        # counter sum
        noforget = not ps.flush_steps and not ps.gac_steps
        seen = -1
        for j, o in obs_steps(st):
            if pi >= len(o["pools"]):
                continue
            po = o["pools"][pi]
            for t in ps.tasks.values():
                if t.first_seen == j:
                    seen = max(seen, t.tid)
            tot = po["n"] + po["c"] + po["e"]
            if noforget and not ps.has_hooks and tot != seen + 1:
                out.append(("counter-sum", j, f"pool {pi}: running+cancelled+ended={tot}, tasks created={seen + 1}"))
    return out


# --------------------------------------------------------------------------------------------- C04
def expected_apply(r):
    return 0 if r.spec["bad"] else max(r.num, 0)


def settled(ps, r, st):
    """the request was never cancelled and ran under a positive size (assignments to `pool_size` only to positive
    values: an assignment of 0 may legitimately block the request for ever)"""
    return (r.cancelled_at is None and ps.size != 0 and r.spec["coro"]
            and all(v > 0 for (_, v, ok) in ps.set_size_steps if ok))


def cancel_targets(st):
    """(ids named by successful cancel() calls per pool, pools on which any other cancelling op was used)"""
    named, other = {}, set()
    for j, toks in enumerate(st.toks):
        o = st.obs[j]
        if o is None or len(toks) < 3 or toks[0] != "on":
            continue
        pi = int(toks[1])
        if toks[2] in ("stop", "stop_all", "cancel_group", "cancel_all"):
            other.add(pi)
        elif toks[2] == "cancel" and o["r"] == "ok":
            named.setdefault(pi, set()).update(int(x) for x in toks[3:] if not x.startswith("@"))
    return named, other


def mon_C04(st):
    out = []
    qj = quiet_step(st)
    named, other = cancel_targets(st)
    for pi, ps in enumerate(st.pools):
        for r in ps.reqs:
            if r.kind not in ("apply", "start") or r.num is None:
                continue
            exp = expected_apply(r)
            if len(r.tids) > exp:
                out.append(("too-many-invocations", r.step, f"pool {pi} group {r.name}: {len(r.tids)} tasks for num={r.num}"))
            for tid in r.tids:
                t = ps.tasks[tid]
                if t.S is not None and t.arg != "a":
                    out.append(("wrong-arguments", t.S, f"pool {pi} task {tid} of {r.name} called with {t.arg}"))
            if qj is not None and r.step <= qj and settled(ps, r, st) and not ps.has_hooks:
                if len(r.tids) != exp:
                    out.append(("invocations-lost", qj, f"pool {pi} group {r.name}: {len(r.tids)} of {exp} invocations at rest"))
                if pi not in other:
                    # an invocation is the worker coroutine being entered: only a cancel() naming the task may prevent it
                    never = [tid for tid in r.tids if ps.tasks[tid].S is None and tid not in named.get(pi, set())]
                    if never:
                        out.append(("invocation-never-ran", qj,
                                    f"pool {pi} group {r.name}: tasks {never} were created but func was never entered, "
                                    f"though neither they nor the group were cancelled"))
    return out


# --------------------------------------------------------------------------------------------- C05
def mon_C05(st):
    out = []
    qj = quiet_step(st)
    for pi, ps in enumerate(st.pools):
        for r in ps.reqs:
            if r.kind != "map":
                continue
            n = len(r.items)
            ks = [k for (_, k) in r.pulls]
            if ks != list(range(len(ks))) or len(ks) > n:
                out.append(("pull-order", r.step, f"pool {pi} {r.name}: pulled {ks} of {n} elements"))
            pre = {0: "", 1: "*", 2: "**"}[r.stars]
            last = -1
            for tid in sorted(r.tids):
                t = ps.tasks[tid]
                if t.S is None:
                    continue
                a = t.arg
                ok = a.startswith(pre) and a[len(pre):].isdigit()
                idx = int(a[len(pre):]) if ok else None
                if not ok or idx >= n or r.items[idx] not in "03":
                    out.append(("wrong-element", t.S, f"pool {pi} {r.name}: task {tid} called with {a}"))
                    continue
                if idx <= last:
                    out.append(("element-order", t.S, f"pool {pi} {r.name}: task {tid} got element {idx} after {last}"))
                last = idx
            # per step: laziness, concurrency, work conservation
            live = set()
            hookfree = not ps.has_hooks
            for j, o in obs_steps(st):
                if pi >= len(o["pools"]) or j < r.step:
                    continue
                if r.cancelled_at is not None and j >= r.cancelled_at:
                    break
                po = o["pools"][pi]
                mine = set(r.tids)
                for e in po["ev"]:
                    if e[0] == "S" and e[1:].split("(")[0].isdigit():
                        tid = int(e[1:].split("(")[0])
                        if tid in mine:
                            live.add(tid)
                            if len(live) > r.nc:
                                out.append(("live>num_concurrent", j, f"pool {pi} {r.name}: {len(live)} > {r.nc}"))
                    elif e[0] in "XRE" and e[1:].isdigit():
                        live.discard(int(e[1:]))
                pulled = sum(1 for (pj, _) in r.pulls if pj <= j)
                skipped = sum(1 for (pj, k) in r.pulls if pj <= j and k < n and r.items[k] == "1")
                created = sum(1 for tid in r.tids if ps.tasks[tid].first_seen <= j)
                if hookfree and pulled > created + skipped + 1:
                    out.append(("pulled-too-far", j, f"pool {pi} {r.name}: pulled={pulled} created={created} skipped={skipped}"))
                if (hookfree and o["q"] == 0 and not st.in_callback(pi, j) and not po["z"] and not po["f"]
                        and first_ok_set_size(ps) is None and r.spec["coro"] and created + skipped < n):
                    # at idle every created task has taken its first step: one without a start event was cancelled
                    # before it began and is over
                    held = sum(1 for tid in r.tids if ps.tasks[tid].S is not None and ps.tasks[tid].S <= j
                               and not finished_before(ps.tasks[tid], j))
                    if held != r.nc:
                        out.append(("not-work-conserving", j,
                                    f"pool {pi} {r.name}: {held} tasks running, num_concurrent={r.nc}, {n - created - skipped} elements left"))
            if qj is not None and r.step <= qj and settled(ps, r, st) and not ps.has_hooks:
                skipped = sum(1 for c in r.items if c == "1")
                if "2" in r.items:          # the iterator raises there: the consumer ends, nothing after it is owed
                    continue
                if len(ks) != n or len(r.tids) + skipped != n:
                    out.append(("elements-lost", qj, f"pool {pi} {r.name}: pulled {len(ks)}, {len(r.tids)} tasks + {skipped} skipped of {n}"))
    return out


# --------------------------------------------------------------------------------------------- C06
def unchanged(st, j, pi=None):
    """observation j equals the previous one (nothing happened)"""
    o, p = st.obs[j], st.prev_obs(j)
    if o is None or p is None or len(o["pools"]) != len(p["pools"]):
        return True
    if o["q"] != p["q"]:
        return False
    for a, b in zip(o["pools"], p["pools"]):
        if not pool_same(a, b) or a["ev"]:
            return False
    return True


def mon_C06(st):
    out = []
    qj = quiet_step(st)
    for pi, ps in enumerate(st.pools):
        for t in ps.tasks.values():
            if t.nX > 1:
                out.append(("several-CancelledErrors", t.X, f"pool {pi} task {t.tid} observed {t.nX}"))
    # `cancel(id)` from inside the task's own callbacks: the task is already cancelled resp. ended, the call must be
    # rejected with the matching error (the harness makes that call at the start of every callback)
    for pi, ps in enumerate(st.pools):
        for t in ps.tasks.values():
            for (j, r, c, e, reg) in t.cc:
                if reg != "C":
                    out.append(("cancel-of-already-cancelled-task-succeeded", j,
                                f"pool {pi} task {t.tid}: cancel(id) inside its cancel callback was answered {reg}"))
            for (j, r, c, e, reg) in t.ec:
                if reg != "E":
                    out.append(("cancel-of-ended-task-not-rejected", j,
                                f"pool {pi} task {t.tid}: cancel(id) inside its end callback was answered {reg}"))
    named = {}
    other_cancel = set()
    last_other = {}
    for j, toks in enumerate(st.toks):
        o = st.obs[j]
        if o is None or len(toks) < 3 or toks[0] != "on":
            continue
        pi = int(toks[1])
        if pi >= len(st.pools):
            continue
        ps = st.pools[pi]
        if toks[2] in ("stop", "stop_all", "cancel_group", "cancel_all"):
            other_cancel.add(pi)
            last_other[pi] = j
        if toks[2] != "cancel":
            continue
        ids = [int(x) for x in toks[3:] if not x.startswith("@")]
        res = o["r"]
        prev = st.prev_obs(j)
        if res.startswith("err:"):
            if not unchanged(st, j):
                out.append(("failed-cancel-changed-state", j, f"pool {pi}: cancel {ids} -> {res}"))
            kind = res[4:]
            pp = prev["pools"][pi] if prev and pi < len(prev["pools"]) else None
            if pp is not None:
                if kind == "AlreadyCancelled" and pp["c"] < 1:
                    out.append(("misclassified", j, f"pool {pi}: {res} with no cancelled task"))
                if kind == "AlreadyEnded" and pp["e"] < 1:
                    out.append(("misclassified", j, f"pool {pi}: {res} with no ended task"))
                if kind not in ("AlreadyCancelled", "AlreadyEnded", "TaskNotFound", "InvalidTaskID"):
                    out.append(("misclassified", j, f"pool {pi}: {res}"))
        elif res == "ok":
            named.setdefault(pi, set()).update(ids)
            for i in ids:
                if i < 0 or i > ps.max_seen and not ps.has_hooks:
                    out.append(("cancel-of-unknown-id-succeeded", j, f"pool {pi}: id {i}"))
                t = ps.tasks.get(i)
                if (t is not None and qj is not None and j <= qj and t.req is not None and t.req.spec["mode"] == "g"
                        and t.S is not None and t.S < j and not finished_before(t, j)
                        and not any(x[0] <= j for x in t.cc) and not any(x[0] <= j for x in t.ec) and t.X is None
                        and not any(y > j for y in t.Y)):
                    # (a worker that catches its first CancelledError and goes on — event Y — has observed it all the same)
                    out.append(("cancellation-not-delivered", j, f"pool {pi} task {i} never observed CancelledError"))
                # a task that has already observed its cancellation is filed as cancelled: naming it again must fail
                if t is not None and ((t.X is not None and t.X < j) or any(x[0] < j for x in t.cc)) and not finished_before(t, j - 1):
                    out.append(("cancel-of-already-cancelled-task-succeeded", j,
                                f"pool {pi} task {i} had observed CancelledError before step {j}"))
                # cancelled before its first step: the worker must never begin
                if t is not None and t.S is not None and t.S > j and t.first_seen <= j:
                    out.append(("cancelled-before-its-start-yet-started", t.S,
                                f"pool {pi} task {i}: cancel() succeeded at step {j}, the worker began at step {t.S}"))
    for pi, ps in enumerate(st.pools):
        if ps.has_hooks:
            continue
        if pi in other_cancel:
            # a stop / group cancellation can only have hit tasks that existed when it was made
            for t in ps.tasks.values():
                if (qj is not None and t.S is None and last_other[pi] < t.first_seen < qj
                        and t.tid not in named.get(pi, set())):
                    out.append(("cancelled-a-task-not-named", qj,
                                f"pool {pi} task {t.tid} (its worker never began, created after the last stop / group cancel)"))
            continue
        for t in ps.tasks.values():
            if t.X is not None and t.tid not in named.get(pi, set()):
                out.append(("cancelled-a-task-not-named", t.X, f"pool {pi} task {t.tid}"))
            elif t.Y and t.tid not in named.get(pi, set()):
                out.append(("cancelled-a-task-not-named", t.Y[0], f"pool {pi} task {t.tid} (caught the CancelledError and went on)"))
            elif t.cc and t.tid not in named.get(pi, set()):
                # the cancel callback only runs for a task that was cancelled (also one cancelled before its first step)
                out.append(("cancelled-a-task-not-named", t.cc[0][0], f"pool {pi} task {t.tid} (cancel callback ran)"))
            elif qj is not None and t.S is None and t.first_seen < qj and t.tid not in named.get(pi, set()):
                # the loop is idle, so every task has had its first step: one whose worker never began was cancelled
                # before its start - by nobody in this pool
                out.append(("cancelled-a-task-not-named", qj, f"pool {pi} task {t.tid} (its worker never began)"))
    return out


# --------------------------------------------------------------------------------------------- C07
def mon_C07(st):
    out = []
    qj = quiet_step(st)
    for j, toks in enumerate(st.toks):
        o = st.obs[j]
        if o is None or len(toks) < 3 or toks[0] != "on" or toks[2] not in ("cancel_group", "cancel_all"):
            continue
        pi = int(toks[1])
        if pi >= len(st.pools):
            continue
        ps = st.pools[pi]
        res = o["r"]
        if res.startswith("err:"):
            if not unchanged(st, j):
                out.append(("failed-group-cancel-changed-state", j, f"pool {pi}: {' '.join(toks[2:])} -> {res}"))
            continue
        if res != "ok":
            continue
        victims = [r for r in ps.reqs if r.cancelled_at == j]
        for r in victims:
            later = [rr for rr in ps.reqs if rr.name == r.name and rr.step > j]
            nxt = min((rr.step for rr in later), default=len(st.toks))
            for k in range(j, nxt):
                ok = st.obs[k]
                if ok is None or pi >= len(ok["pools"]):
                    continue
                if ok["pools"][pi]["g"].get(r.name, None) is not None:
                    out.append(("cancelled-group-still-known", k, f"pool {pi} group {r.name}"))
                    break
            if any(pj > j for (pj, _) in r.pulls):
                out.append(("iterable-advanced-after-cancel", j, f"pool {pi} group {r.name}"))
            for tid in r.tids:
                t = ps.tasks[tid]
                if t.S is not None and t.S > j:
                    out.append(("task-of-cancelled-group-started", t.S, f"pool {pi} group {r.name} task {tid}"))
                if (qj is not None and j <= qj and r.spec["mode"] == "g" and t.S is not None and t.S < j
                        and not finished_before(t, j) and not any(x[0] <= j for x in t.cc)
                        and not any(x[0] <= j for x in t.ec) and t.X is None):
                    out.append(("unfinished-task-not-cancelled", j, f"pool {pi} group {r.name} task {tid}"))
    # once all work is released and the loop is idle, no task of a pool whose groups were cancelled is still running
    if qj is not None and not trigger_holds("unlock_while_closing", st):
        for pi, ps in enumerate(st.pools):
            if pi >= len(st.obs[qj]["pools"]) or not any(r.cancelled_at is not None and r.cancelled_at <= qj for r in ps.reqs):
                continue
            po = st.obs[qj]["pools"][pi]
            if po["n"] != 0:
                out.append(("task-still-running-after-group-cancel", qj,
                            f"pool {pi}: all work released and loop idle, yet running={po['n']}"))
    # a worker that cancels its own group (or everything) at its start and then awaits must itself be cancelled
    if qj is not None:
        for pi, ps in enumerate(st.pools):
            for t in ps.tasks.values():
                r = t.req
                if r is None or r.spec is None or r.spec["hooks"] == "-" or r.spec["mode"] != "g":
                    continue
                start_ops = []
                for part in r.spec["hooks"].split("|"):
                    pt, ops = part.split(":")
                    if pt == "s":
                        start_ops = [o for o in ops.split(";") if o]
                if any(o[0] in "oa" for o in start_ops) and t.S is not None and t.S <= qj and t.X is None:
                    out.append(("self-cancelling-worker-not-cancelled", t.S,
                                f"pool {pi} task {t.tid} cancelled its own group in its body and kept running"))
    # … and so must a worker that does it *between two awaits* (hook point `n`: right after the event `N`, before it
    # awaits again).  A worker that lets a CancelledError through (or returns on it) and has reached an `N` has not been
    # cancelled before, so its group is still known and the call reaches it; the logged result of the call is checked too
    if qj is not None:
        for pi, ps in enumerate(st.pools):
            for t in ps.tasks.values():
                r = t.req
                if (r is None or r.spec is None or r.spec["hooks"] == "-" or r.spec["mode"] != "g" or r.spec["resume"]
                        or t.X is not None):
                    continue
                next_ops = []
                for part in r.spec["hooks"].split("|"):
                    pt, ops = part.split(":")
                    if pt == "n":
                        next_ops = [o for o in ops.split(";") if o]
                if not any(o[0] in "oa" for o in next_ops):
                    continue
                for jn in t.N:
                    if jn > qj or st.obs[jn] is None or pi >= len(st.obs[jn]["pools"]):
                        continue
                    evs = st.obs[jn]["pools"][pi]["ev"]
                    if f"N{t.tid}" not in evs:
                        continue
                    i = evs.index(f"N{t.tid}")
                    results = evs[i + 1:i + 1 + len(next_ops)]
                    if any(o[0] in "oa" and h == "h[ok]" for o, h in zip(next_ops, results)):
                        out.append(("self-cancelling-worker-not-cancelled", jn,
                                    f"pool {pi} task {t.tid} cancelled its own group between two awaits and kept running"))
                        break
    return out


# --------------------------------------------------------------------------------------------- C08
def api_completion(st, pi, a):
    for j, o in obs_steps(st):
        if pi < len(o["pools"]):
            apis = o["pools"][pi]["api"]
            if a < len(apis) and not apis[a].endswith(":pending"):
                return j, apis[a].split(":", 1)[1]
    return None, None


def raising_anywhere(st, ps):
    if any(r.kind == "map" and "2" in (r.items or "") for r in ps.reqs):     # an argument iterator that raises
        return True
    specs = [r.spec for r in ps.reqs if r.spec] + ([ps.spec] if ps.spec else [])
    if any(s["mode"] == "x" or s["ecb"] == "x" or s["ccb"] == "x" for s in specs):
        return True
    return any(len(t) >= 5 and t[0] == "on" and t[2] == "gate" and t[4] == "exc" for t in st.toks)


def mon_C08(st):
    out = []
    qj = quiet_step(st)
    for pi, ps in enumerate(st.pools):
        lc = st.live_counts(pi)
        closed_at = None
        for a, (kind, re_, j0) in enumerate(ps.apis):
            if kind != "gac":
                continue
            jc, outcome = api_completion(st, pi, a)
            if jc is None:
                if qj is not None and j0 <= qj and ps.size != 0 and first_ok_set_size(ps) is None:
                    out.append(("gather_and_close-never-returned", qj, f"pool {pi}"))
                continue
            po = st.obs[jc]["pools"][pi]
            if outcome == "ok":
                closed_at = jc if closed_at is None else min(closed_at, jc)
                early = [t.tid for t in ps.tasks.values() if t.S is not None and t.S <= jc and not finished_before(t, jc)
                         and (t.req is None or t.req.step < j0)]
                if early:
                    out.append(("returned-while-tasks-run", jc, f"pool {pi}: workers of tasks {early} still running"))
                incb = [tid for tid in st.in_callback(pi, jc)
                        if ps.tasks[tid].req is None or ps.tasks[tid].req.step < j0]
                if incb:
                    out.append(("returned-while-callbacks-run", jc, f"pool {pi}: tasks {incb} are still inside a callback"))
                if po["n"] or po["c"] or po["e"]:
                    out.append(("closed-pool-holds-tasks", jc, f"pool {pi}: {po['n']}/{po['c']}/{po['e']}"))
                if not po["z"]:
                    out.append(("returned-but-not-closed", jc, f"pool {pi}"))
                for r in ps.reqs:
                    if r.step > j0 or (r.cancelled_at is not None and r.cancelled_at <= jc) or not r.spec["coro"]:
                        continue
                    if ps.has_hooks:
                        continue
                    if r.kind == "map":
                        done = sum(1 for (pj, _) in r.pulls if pj <= jc)
                        total = r.items.index("2") + 1 if "2" in r.items else len(r.items)
                        if done != total:
                            out.append(("returned-before-iterable-consumed", jc,
                                        f"pool {pi} {r.name}: {done} of {len(r.items)} elements"))
                    elif r.num is not None:
                        made = sum(1 for tid in r.tids if ps.tasks[tid].first_seen <= jc)
                        if made != expected_apply(r):
                            out.append(("returned-before-all-invocations", jc,
                                        f"pool {pi} {r.name}: {made} of {expected_apply(r)}"))
            elif not raising_anywhere(st, ps) and not ps.has_hooks:
                out.append(("raised-though-nothing-failed", jc, f"pool {pi}: gather_and_close -> {outcome}"))
        # closed flag and until_closed
        for j, o in obs_steps(st):
            if pi >= len(o["pools"]):
                continue
            po = o["pools"][pi]
            if po["z"] and (closed_at is None or j < closed_at):
                out.append(("closed-before-gather_and_close-returned", j, f"pool {pi}"))
                break
        for a, (kind, re_, j0) in enumerate(ps.apis):
            if kind != "until_closed":
                continue
            jc, outcome = api_completion(st, pi, a)
            if jc is not None and (closed_at is None or jc < closed_at):
                out.append(("until_closed-released-early", jc, f"pool {pi}"))
            if jc is None and closed_at is not None and qj is not None and closed_at <= qj:
                out.append(("until_closed-never-released", qj, f"pool {pi}"))
        if closed_at is not None:
            for j in range(closed_at + 1, len(st.toks)):
                toks = st.toks[j]
                o = st.obs[j]
                if o is None or len(toks) < 3 or toks[0] != "on" or int(toks[1]) != pi:
                    continue
                if toks[2] in ("apply", "map", "start") and o["r"] not in ("err:PoolIsClosed", "err:NotCoroutineFunction", "noop"):
                    out.append(("spawn-accepted-after-close", j, f"pool {pi}: {o['r']}"))
    return out


# --------------------------------------------------------------------------------------------- C09
GEN_PREFIX = {"apply": "apply", "0": "map", "1": "starmap", "2": "doublestarmap"}


def mon_C09(st):
    out = []
    # the step at which a gather_and_close() of the pool returned normally: from then on the pool is closed
    gac_done = {}
    for pi, ps in enumerate(st.pools):
        for a, (kind, re_, j0) in enumerate(ps.apis):
            if kind == "gac":
                jc, outcome = api_completion(st, pi, a)
                if jc is not None and outcome == "ok":
                    gac_done[pi] = min(gac_done.get(pi, jc), jc)
    # only a gather_and_close() that returned normally closes the pool
    for j, o in obs_steps(st):
        for pi, po in enumerate(o["pools"]):
            if po["z"] and not (pi in gac_done and gac_done[pi] <= j):
                out.append(("closed-though-no-gather-and-close-returned", j, f"pool {pi}"))
                break
    # a rejected map-style request does not touch its iterable — not even `iter()` on it; an accepted one starts
    # iterating in its spawner, not in the caller (harness count of `__iter__` calls on a re-iterable argument)
    seen_iter = {}
    for j, toks in enumerate(st.toks):
        o, ex = st.obs[j], st.extras[j]
        if o is None or not ex:
            continue
        for pi, e in enumerate(ex):
            for (call_no, in_call) in (e or {}).get("iters", ()):
                if in_call and o["r"].startswith("err:"):
                    out.append(("rejected-request-touched-the-iterable", j, f"pool {pi}: __iter__ called during a request answered {o['r']}"))
                seen_iter[(pi, call_no)] = seen_iter.get((pi, call_no), 0) + 1
                if seen_iter[(pi, call_no)] == 2:
                    out.append(("iterable-started-twice", j, f"pool {pi}: __iter__ called a second time on the iterable of one request"))
    # an explicit group name that is still in use is refused, whatever the name (hook-free pools)
    for pi, ps in enumerate(st.pools):
        if ps.has_hooks:
            continue
        live = {}
        for j, toks in enumerate(st.toks):
            o = st.obs[j]
            if o is None or not toks or toks[0] != "on" or len(toks) < 3 or int(toks[1]) != pi:
                continue
            k = toks[2]
            if k in ("apply", "map") and o["r"].startswith("name:"):
                g = toks[4] if k == "apply" else toks[6]
                if g != "-":
                    if g in live:
                        out.append(("duplicate-group-name-accepted", j,
                                    f"pool {pi}: {g!r} was given to the request at step {live[g]} and not cancelled since"))
                    live[g] = j
            elif k == "cancel_group" and o["r"] == "ok":
                live.pop(toks[3], None)
            elif k == "cancel_all" and o["r"] == "ok":
                live.clear()
    # lock() holds until unlock(): nothing else (a flush, a task ending, ...) may re-open the pool
    user_locked = {}
    for j, toks in enumerate(st.toks):
        o = st.obs[j]
        if o is None or not toks:
            continue
        for pi, po in enumerate(o["pools"]):
            if user_locked.get(pi) and pi < len(st.pools) and not st.pools[pi].has_hooks and not po["l"] \
                    and not (toks[0] == "on" and len(toks) > 2 and int(toks[1]) == pi and toks[2] == "unlock"):
                out.append(("unlocked-without-unlock", j, f"pool {pi}: is_locked=0 though lock() was called and unlock() was not"))
                user_locked[pi] = False
        if toks[0] == "on" and len(toks) > 2 and toks[2] in ("lock", "unlock") and o["r"] == "ok":
            user_locked[int(toks[1])] = toks[2] == "lock"
    for j, toks in enumerate(st.toks):
        o = st.obs[j]
        if o is None or not toks:
            continue
        prev = st.prev_obs(j)
        if toks[0] == "mkpool":
            neg = toks[2] != "inf" and int(toks[2]) < 0
            notcoro = toks[1] == "simple" and toks[9] != "1"
            exp = "err:NotCoroutineFunction" if notcoro else ("err:ValueError" if neg else None)
            if exp is not None and o["r"] != exp:
                out.append(("constructor-accepted-bad-argument", j, f"{' '.join(toks[:4])} -> {o['r']}"))
            if exp is not None and prev is not None and len(o["pools"]) != len(prev["pools"]):
                out.append(("rejected-constructor-left-a-pool", j, ""))
            continue
        if toks[0] != "on" or len(toks) < 3 or prev is None:
            continue
        pi = int(toks[1])
        if pi >= len(prev["pools"]) or pi >= len(st.pools):
            continue
        pp = prev["pools"][pi]
        ps = st.pools[pi]
        k = toks[2]
        exp = None
        if k in ("apply", "map", "start") and o["r"] != "noop":
            if k == "apply":
                coro, g, nc = toks[10] == "1", toks[4], 1
            elif k == "map":
                coro, g, nc = toks[11] == "1", toks[6], int(toks[5])
            else:
                coro, g, nc = True, "-", 1
            if not coro:
                exp = "err:NotCoroutineFunction"
            elif pp["z"] or (pi in gac_done and gac_done[pi] < j):
                exp = "err:PoolIsClosed"
            elif pp["l"]:
                exp = "err:PoolIsLocked"
            elif k == "map" and nc < 1:
                exp = "err:ValueError"
            elif g != "-" and pp["g"].get(g) is not None:
                exp = "err:TaskGroupAlreadyExists"
            if exp is not None and o["r"] != exp:
                out.append(("wrong-rejection", j, f"pool {pi}: {k} -> {o['r']}, documented: {exp}"))
            if exp is None and not o["r"].startswith("name:"):
                out.append(("acceptable-request-rejected", j, f"pool {pi}: {k} -> {o['r']}"))
        if k == "start" and o["r"].startswith("name:") and ps.kind == "simple" and not ps.has_hooks:
            n_ok = sum(1 for jj in range(j) if st.toks[jj][:1] == ["on"] and len(st.toks[jj]) > 2 and int(st.toks[jj][1]) == pi
                       and st.toks[jj][2] == "start" and st.obs[jj] is not None and st.obs[jj]["r"].startswith("name:"))
            if o["r"][5:] != f"start-group-{n_ok}":
                out.append(("rejected-request-left-a-trace", j,
                            f"pool {pi}: accepted start() number {n_ok} was named {o['r'][5:]}: a rejected one consumed a name"))
        if k == "set_size":
            if int(toks[3]) < 0 and o["r"] != "err:ValueError":
                out.append(("negative-size-accepted", j, f"pool {pi}: {o['r']}"))
            if int(toks[3]) >= 0 and o["r"] != "ok":
                out.append(("valid-size-rejected", j, f"pool {pi}: {o['r']}"))
        elif k in ("lock", "unlock"):
            po = o["pools"][pi]
            want = 1 if k == "lock" else 0
            rest_same = all(po[f] == pp[f] for f in POOL_CMP if f != "l") and not po["ev"] and o["q"] == prev["q"]
            if po["l"] != want or not rest_same:
                out.append((k + "-effect", j, f"pool {pi}: is_locked={po['l']}"))
        if o["r"].startswith("err:") and k in ("apply", "map", "start", "set_size") and not unchanged(st, j):
            out.append(("rejected-request-left-a-trace", j, f"pool {pi}: {k} -> {o['r']}"))
        if o["r"].startswith("err:") and k in ("apply", "map", "start"):
            if any(e.startswith("P") or e.startswith("S") for po in o["pools"] for e in po["ev"]):
                out.append(("rejected-request-ran-user-code", j, f"pool {pi}: {k}"))
    return out


# --------------------------------------------------------------------------------------------- C10
def mon_C10(st):
    out = []
    membership = {}
    starts = {}
    for j, toks in enumerate(st.toks):
        o = st.obs[j]
        if o is None:
            continue
        prev = st.prev_obs(j)
        for pi, po in enumerate(o["pools"]):
            seen = {}
            for name, ids in po["g"].items():
                for i in ids or []:
                    if i in seen:
                        out.append(("groups-share-an-id", j, f"pool {pi}: id {i} in {seen[i]} and {name}"))
                    seen[i] = name
                    m = membership.setdefault((pi, i), name)
                    if m != name:
                        out.append(("task-changed-group", j, f"pool {pi}: id {i} in {m}, then in {name}"))
        if not toks or toks[0] != "on" or len(toks) < 3 or prev is None:
            continue
        pi = int(toks[1])
        if pi >= len(prev["pools"]):
            continue
        pp = prev["pools"][pi]
        k = toks[2]
        if k == "get_ids":
            names = [x for x in toks[3:] if not x.startswith("@")]
            if any(pp["g"].get(n) is None for n in names):
                exp = "err:TaskGroupNotFound"
            else:
                ids = sorted(set(i for n in names for i in pp["g"][n]))
                exp = "set:" + "/".join(str(i) for i in ids)
            if o["r"] != exp:
                out.append(("get_group_ids", j, f"pool {pi}: {names} -> {o['r']}, groups say {exp}"))
        elif k in ("apply", "map") and o["r"].startswith("name:"):
            g = toks[4] if k == "apply" else toks[6]
            name = o["r"][5:]
            if g != "-":
                if name != g:
                    out.append(("returned-name-differs", j, f"pool {pi}: asked {g} got {name}"))
            else:
                pre = "apply" if k == "apply" else GEN_PREFIX[toks[3]]
                i = 0
                while pp["g"].get(f"{pre}-worker-group-{i}") is not None:
                    i += 1
                if name != f"{pre}-worker-group-{i}":
                    out.append(("generated-name", j, f"pool {pi}: got {name}, documented {pre}-worker-group-{i}"))
            if pp["g"].get(name) is not None:
                out.append(("name-collides-with-live-group", j, f"pool {pi}: {name}"))
            if o["pools"][pi]["g"].get(name) is None:
                out.append(("accepted-group-unknown", j, f"pool {pi}: {name}"))
        elif k == "start" and o["r"].startswith("name:"):
            n = starts.get(pi, 0)
            starts[pi] = n + 1
            if o["r"][5:] != f"start-group-{n}":
                out.append(("generated-name", j, f"pool {pi}: got {o['r'][5:]}, documented start-group-{n}"))
    # a cancelled group is unknown from then on — until a request is given (or generates) its name again
    for pi, ps in enumerate(st.pools):
        if ps.has_hooks:
            continue
        dead = {}
        for j, toks in enumerate(st.toks):
            o = st.obs[j]
            if o is None or pi >= len(o["pools"]):
                continue
            prev = st.prev_obs(j)
            mine = bool(toks) and toks[0] == "on" and len(toks) > 2 and int(toks[1]) == pi
            if mine and o["r"].startswith("name:"):
                dead.pop(o["r"][5:], None)
            if mine and o["r"] == "ok" and prev is not None and pi < len(prev["pools"]):
                if toks[2] == "cancel_group":
                    dead[toks[3]] = j
                elif toks[2] == "cancel_all":
                    for n, ids in prev["pools"][pi]["g"].items():
                        if ids is not None:
                            dead[n] = j
            known = o["pools"][pi]["g"]
            for n in list(dead):
                if known.get(n) is not None:
                    out.append(("cancelled-group-still-known", j,
                                f"pool {pi}: {n} was cancelled at step {dead[n]} and not requested again, ids {known[n]}"))
                    del dead[n]
    # every task is listed under a name some request returned (observed after every single op of a hook-free pool)
    for pi, ps in enumerate(st.pools):
        if ps.has_hooks:
            continue
        for t in ps.tasks.values():
            if t.S is not None and t.req is None:
                out.append(("task-outside-every-known-group", t.S,
                            f"pool {pi}: task {t.tid} runs, but no group name ever returned by a request lists it"))
    # every task belongs to the group whose name was returned by the call that requested it
    for pi, ps in enumerate(st.pools):
        for r in ps.reqs:
            for tid in r.tids:
                t = ps.tasks[tid]
                if t.S is None or r.via_hook:
                    continue
                if r.kind == "map":
                    pre = {0: "", 1: "*", 2: "**"}[r.stars]
                    ok = t.arg.startswith(pre) and t.arg[len(pre):].isdigit()
                else:
                    ok = t.arg == "a"
                mixed = len(set((rr.kind, rr.stars) for rr in ps.reqs if rr.name == r.name)) > 1
                if not ok and not mixed:
                    out.append(("task-in-foreign-group", t.S, f"pool {pi}: task {tid} ({t.arg}) listed in {r.name}"))
    return out


# --------------------------------------------------------------------------------------------- C11
def mon_C11(st):
    out = []
    for (j, what) in st.errors:
        out.append(("task-name", j, what))
    for pi, ps in enumerate(st.pools):
        by_step = {}
        for t in ps.tasks.values():
            by_step.setdefault(t.first_seen, []).append(t.tid)
            if t.badtag:
                out.append(("callback-id-differs-from-task-name", t.first_seen, f"pool {pi} task {t.tid}"))
        hi = -1
        for j in sorted(by_step):
            new = sorted(by_step[j])
            if new[0] <= hi and not ps.has_hooks:
                out.append(("id-reused-or-out-of-order", j, f"pool {pi}: new id {new[0]} after {hi}"))
            if not ps.has_hooks and new != list(range(hi + 1, hi + 1 + len(new))):
                out.append(("ids-not-dense", j, f"pool {pi}: new ids {new} after {hi}"))
            hi = max(hi, new[-1])
    # names of pools
    for j, o in obs_steps(st):
        names = [po["nm"] for po in o["pools"]]
        for pi, ps in enumerate(st.pools[:len(names)]):
            cls = "SimpleTaskPool" if ps.kind == "simple" else "TaskPool"
            if ps.given_name:
                if names[pi] != f"{cls}-{ps.given_name}":
                    out.append(("pool-name", j, f"pool {pi}: {names[pi]}"))
            else:
                if not names[pi].startswith(cls + "-") or not names[pi][len(cls) + 1:].isdigit():
                    out.append(("pool-name", j, f"pool {pi}: {names[pi]}"))
                if names.count(names[pi]) > 1:
                    out.append(("unnamed-pools-share-a-name", j, names[pi]))
        break_after = False
        if break_after:
            break
    # an operation on one pool leaves the others alone
    for j, toks in enumerate(st.toks):
        o = st.obs[j]
        prev = st.prev_obs(j)
        if o is None or prev is None or not toks or toks[0] != "on":
            continue
        pi = int(toks[1])
        for qi, (a, b) in enumerate(zip(o["pools"], prev["pools"])):
            if qi != pi and (not pool_same(a, b) or a["ev"]):
                out.append(("operation-affected-another-pool", j, f"op on pool {pi} changed pool {qi}"))
    return out


# --------------------------------------------------------------------------------------------- C12
def mon_C12(st, loopexc=None):
    out = []
    for pi, ps in enumerate(st.pools):
        for a, (kind, re_, j0) in enumerate(ps.apis):
            if kind == "until_closed":
                continue
            jc, outcome = api_completion(st, pi, a)
            if jc is None:
                continue
            if re_ and outcome != "ok":
                out.append((f"{kind}-raised-with-return_exceptions", jc, f"pool {pi}: {outcome}"))
            elif outcome not in ("ok", "exc:Boom") and not ps.has_hooks:
                out.append((f"{kind}-raised-foreign-exception", jc, f"pool {pi}: {outcome}"))
            elif outcome == "exc:Boom" and not raising_anywhere(st, ps):
                out.append((f"{kind}-raised-though-nothing-failed", jc, f"pool {pi}"))
            elif (outcome == "ok" and not re_ and kind == "flush" and not ps.has_hooks
                  and not any(b != a and k2 != "until_closed" and jb <= jc for b, (k2, _, jb) in enumerate(ps.apis))):
                # the first collecting call of the pool: a task whose coroutine had raised before it is among the
                # tasks it waits for, so that exception is what it must raise
                failed = [t.tid for t in ps.tasks.values() if t.E is not None and t.E < j0 and finished_before(t, j0 - 1)]
                if failed:
                    out.append(("flush-swallowed-a-task-exception", jc, f"pool {pi}: tasks {failed} had raised"))
    # the slot of a task whose coroutine or callback raised is still released
    if not trigger_holds("unlock_while_closing", st):
        for (kind, j, detail) in mon_C02(st):
            if kind in ("task-never-accounted", "capacity-lost"):
                pi = int(detail.split()[1].rstrip(":"))
                if pi < len(st.pools) and raising_anywhere(st, st.pools[pi]):
                    out.append(("slot-of-failed-task-lost", j, detail))
    # pending requests proceed as if the failing task or callback had succeeded: nothing they asked for goes missing
    if not trigger_holds("unlock_while_closing", st):
        for (kind, j, detail) in mon_C05(st) + mon_C04(st):
            if kind in ("elements-lost", "invocations-lost"):
                pi = int(detail.split()[1].rstrip(":"))
                if pi < len(st.pools) and raising_anywhere(st, st.pools[pi]):
                    out.append(("request-starved-after-a-failure", j, detail))
    for name in (loopexc or []):
        if name not in ("Boom",):
            out.append(("foreign-exception-in-a-pool-task", len(st.toks) - 1, name))
    return out


# --------------------------------------------------------------------------------------------- C13
def mon_C13(st):
    out = []
    qj = quiet_step(st)
    for pi, ps in enumerate(st.pools):
        gac_done = [api_completion(st, pi, a)[0] for a, (k, _, _) in enumerate(ps.apis) if k == "gac"]
        gac_done = [j for j in gac_done if j is not None]
        prevpo = None
        for j, o in obs_steps(st):
            if pi >= len(o["pools"]):
                continue
            po = o["pools"][pi]
            if prevpo is not None and po["c"] < prevpo["c"] and j not in gac_done:
                done = sum(1 for e in po["ev"] if e[:2] in ("cd", "cr", "ck"))
                if done < prevpo["c"] - po["c"]:
                    out.append(("task-forgotten-inside-cancel-callback", j,
                                f"pool {pi}: num_cancelled {prevpo['c']} -> {po['c']} with {done} callbacks completing"))
            prevpo = po
            # a task inside its end callback is filed as ended and stays so until the callback is over
            if not any(k == "gac" for (k, _, _) in ps.apis):
                inside = sum(1 for t in ps.tasks.values()
                             if sum(1 for x in t.ec if x[0] <= j) > sum(1 for d in t.edone if d[0] <= j))
                if po["e"] < inside:
                    out.append(("task-forgotten-inside-end-callback", j,
                                f"pool {pi}: num_ended={po['e']} with {inside} tasks inside their end callbacks"))
        for a, (kind, re_, j0) in enumerate(ps.apis):
            if kind != "flush":
                continue
            jc, outcome = api_completion(st, pi, a)
            if jc is None:
                if qj is not None and j0 <= qj:
                    out.append(("flush-never-returned", qj, f"pool {pi}"))
                continue
            if re_ and outcome != "ok":
                out.append(("flush-raised-with-return_exceptions", jc, f"pool {pi}: {outcome}"))
            if outcome != "ok":
                continue
            pj = st.prev_obs(jc)
            if pj is not None and pi < len(pj["pools"]) and jc != j0:
                if st.obs[jc]["pools"][pi]["n"] != pj["pools"][pi]["n"]:
                    out.append(("flush-touched-running-tasks", jc, f"pool {pi}"))
            gained = 0
            last = None
            for j in range(j0, jc + 1):
                o = st.obs[j]
                if o is None or pi >= len(o["pools"]):
                    continue
                e = o["pools"][pi]["e"]
                if last is not None and e > last:
                    gained += e - last
                last = e
            if st.obs[jc]["pools"][pi]["e"] > gained:
                out.append(("finished-task-still-remembered", jc,
                            f"pool {pi}: num_ended={st.obs[jc]['pools'][pi]['e']} after flush, only {gained} ended meanwhile"))
    return out


# --------------------------------------------------------------------------------------------- C14
def mon_C14(st):
    out = []
    qj = quiet_step(st)
    for j, toks in enumerate(st.toks):
        o = st.obs[j]
        prev = st.prev_obs(j)
        if o is None or prev is None or len(toks) < 3 or toks[0] != "on" or toks[2] not in ("stop", "stop_all"):
            continue
        pi = int(toks[1])
        if pi >= len(st.pools) or not o["r"].startswith("ids:"):
            continue
        ps = st.pools[pi]
        ids = [int(x) for x in o["r"][4:].split("/") if x]
        nrun = prev["pools"][pi]["n"]
        want = nrun if toks[2] == "stop_all" else min(max(int(toks[3]), 0), nrun)
        if len(ids) != want:
            out.append(("stop-count", j, f"pool {pi}: {' '.join(toks[2:])} returned {ids}, num_running was {nrun}"))
        if ids != sorted(ids, reverse=True) or len(set(ids)) != len(ids):
            out.append(("stop-order", j, f"pool {pi}: {ids} is not newest first"))
        if not ids and not unchanged(st, j):
            out.append(("empty-stop-changed-state", j, f"pool {pi}"))
        approx = sorted(t.tid for t in ps.tasks.values() if t.first_seen < j and not finished_before(t, j - 1)
                        and not any(x[0] < j for x in t.cc) and not any(x[0] < j for x in t.ec))
        if len(approx) == nrun:
            if ids != sorted(approx, reverse=True)[:want]:
                out.append(("stop-not-lifo", j, f"pool {pi}: returned {ids}, running were {approx}"))
        for i in ids:
            t = ps.tasks.get(i)
            if t is not None and any(x[0] < j for x in t.cc):
                out.append(("stop-returned-a-task-already-cancelled", j, f"pool {pi} task {i} was in its cancel callback"))
            if (t is not None and qj is not None and j <= qj and ps.spec["mode"] == "g" and t.S is not None and t.S < j
                    and not finished_before(t, j) and t.X is None and not any(y > j for y in t.Y)
                    and not any(x[0] <= j for x in t.cc)):
                out.append(("stopped-task-not-cancelled", j, f"pool {pi} task {i}"))
            # stopped before its first step: the worker must never begin
            if t is not None and t.S is not None and t.S > j and t.first_seen <= j:
                out.append(("stopped-before-its-start-yet-started", t.S,
                            f"pool {pi} task {i}: stop() returned it at step {j}, its worker began at step {t.S}"))
    return out


# --------------------------------------------------------------------------------------------- C15
def mon_C15(st):
    out = []
    for pi, ps in enumerate(st.pools):
        M = ps.size
        changed = False
        at_assign = None
        for j, o in obs_steps(st):
            if pi >= len(o["pools"]):
                continue
            po = o["pools"][pi]
            toks = st.toks[j]
            if len(toks) >= 4 and toks[0] == "on" and int(toks[1]) == pi and toks[2] == "set_size":
                v = int(toks[3])
                if v < 0:
                    if o["r"] != "err:ValueError" or not unchanged(st, j):
                        out.append(("negative-size", j, f"pool {pi}: {o['r']}"))
                elif o["r"] == "ok":
                    M = v
                    changed = True
                    at_assign = po["n"] + po["c"]
                    prev = st.prev_obs(j)
                    pp = prev["pools"][pi]
                    if (po["n"], po["c"], po["e"], po["g"]) != (pp["n"], pp["c"], pp["e"], pp["g"]) or po["ev"]:
                        out.append(("assignment-disturbed-tasks", j, f"pool {pi}"))
            want = "inf" if M is None else str(M)
            if po["s"] != want:
                out.append(("getter-not-the-configured-maximum", j, f"pool {pi}: pool_size={po['s']} configured={want}"))
            if changed and M is not None:
                inflight = po["n"] + po["c"]
                if inflight > max(M, at_assign):
                    out.append(("admitted-above-new-limit", j, f"pool {pi}: {inflight} in flight, limit {M}"))
                at_assign = min(at_assign, max(inflight, M)) if inflight <= at_assign else at_assign
                if o["q"] == 0 and bool(po["f"]) != (inflight >= M):
                    out.append(("limit-not-in-force-at-idle", j,
                                f"pool {pi}: is_full={po['f']} with {inflight} in flight, limit {M}"))
    return out


MONITORS = {
    "C01": mon_C01, "C02": mon_C02, "C03": mon_C03, "C04": mon_C04, "C05": mon_C05, "C06": mon_C06, "C07": mon_C07,
    "C08": mon_C08, "C09": mon_C09, "C10": mon_C10, "C11": mon_C11, "C12": mon_C12, "C13": mon_C13, "C14": mon_C14,
    "C15": mon_C15,
}


def run_monitor(prop, lines, obs_lines, extras=None, loopexc=None):
    st = Story(lines, obs_lines, extras)
    if prop == "C12":
        return mon_C12(st, loopexc)
    return MONITORS[prop](st)


# ------------------------------------------------------------------------------- known-finding triggers
def trigger_holds(trigger, st):
    """does the history leave the envelope of the `_partial` theorem through this finding's trigger? (DESIGN §6)"""
    if trigger == "any":
        return True
    if trigger == "set_size":
        return any(ok for ps in st.pools for (_, _, ok) in ps.set_size_steps)
    if trigger == "unlock_while_closing":
        for ps in st.pools:
            for (j, k) in ps.lock_ops:
                if k == "unlock" and any(g <= j for g in ps.gac_steps):
                    return True
        return False
    return False
