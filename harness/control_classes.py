"""Harness-defined subclasses of the pool classes that add public (and non-public) members (C16/C17 quantifier:
"subclasses adding public members").  Annotations are postponed strings, as in the library's own pool module."""
from __future__ import annotations

from asyncio_taskpool import SimpleTaskPool, TaskPool


class _Extras:
    LIMIT = 7                                  # public, neither function nor property: must not become a command

    def hello(self, x: int, how: int = 1, loud: bool = False) -> int:
        """Adds; an optional parameter starting with 'h' and a bool flag."""
        if x < 0:
            raise ValueError(f"hello: negative x {x}")
        self.__dict__.setdefault("_journal", []).append(("hello", x, how, loud))
        return x + how + (100 if loud else 0)

    def hop(self, height: int = 1, hue: int = 2, hint: str = "none") -> str:
        """Three optional parameters that all start with 'h'."""
        self.__dict__.setdefault("_journal", []).append(("hop", height, hue, hint))
        return f"{height}/{hue}/{hint}"

    def tune(self, speed: int = 1, size: int = 2, shape: str = "round", strict: bool = False) -> str:
        """Four optional parameters that all start with 's': -s, -S, then long forms only."""
        self.__dict__.setdefault("_journal", []).append(("tune", speed, size, shape, strict))
        return f"{speed}x{size}:{shape}:{strict}"

    def note(self, first: str, *words: str, sep: str = "+", high: int = 0, quiet: bool = False) -> str | None:
        """Positional, repeated positionals, keyword-only options."""
        self.__dict__.setdefault("_journal", []).append(("note", first, words, sep, high, quiet))
        if quiet:
            return None
        return sep.join((first,) + words) + f"^{high}"

    def paint(self, what: str, *more: str, bold: bool = False, dim: bool = False, blink: bool = False,
              colour: str = "red", count: int = 1) -> str:
        """Several flags with letters of their own (-b, -d, -B) and two options with a value (-c, -C): what a client may
        write in one single-dash string (`-bdB`, `-bdcred`, `-bdC 3`)."""
        self.__dict__.setdefault("_journal", []).append(("paint", what, more, bold, dim, blink, colour, count))
        marks = ("b" if bold else "") + ("d" if dim else "") + ("B" if blink else "")
        return f"{what}{''.join('/' + x for x in more)}:{marks}:{colour}*{count}"

    def pick(self, items: Iterable[int], scale: float = 1.0) -> float:
        """A literal container and a float."""
        self.__dict__.setdefault("_journal", []).append(("pick", tuple(items), scale))
        return sum(items) * scale

    def bare(self, n: int = 0) -> int:
        self.__dict__.setdefault("_journal", []).append(("bare", n))
        return n * 2

    def blank(self, n: int = 0) -> int:
        """ """
        self.__dict__.setdefault("_journal", []).append(("blank", n))
        return n + 1

    def lock(self, why: str = "") -> None:
        """Re-defines an inherited public method, with a parameter of its own: the command is the subclass's."""
        self.__dict__.setdefault("_journal", []).append(("lock", why))
        super().lock()

    def half(self, n: int = 0) -> int:
        """Shrinks to 50% of %(what)s -- a percent sign in a docstring is text, not a format."""
        self.__dict__.setdefault("_journal", []).append(("half", n))
        return n // 2

    @property
    def mood(self) -> str:
        """The mood."""
        return self.__dict__.get("_mood", "calm")

    @mood.setter
    def mood(self, value: str) -> None:
        """Sets the mood."""
        if value == "bad":
            raise ValueError("no bad moods")
        self.__dict__["_mood"] = value

    @property
    def level(self) -> int:
        """Number of journal entries."""
        return len(self.__dict__.get("_journal", []))

    def _secret(self, x: int = 0) -> str:
        """Non-public: must not become a command."""
        return "secret"

    @property
    def _hidden(self) -> int:
        return 1

    def scale(self, by: 'Literal["10%", "50%"]' = "10%") -> str:
        """An annotation is shown in the help of its parameter as it is written - percent signs included."""
        return "by " + str(by)

    @staticmethod
    def units(n: int = 1) -> str:
        """A public static method is a public method: a command like any other."""
        return "unit" * n

    @classmethod
    def make(cls) -> str:
        """A bound class method is not a plain function: not a command."""
        return cls.__name__


class PlusPool(_Extras, TaskPool):
    """TaskPool with additional public members."""


class SimplePlus(_Extras, SimpleTaskPool):
    """SimpleTaskPool with additional public members."""


# ---- witness classes of the known findings F1, F2, F4, F6: public members that break the control parser / session
class HelpParamPool(TaskPool):
    """F1: an optional parameter called `help` — its long option `--help` clashes with every parser's own `--help`."""

    def foo(self, help: int = 0) -> int:
        """Returns its argument."""
        return help


class UnderscoreParamPool(TaskPool):
    """F2: an optional parameter whose name starts with an underscore — argparse derives the dest `y` from `--_y`, the
    session pops `_y`."""

    def bar(self, x: int, _y: int = 0) -> int:
        """Adds."""
        return x + _y


class CommandParamPool(TaskPool):
    """F4: a parameter called `command` — the namespace attribute under which the parser stores the member itself."""

    def run(self, command: str, level: int = 0) -> str:
        """Positional `command`: the member is overwritten by the argument."""
        return f"{command}/{level}"

    def opt(self, x: int, command: str = "c") -> str:
        """Optional `command`: `set_defaults` overwrites the option's default with the member."""
        return f"{x}/{command}"


def journal(pool):
    return list(pool.__dict__.get("_journal", []))


class AliasPool(TaskPool):
    """F6: a public method under two names — the command is named after `function.__name__`, not after the member, so
    both members ask for the sub-command `halt`."""

    def halt(self) -> str:
        """Halts."""
        return "halted"

    stop_now = halt
