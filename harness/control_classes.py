"""Harness-defined subclasses of the pool classes that add public (and non-public) members (C16/C17 quantifier:
"subclasses adding public members").  Annotations are postponed strings, as in the library's own pool module."""
from __future__ import annotations

from asyncio_taskpool import SimpleTaskPool, TaskPool


class _Extras:
    LIMIT = 7                                  # public, neither function nor property: must not become a command

    def hello(self, x: int, how: int = 1, loud: bool = False) -> int:
        """Adds; an optional parameter starting with 'h' and a bool flag."""
        if x < 0:
            raise ValueError(f"hello: negative x {x}")
        self.__dict__.setdefault("_journal", []).append(("hello", x, how, loud))
        return x + how + (100 if loud else 0)

    def hop(self, height: int = 1, hue: int = 2, hint: str = "none") -> str:
        """Three optional parameters that all start with 'h'."""
        self.__dict__.setdefault("_journal", []).append(("hop", height, hue, hint))
        return f"{height}/{hue}/{hint}"

    def tune(self, speed: int = 1, size: int = 2, shape: str = "round", strict: bool = False) -> str:
        """Four optional parameters that all start with 's': -s, -S, then long forms only."""
        self.__dict__.setdefault("_journal", []).append(("tune", speed, size, shape, strict))
        return f"{speed}x{size}:{shape}:{strict}"

    def note(self, first: str, *words: str, sep: str = "+", high: int = 0, quiet: bool = False) -> str | None:
        """Positional, repeated positionals, keyword-only options."""
        self.__dict__.setdefault("_journal", []).append(("note", first, words, sep, high, quiet))
        if quiet:
            return None
        return sep.join((first,) + words) + f"^{high}"

    def pick(self, items: Iterable[int], scale: float = 1.0) -> float:
        """A literal container and a float."""
        self.__dict__.setdefault("_journal", []).append(("pick", tuple(items), scale))
        return sum(items) * scale

    @property
    def mood(self) -> str:
        """The mood."""
        return self.__dict__.get("_mood", "calm")

    @mood.setter
    def mood(self, value: str) -> None:
        """Sets the mood."""
        if value == "bad":
            raise ValueError("no bad moods")
        self.__dict__["_mood"] = value

    @property
    def level(self) -> int:
        """Number of journal entries."""
        return len(self.__dict__.get("_journal", []))

    def _secret(self, x: int = 0) -> str:
        """Non-public: must not become a command."""
        return "secret"

    @property
    def _hidden(self) -> int:
        return 1

    @classmethod
    def make(cls) -> str:
        """A bound class method is not a plain function: not a command."""
        return cls.__name__


class PlusPool(_Extras, TaskPool):
    """TaskPool with additional public members."""


class SimplePlus(_Extras, SimpleTaskPool):
    """SimpleTaskPool with additional public members."""


def journal(pool):
    return list(pool.__dict__.get("_journal", []))
