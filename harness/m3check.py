"""Engine for C16-C19 (control model M3)."""
PROPS = []
