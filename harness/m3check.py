"""Engine for C16–C19: the control model M3 (command table, parse/dispatch, session loop, server life cycle)
against the real control package.

Every run: (1) the member table of the served classes is regenerated from the real classes with `inspect` and handed
to the compiled Lean model (`cdriver`); (2) generated + corpus cases are executed on the real code and on the model and
compared (translation validation for C17, own-output oracle + session model for C18, life-cycle model for C19, parser
surface for C16); (3) the property's monitors — direct statements of the property over the real run — are evaluated.
A monitor failure is a VIOLATION with a replayable case; a broken proof or a model/implementation disagreement without
a monitor failure is a VIOLATION ending in `no-failing-input-found`."""
import collections
import concurrent.futures
import glob
import hashlib
import json
import multiprocessing as mp
import os
import random
import re

from . import control_gen as G
from .leanproj import proof_coverage

ROOT = os.path.dirname(os.path.dirname(os.path.abspath(__file__)))
PROPS = ["C16", "C17", "C18", "C19"]

CLASSES_ALL = ["TaskPool", "SimpleTaskPool", "PlusPool", "SimplePlus"]
BUDGET = {
    "C16": {"quick": 40, "thorough": 200},          # extra seeded (class, width, pool name) sweeps beside the fixed grid
    "C17": {"quick": 1000, "thorough": 6000},       # random scripts (beside the complete option-subset sweep)
    "C18": {"quick": 560, "thorough": 4000},
    "C19": {"quick": 140, "thorough": 700},
}
DEADLINE = {"quick": 420, "thorough": 2400}      # whole sweep of one check; exceeded = harness trouble (exit 2)


# ------------------------------------------------------------------------------------------------ files
def known_findings(prop):
    try:
        with open(os.path.join(ROOT, "known_findings.json")) as fh:
            data = json.load(fh)
    except FileNotFoundError:
        return []
    return [f for f in data.get("findings", []) if f["property"] == prop and isinstance(f.get("witness"), dict)]


def corpus(prop):
    out = []
    for path in sorted(glob.glob(os.path.join(ROOT, "corpus", prop, "*.json"))):
        with open(path) as fh:
            d = json.load(fh)
        out.append((os.path.relpath(path, ROOT), d["body"]))
    return out


def digest(obj):
    return hashlib.sha1(json.dumps(obj, sort_keys=True).encode()).hexdigest()[:16]


# ------------------------------------------------------------------------------------------------ case generation
def gen_case(prop, rng, tier, i):
    from . import control_net as N
    from . import control_run as R
    if prop == "C16":
        cls = rng.choice(CLASSES_ALL)
        width = rng.choice([rng.randint(-50, 300), rng.randint(-10 ** 9, 10 ** 9), rng.choice([2, 11, 40, 79, 81, 200])])
        name = "".join(rng.choice("abcXYZ019-_. ") for _ in range(rng.randint(1, 8))).strip() or "p"
        return {"check": "help", "cls": cls, "width": width, "name": name}
    if prop == "C17":
        cls = rng.choice(["TaskPool", "TaskPool", "SimpleTaskPool", "SimpleTaskPool", "PlusPool", "SimplePlus"])
        ctx = R.class_ctx(cls)
        script = []
        for _ in range(rng.randint(12, 40)):
            r = rng.random()
            if r < 0.06:
                script.append(["env", "release"])
            elif r < 0.10:
                script.append(["env", "swap"])          # `harness.wmod.cur` is rebound between two commands
            else:
                script.append(["line", 0, G.session_line(rng, ctx["cmds"], ctx["flags"], (0.8, 0.17, 0.03))])
        return {"mode": "tv", "cls": cls, "width": rng.choice([60, 80, 100]), "nsess": 1, "script": script}
    if prop == "C18":
        cls = rng.choice(["TaskPool", "TaskPool", "SimpleTaskPool", "SimpleTaskPool", "PlusPool", "SimplePlus"])
        ctx = R.class_ctx(cls, counting=True)
        nsess = rng.choice([1, 1, 2, 3])
        prof = rng.choice([(0.45, 0.25, 0.2), (0.2, 0.2, 0.35), (0.6, 0.3, 0.05)])
        script = []
        waiters = [c for c in ("gather-and-close", "until-closed", "flush") if c in ctx["cmds"]]
        starters = ["apply harness.wmod.w -n 2", "start 2", "map harness.wmod.w [1,2,3]"]
        for _ in range(rng.randint(12, 36)):
            r = rng.random()
            s = rng.randrange(nsess)
            if r < 0.05:
                script.append(["env", "release"])
            elif r < 0.12 and nsess > 1:
                a, b = rng.sample(range(nsess), 2)
                script.append(["pair", [a, G.session_line(rng, ctx["cmds"], ctx["flags"], (0.0, 0.5, 0.3))],
                               [b, G.session_line(rng, ctx["cmds"], ctx["flags"], (0.0, 0.5, 0.3))]])
            elif r < 0.2:
                st = [x for x in starters if x.split(" ")[0] in ctx["cmds"]]
                if st:
                    script.append(["line", s, rng.choice(st)])
                quiet = ["num-running", "is-locked", "pool-size", "bogus", "num-ended -h"]
                extra = {"queued": [rng.choice(quiet) for _ in range(rng.randint(0, 2))]}
                if nsess > 1:
                    extra["meanwhile"] = [[(s + 1) % nsess, rng.choice(quiet + ["cancel-all", "lock"])]
                                          for _ in range(rng.randint(0, 2))]
                script.append(["line", s, rng.choice(waiters + ["flush -r"]), extra])
            elif r < 0.23:
                script.append(["blank", s])
            elif r < 0.25:
                # a reply far longer than any help text (the unknown word is echoed in the error message), then
                # lines whose replies are written by the parser itself: help, an unknown command, a bad argument
                script.append(["line", s, "zz" + "y" * rng.choice([3000, 9000, 20000])])
                for _ in range(rng.randint(1, 3)):
                    script.append(["line", s, rng.choice(["num-ended -h", "bogus", "pool-size x", "-h", "is-locked"])])
            elif r < 0.29:
                # a spawning command on a locked pool: refused with an exception whose text is empty — the reply is an empty line
                st = [x for x in starters if x.split(" ")[0] in ctx["cmds"]]
                script.append(["line", s, "lock"])
                if st:
                    script.append(["line", rng.randrange(nsess), rng.choice(st)])
                script.append(["line", s, rng.choice(["unlock", "is-locked", "unlock"])])
            else:
                script.append(["line", s, G.session_line(rng, ctx["cmds"], ctx["flags"], prof)])
        return {"mode": "iso", "cls": cls, "width": rng.choice([20, 80, 120]), "nsess": nsess, "script": script}
    if prop == "C19":
        budget = [1 if rng.random() < (0.25 if tier == "quick" else 0.2) else 0]
        case = {"transport": rng.choice(["tcp", "unix"]), "cls": rng.choice(["TaskPool", "SimpleTaskPool"]),
                "ops": N.gen_ops(rng, tier, budget)}
        if rng.random() < 0.08:
            # the stop comes at once: `task = await serve_forever(); task.cancel()` with no loop iteration in between
            # (the serving task has not taken a step of its own yet), then possibly a second cycle on the same object
            ops = [["stop"], ["probe"]]
            if rng.random() < 0.5:
                ops += [["restart"], ["connect", "raw"], ["cmd", 0, "num-running"], ["leave", 0, "close"], ["stop"], ["probe"]]
            case = dict(case, ops=ops, early_stop=True)
        return case
    raise ValueError(prop)


def fixed_cases(prop, tier):
    """the enumerated part of a check (independent of the seed)"""
    from . import control_run as R
    from . import control_world as W
    cases = []
    if prop == "C16":
        for cls in CLASSES_ALL:
            cases.append({"check": "table", "cls": cls})
            for w in W.WIDTHS:
                cases.append({"check": "help", "cls": cls, "width": w, "name": "P"})
    if prop == "C17":
        # every subset of the options of every command, values drawn from each parameter's domain
        for cls in ["TaskPool", "SimpleTaskPool", "PlusPool"] + (["SimplePlus"] if tier == "thorough" else []):
            ctx = R.class_ctx(cls)
            rng = random.Random(hash_str(cls))
            lines = []
            for cmd, m in sorted(ctx["cmds"].items()):
                if m["kind"] != "function":
                    lines.append(cmd)
                    continue
                if cmd in ("gather-and-close", "until-closed"):
                    continue
                for sub in G.all_option_subsets(m):
                    for first in ((False, True) if sub else (False,)):
                        lines.append(G.command_line(rng, cmd, m, ctx["flags"][cmd], subset=sub, opts_first=first))
            for k in range(0, len(lines), 40):
                cases.append({"mode": "tv", "cls": cls, "width": 80, "nsess": 1, "sweep": True,
                              "script": [["line", 0, ln] for ln in lines[k:k + 40]]
                              + [["env", "release"], ["line", 0, "flush"], ["line", 0, "gather-and-close"],
                                 ["line", 0, "until-closed"], ["line", 0, "num-running"]]})
    return cases


def hash_str(s):
    return int(hashlib.sha1(s.encode()).hexdigest()[:8], 16)


# ------------------------------------------------------------------------------------------------ running one case
def run_case(prop, case):
    """-> (failures, stats Counter, samples, nontrivial keys)"""
    from . import control_net as N
    from . import control_run as R
    if prop == "C16":
        if case["check"] == "table":
            fails, st = R.check_table(case["cls"])
            c = collections.Counter({"tables": 1, "actions_compared": st.get("actions", 0), "commands": st.get("commands", 0)})
            keys = {f"{case['cls']}:table:{k}" for k in range(st.get("commands", 0))}
            return fails, c, [{"class": case["cls"], "commands": st.get("commands", 0)}], keys
        fails, st = R.check_handshake_help(case["cls"], case["width"], case.get("name", "P"), case.get("lines"))
        st["w:" + str(case["width"])] += st.get("help_requests", 0)
        keys = {f"{case['cls']}:{case['width']}:{k}" for k in range(st.get("help_requests", 0))}
        return fails, st, [{"class": case["cls"], "width": case["width"], "help_requests": st.get("help_requests", 0)}], keys
    if prop in ("C17", "C18"):
        r = R.ScriptRun(case)
        fails, st, samples = r.run()
        keys = set()
        for ln in r.lines:
            v = r.verdict.get(ln)
            if v is None:
                continue
            if prop == "C17" and v["kind"] in ("call", "get", "set"):
                keys.add(case["cls"] + "|" + ln)
            if prop == "C18" and ln.strip():
                keys.add(case["cls"] + "|" + ln)
        st["scripts"] += 1
        st["sessions"] += case.get("nsess", 1)
        return fails, st, samples, keys
    if prop == "C19":
        r = N.NetRun(case)
        fails, st, trace = r.run()
        st["cases"] += 1
        st["t:" + case["transport"]] += 1
        ops = [o[0] for o in case["ops"]]
        keys = {digest(case)} if ("connect" in ops and "stop" in ops) else set()
        return fails, st, [{"transport": case["transport"], "ops": case["ops"]}], keys
    raise ValueError(prop)


CASE_LIMIT = {"C16": 120, "C17": 150, "C18": 150, "C19": 240}


class watchdog:
    """a case that neither finishes nor yields to its own bounded waits (a busy loop in Python code) must end as a harness
    error, never as a hang: SIGALRM reports the case and ends the worker process; the parent sees a broken pool (exit 2)"""

    def __init__(self, seconds, name, case):
        self.seconds, self.name, self.case = seconds, name, case

    def _fire(self, signum, frame):
        import sys
        import traceback
        where = "".join(traceback.format_stack(frame)[-6:])
        sys.__stderr__.write(f"harness timeout: case {self.name} still running after {self.seconds} s: "
                             f"{json.dumps(self.case)[:1500]}\n{where}\n")
        sys.__stderr__.flush()
        os._exit(70)

    def __enter__(self):
        import signal
        self.old = signal.signal(signal.SIGALRM, self._fire)
        signal.alarm(self.seconds)

    def __exit__(self, *exc):
        import signal
        signal.alarm(0)
        signal.signal(signal.SIGALRM, self.old)
        return False


def fail_key(f):
    return (f["kind"], f.get("monitor") or f.get("what"))


def work(job):
    prop, seed, tier, start, count, extra = job
    res = {"cases": 0, "stats": collections.Counter(), "failures": [], "keys": set(), "samples": [], "digests": set()}
    todo = [(name, c) for name, c in extra]
    for i in range(start, start + count):
        rng = random.Random(seed * 1000003 + i)
        todo.append((f"gen:{seed}:{i}", gen_case(prop, rng, tier, i)))
    for name, case in todo:
        try:
            with watchdog(CASE_LIMIT[prop], name, case):
                fails, st, samples, keys = run_case(prop, case)
        except Exception as e:          # keep what crosses the process boundary picklable
            import traceback
            raise RuntimeError(f"harness error on case {name}: {type(e).__name__}: {e}\n{traceback.format_exc()[-1500:]}") from None
        res["cases"] += 1
        res["stats"].update(st)
        res["keys"] |= keys
        res["digests"].add(digest(case))
        if len(res["samples"]) < 2:
            res["samples"].extend(samples[:2])
        for f in fails:
            res["failures"].append(dict(f, source=name, case=case))
    return res


# ------------------------------------------------------------------------------------------------ shrinking
def items_of(case):
    for k in ("script", "ops", "lines"):
        if k in case:
            return k
    return None


def shrink(prop, f, budget=None):
    budget = budget or (10 if prop == "C19" else 40)      # a failing C19 case costs a bounded wait of seconds per try
    case = f["case"]
    key = items_of(case)
    want = fail_key(f)
    if key is None:
        return case

    def still(c):
        try:
            fails, _, _, _ = run_case(prop, c)
        except Exception:
            return False
        return any(fail_key(g) == want for g in fails)

    items = list(case[key])
    spent = 0
    size = max(1, len(items) // 2)
    while size >= 1 and spent < budget:
        i = 0
        while i < len(items) and spent < budget:
            cand = items[:i] + items[i + size:]
            spent += 1
            if cand and still(dict(case, **{key: cand})):
                items = cand
            else:
                i += size
        size //= 2
    return dict(case, **{key: items})


# ------------------------------------------------------------------------------------------------ the check
def trigger_holds(k, f):
    t = k.get("trigger", "any")
    if t == "any":
        return True
    if isinstance(t, dict):
        ok = True
        if "cls" in t:          # the failing case serves exactly this (witness) class
            ok = ok and f.get("case", {}).get("cls") == t["cls"]
        if "line_matches" in t:
            ok = ok and bool(re.search(t["line_matches"], str(f.get("line", ""))))
        return ok and bool(t)
    return False


def run(prop, tier, seed, jobs, proof, out):
    from . import control_world as W
    total = BUDGET[prop][tier]
    extra = [(f"fixed:{i}", c) for i, c in enumerate(fixed_cases(prop, tier))] + corpus(prop)
    kf = known_findings(prop)
    chunks = max(1, min(jobs, total)) * (2 if total >= 2 * jobs else 1)
    per = -(-total // chunks)
    jobl = []
    # the fixed + corpus cases are spread over the workers, the generated ones are index ranges of the seed
    for k in range(chunks):
        jobl.append((prop, seed, tier, k * per, max(0, min(per, total - k * per)), extra[k::chunks]))
    agg = {"cases": 0, "stats": collections.Counter(), "failures": [], "keys": set(), "samples": [], "digests": set()}
    deadline = DEADLINE[tier]
    ex = concurrent.futures.ProcessPoolExecutor(max_workers=min(jobs, chunks), mp_context=mp.get_context("fork"))
    clean = False
    try:
        futs = [ex.submit(work, j) for j in jobl]
        try:
            for fu in concurrent.futures.as_completed(futs, timeout=deadline):
                s = fu.result()
                agg["cases"] += s["cases"]
                agg["stats"].update(s["stats"])
                agg["failures"].extend(s["failures"])
                agg["keys"] |= s["keys"]
                agg["digests"] |= s["digests"]
                if len(agg["samples"]) < 3:
                    agg["samples"].extend(s["samples"])
        except concurrent.futures.TimeoutError:
            raise W.HarnessTimeout(f"{prop}: the case workers did not finish within {deadline} s")
        clean = True
    finally:
        if clean:
            ex.shutdown(wait=True)
        else:
            for p_ in list(getattr(ex, "_processes", {}).values()):
                if p_.is_alive():
                    p_.kill()
            ex.shutdown(wait=False, cancel_futures=True)

    # ---- known findings: replay each witness on the real code
    known_by_monitor = {}
    for k in kf:
        for m in k["monitors"]:
            known_by_monitor.setdefault(m, []).append(k)
        try:
            fails, _, _, _ = run_case(prop, k["witness"])
        except W.HarnessTimeout:
            raise
        hit = [g for g in fails if g["kind"] == "monitor" and g["monitor"] in k["monitors"]]
        if hit:
            out.known.append(f"KNOWN-FINDING: property={prop} {k['id']}: {k['what']}")

    # ---- classify
    mons = [f for f in agg["failures"] if f["kind"] == "monitor"]
    diffs = [f for f in agg["failures"] if f["kind"] == "diff"]
    attributed = collections.Counter()
    new_mons = []
    for f in mons:
        ks = [k for k in known_by_monitor.get(f["monitor"], []) if trigger_holds(k, f)]
        if ks:
            attributed[ks[0]["id"]] += 1
        else:
            new_mons.append(f)
    reported = set()
    for f in sorted(new_mons, key=lambda f: len(json.dumps(f["case"]))):
        if f["monitor"] in reported:
            continue
        reported.add(f["monitor"])
        small = shrink(prop, f)
        try:
            again, _, _, _ = run_case(prop, small)
        except Exception:
            again = []
        hit = [g for g in again if fail_key(g) == fail_key(f)]
        g = hit[0] if hit else f
        out.violation({"kind": "monitor", "monitor": {"name": f["monitor"], "detail": g.get("detail"), "line": g.get("line"),
                                                      "step": g.get("step")},
                       "case": small, "source": f["source"], "broken_obligation": None, "known_finding": None})
    if (not proof["ok"] or diffs) and not reported:
        what = []
        if not proof["ok"]:
            what.append({"proof": proof["problems"], "theorems": proof["theorems"]})
        payload = {"kind": "proof" if not proof["ok"] else "diff",
                   "broken_obligation": what or f"correspondence of the control model (cdriver) with asyncio_taskpool.control for {prop}",
                   "searched": {"cases": agg["cases"], "monitors_of": prop}, "known_finding": None}
        if diffs:
            d = sorted(diffs, key=lambda f: len(json.dumps(f["case"])))[0]
            small = shrink(prop, d)
            payload.update({"case": small, "source": d["source"], "diverging_cases": len(diffs),
                            "first_divergence": {k: v for k, v in d.items() if k not in ("case",)}})
        out.violation(payload, nofail=True)

    cov = proof_coverage(proof)
    st = agg["stats"]
    cov.update({
        "evaluations": int(EVALS[prop](agg)),
        "distinct_nontrivial": len(agg["keys"]),
        "rule": RULES[prop],
        "samples": agg["samples"][:3],
        "traces_validated_against_impl": agg["cases"] - len({digest(f["case"]) for f in diffs}),
        "cases": agg["cases"],
        "distinct_cases": len(agg["digests"]),
        "verdict_kinds": {k[2:]: v for k, v in sorted(st.items()) if k.startswith("v:")},
        "error_kinds": {k[2:]: v for k, v in sorted(st.items()) if k.startswith("e:")},
        "widths": {k[2:]: v for k, v in sorted(st.items()) if k.startswith("w:")},
        "counters": {k: v for k, v in sorted(st.items()) if k[:2] not in ("v:", "e:", "w:")},
        "disagreements": len(diffs),
        "monitor_findings": {"new": len(new_mons), "attributed_to_known_findings": dict(attributed)},
        "corpus_cases": len(corpus(prop)),
        "exhaustive": False,
    })
    ev = {"property_id": prop, "tier": tier, "seed": seed, "level": "proof", "coverage": cov, "assumptions": ASSUME[prop]}
    return ev


EVALS = {
    "C16": lambda a: a["stats"]["help_requests"] + a["stats"]["actions_compared"],
    "C17": lambda a: a["stats"]["lines"],
    "C18": lambda a: a["stats"]["lines"],
    "C19": lambda a: sum(v for k, v in a["stats"].items() if k.startswith("op:")),
}
RULES = {
    "C16": "fixed grid: 4 classes (TaskPool, SimpleTaskPool, two harness subclasses) x widths {-5,0,1,20,80,10^6}: handshake, "
           "then top-level and per-command -h/--help through a real session; plus seeded (class, width, pool name) sweeps; "
           "plus the real parser's per-action spec diffed against the model.  evaluations = help requests + argparse actions "
           "compared; distinct non-trivial = distinct (class, width, help request) and (class, command) pairs",
    "C17": "complete sweep of every subset of the options of every command (options before and after the positionals) + "
           "seeded scripts; each line goes to the Lean model and through a real session; the model's verdict is applied as a "
           "direct call to a twin pool; replies, pool observables and worker arguments compared.  evaluations = lines sent; "
           "distinct non-trivial = distinct (class, line) whose verdict is a method/property access executed on both pools",
    "C18": "seeded scripts for 1-3 sessions on one pool (counting subclass): command vocabulary, defective usage, malformed "
           "and arbitrary printable lines, simultaneous lines, waiting commands with queued lines, blank lines; every reply "
           "compared with a fresh session's reply on a twin pool; the Lean session model follows the event trace.  "
           "evaluations = lines sent; distinct non-trivial = distinct non-blank (class, line)",
    "C19": "seeded op sequences over real TCP and Unix sockets, compared after every op with the Lean life-cycle model: "
           "connect (raw stream client | bundled CLI client subprocess | mute = connected, no handshake line), command, "
           "hang (a waiting command - until-closed / gather-and-close - in flight while other clients must be answered "
           "within the bounded wait), release, leave (close | eof | blank line | exit | in the middle of the handshake: "
           "garbage, JSON without width, partial line), stop, probe; one case in four ends with a client that leaves during "
           "its handshake as the last client; the cyclic GC is off during a case.  evaluations = ops; distinct non-trivial = "
           "distinct sequences with at least one connection attempt and a stop",
}
COMMON = ["theorems are about the hand-written Lean model lean/Taskpool/Model/Control*; the member table is regenerated from "
          "the real classes on every run and the model is tied to /repo by this run's differential check (unverified Python)",
          "modelled, not verified: argparse, inspect, json, ast.literal_eval, importlib, asyncio streams/Server (CPython 3.12.1)",
          "the library *logs* conversion failures (logger asyncio_taskpool); the harness gives that logger a NullHandler, so "
          "logging's last-resort stderr handler is not counted as printing"]
ASSUME = {
    "C16": COMMON + ["partial: help TEXT and argparse's formatter are outside the model; sampled at the widths listed",
                     "handshake line = JSON object with a numeric terminal_width (the quantifier's 'every terminal width')"],
    "C17": COMMON + ["lexing of decimal/literal/dotted-path strings is Python's (tokens are structured in the theorem); "
                     "validated only by the differential run",
                     "canonical fragment: one run of positionals, options before/after it; long options in full, as "
                     "unambiguous abbreviations (argparse's allow_abbrev), with the value behind a blank or behind `=`; short options "
                     "with the value in the same string (`-cV`, `-c=V`), clusters of flag letters (`-ab`, `-abcV`, `-abc V`), the "
                     "separator `--` in front of / inside / behind the positional strings; "
                     "ambiguous abbreviations, `--flag=value`, `-fx` / `-f=` behind a flag are error verdicts; still outside: "
                     "the value `--` (`--name=--`, `-c--`), a second `--`, `--` or unknown strings before the command word, the "
                     "empty string, a second positional run; lines the model declares outside are "
                     "not sent in this check (counters form:*: how many lines used each form / were judged inside)",
                     "bool parameters are store_true flags whose absent value is False (the pool classes' own default)"],
    "C18": COMMON + ["partial: 'argparse returns a verdict for EVERY string without raising, printing or exiting' is sampled, "
                     "not proved", "text lines are valid UTF-8 without line breaks"],
    "C19": COMMON + ["partial: kernel socket behaviour and timing are outside the model; bounded waits of 3 s per step",
                     "asyncio 3.12.1 Server.wait_closed() waits for attached connections"],
}


def replay(prop, path, out, args):
    with open(path) as fh:
        d = json.load(fh)
    case = d.get("case") or d.get("body") or d.get("witness")
    if not case:
        print("replay file has no case (proof/audit failure): rebuild with `cd lean && lake build`")
        return 1
    fails, st, samples, _ = run_case(prop, case)
    print(json.dumps(case, indent=1)[:4000])
    for f in fails:
        print(json.dumps({k: v for k, v in f.items() if k != "case"}, default=str)[:1500])
    kfs = known_findings(prop)
    bad = [f for f in fails if not (f["kind"] == "monitor" and
                                    any(f["monitor"] in k["monitors"] and trigger_holds(k, f) for k in kfs))]
    if bad:
        print(f"VIOLATION property={prop} replay={path}")
        return 1
    print("no failure on this case")
    return 0
