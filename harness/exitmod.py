"""A module that ends the interpreter when it is imported (`sys.exit()` at module level, as scripts without a
`__main__` guard do): a client may name it in a dotted path; the server must answer, not exit."""
raise SystemExit(3)
