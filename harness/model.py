"""Runs the compiled Lean model drivers on op lines."""
import os
import subprocess

ROOT = os.path.dirname(os.path.dirname(os.path.abspath(__file__)))
BIN = os.environ.get("VERIF_LEAN_BIN") or os.path.join(ROOT, "lean", ".lake", "build", "bin")


def driver(name):
    return os.path.join(BIN, name)


def run_driver(name, lines, timeout=600):
    """one output line per input line"""
    inp = "\n".join(lines) + "\n"
    out = subprocess.run([driver(name)], input=inp, capture_output=True, text=True, timeout=timeout)
    if out.returncode != 0:
        raise RuntimeError(f"{name} exited with {out.returncode}: {out.stderr[-500:]}")
    res = out.stdout.split("\n")
    if res and res[-1] == "":
        res.pop()
    if len(res) != len(lines):
        raise RuntimeError(f"{name}: {len(lines)} lines in, {len(res)} lines out")
    return res
