"""History generation.  Every random choice derives from one `random.Random`; a history is generated *while* it is
executed on the implementation (placeholders such as "some live group" are resolved against the real state), and
the resolved op lines are what is replayed on the model and stored in replay files."""
import random

from .impl import ImplWorld

CBS = "nnnppcx"

DEFAULT_PROFILE = {
    "maxlen": 30,
    "hooks": 0.3,          # probability that a request carries user-code hooks
    "nonfifo": 0.0,        # probability that a `run` picks the k-th instead of the first handle
    "multi": 0.15,         # probability of more than one pool
    "simple": 0.25,        # probability that a pool is a SimpleTaskPool
    "badpool": 0.03,       # probability of an invalid constructor call
    "multi_await": 0.2,    # share of the gated workers that have one or two further suspension points (modes g1 / g2)
    "sizes": ["0", "1", "1", "2", "2", "3", "4", "inf"],
    "winddown": True,
    "probe": True,
    "w": {  # op weights
        "spawn": 14, "spawn2": 12, "cancel": 8, "cancel_group": 6, "cancel_all": 3, "lock": 3, "unlock": 4,
        "set_size": 2, "get_ids": 2, "flush": 6, "gac": 2, "until_closed": 2, "gate": 12, "run": 26,
    },
}


# explicit group names: none (generated), ordinary ones, and ones that look exactly like generated names
GROUP_CHOICES = ["-", "-", "-", "-", "G", "H", "apply-worker-group-0", "starmap-worker-group-1", "map-worker-group-0", "''"]


def enc_name(n):
    """the empty string (a legal group name) travels as `''` in an op line"""
    return "''" if n == "" else n


def profile(**kw):
    p = dict(DEFAULT_PROFILE)
    p["w"] = dict(DEFAULT_PROFILE["w"])
    for k, v in kw.items():
        if k == "w":
            p["w"].update(v)
        else:
            p[k] = v
    return p


def gen_hook_ops(rng):
    """the pool calls user code makes at one hook point (the same alphabet at every point)"""
    ops = []
    for _ in range(rng.randint(1, 2)):
        c = rng.random()
        if c < 0.25:
            ops.append("o")
        elif c < 0.40:
            ops.append("c" + ",".join(str(rng.randint(0, 6)) for _ in range(rng.randint(0, 2))))
        elif c < 0.50:
            ops.append("g" + rng.choice(["G", "H", "apply-worker-group-0", "nope"]))
        elif c < 0.58:
            ops.append("a")
        elif c < 0.66:
            ops.append("l")
        elif c < 0.74:
            ops.append("u")
        elif c < 0.88:
            ops.append("t" + str(rng.randint(-1, 2)))
        else:
            ops.append("A" + str(rng.randint(0, 2)))
    return ops


def gen_hooks(rng, p_any):
    if rng.random() > p_any:
        return "-"
    parts = []
    for pt in "secp":
        if rng.random() < 0.35:
            parts.append(pt + ":" + ";".join(gen_hook_ops(rng)))
    return "|".join(parts) or "-"


def gen_next_hooks(rng, prof):
    """hook point `n` — pool calls a worker makes each time it resumes from an await and goes on to a later one — for a
    gated worker that has later awaits (modes g1 / g2).  Drawn from a *copy* of the generator's state, so the history
    around the spec is the one the same seed produced before the point existed."""
    p_n = min(0.6, 2 * prof["hooks"])
    if p_n <= 0:
        return None
    sub = random.Random()
    sub.setstate(rng.getstate())
    if sub.random() >= p_n:
        return None
    return "n:" + ";".join(gen_hook_ops(sub))


def gen_spec(rng, prof, ctx=None):
    """[mode, swallow, end cb, cancel cb, bad call, is coroutine function, hooks]
    mode: r = returns at once, x = raises at once, g = gated (one suspension point), g1 / g2 = gated with one / two further
    suspension points (a modest share of the gated workers of every profile: `multi_await`)"""
    hooks = gen_hooks(rng, prof["hooks"])
    cbs = prof.get("cbs", CBS)
    # swallow: 0 = the worker lets a CancelledError through, 1 = catches it and returns, 2 = catches the first one and goes
    # on awaiting (and lets the next one through)
    mode = rng.choice(prof.get("modes", "ggggrx"))
    if mode == "g" and rng.random() < prof.get("multi_await", 0.2):
        mode = "g" + rng.choice("12")
        nxt = gen_next_hooks(rng, prof)
        if nxt is not None:
            hooks = nxt if hooks == "-" else hooks + "|" + nxt
    if ctx is not None and has_unlock(hooks):
        if ctx.closing:
            hooks = "-"
        else:
            ctx.unlock_hooks = True
    return [mode, rng.choice(prof.get("sw", "0001")), rng.choice(cbs), rng.choice(cbs),
            rng.choice("00001"), rng.choice("1111111110"), hooks]


def has_unlock(hooks):
    return any(op == "u" for part in hooks.split("|") if ":" in part for op in part.split(":")[1].split(";"))


def pick(rng, weights):
    tot = sum(weights.values())
    x = rng.random() * tot
    for k, v in weights.items():
        x -= v
        if x < 0:
            return k
    return k


class Run:
    """one history executed on the implementation"""

    def __init__(self):
        self.W = ImplWorld()
        self.lines = ["reset " + str(self.W.base)]
        self.obs = ["reset"]
        self.extras = [None]

    def do(self, toks):
        toks, res = self.W.do(toks)
        if len(toks) >= 4 and toks[0] == "on" and toks[2] == "set_size" and res == "ok" and int(toks[1]) < len(self.W.pools):
            ctx = self.W.pools[int(toks[1])]
            if ctx.nreq == 0 and not getattr(ctx, "resized", False):
                ctx.size = toks[3]          # assigned before the first request: the size the capacity probe goes by
            ctx.resized = True
        o, ex = self.W.obs(res)
        self.lines.append(" ".join(toks))
        self.obs.append(o)
        self.extras.append(ex)
        return res

    def mark(self, what):
        self.lines.append("mark " + what)
        self.obs.append("mark")
        self.extras.append(None)

    def idle(self, cap=600):
        for _ in range(cap):
            if self.do(["run"]) == "noop":
                return True
        return False

    def pending(self):
        out = []
        for i, ctx in enumerate(self.W.pools):
            for t, f in ctx.futs.items():
                if not f.done():
                    out.append((i, t))
        return out

    def winddown(self, rounds=80):
        for _ in range(rounds):
            if not self.idle():
                return False
            pend = self.pending()
            if not pend:
                return True
            for i, t in pend:
                self.do(["on", str(i), "gate", str(t), "ok"])
        return self.idle() and not self.pending()

    def close(self):
        self.W.close()

    def result(self):
        return {"lines": self.lines, "obs": self.obs, "extras": self.extras,
                "loopexc": [type(c.get("exception")).__name__ for c in self.W.loopexc if c.get("exception") is not None]}


def gen_mkpool(rng, prof, R):
    size = rng.choice(prof["sizes"])
    # pool names: none, ordinary ones, and ones with characters that formatting code may trip over
    name = rng.choice(["-", "-", "-", "pp", "qq", "50%", "a{0}b", "%s", "''"])
    if rng.random() < prof["badpool"]:
        size = "-1"
    if rng.random() < prof["simple"]:
        sp = gen_spec(rng, prof)
        if rng.random() > prof["badpool"]:
            sp[5] = "1"
        R.do(["mkpool", "simple", size, name] + sp)
        if R.W.pools and has_unlock(sp[6]):
            R.W.pools[-1].unlock_hooks = True
    else:
        R.do(["mkpool", "task", size, name])
    if R.W.pools and rng.random() < prof.get("early_resize", 0.0):
        # the size is assigned right after construction, before the pool is asked for anything
        R.do(["on", str(len(R.W.pools) - 1), "set_size", str(rng.choice([0, 1, 1, 2, 2, 3, 4]))])


def gen_op(rng, prof, R):
    W = R.W
    if not W.pools:
        gen_mkpool(rng, prof, R)
        return
    i = rng.randrange(len(W.pools))
    ctx = W.pools[i]
    simple = ctx.kind == "simple"
    on = ["on", str(i)]
    k = pick(rng, prof["w"])
    hp = prof["hooks"]
    nums = prof.get("nums", [-1, 0, 1, 1, 2, 2, 3])
    if k == "spawn":
        if simple:
            R.do(on + ["start", str(rng.choice(nums))])
        else:
            sp = gen_spec(rng, prof, ctx)
            R.do(on + ["apply", str(rng.choice(nums)), rng.choice(GROUP_CHOICES)] + sp)
    elif k == "spawn2":
        if simple:
            R.do(on + (["stop", str(rng.randint(-1, 3))] if rng.random() < 0.8 else ["stop_all"]))
        else:
            stars = rng.choice([0, 1, 2])
            n = rng.randint(0, prof.get("maxitems", 5))
            items = "".join(("1" if stars and rng.random() < 0.15 else "0") for _ in range(n)) or "-"
            if items != "-" and stars and rng.random() < prof.get("empty_elems", 0.0):
                # some elements are empty: `()` for starmap, `{}` for doublestarmap (func is then called without arguments)
                items = "".join(("3" if c == "0" and rng.random() < 0.5 else c) for c in items)
            if items != "-" and rng.random() < prof.get("iter_raise", 0.0):
                k = rng.randrange(len(items))       # the iterator raises at position k: nothing after it is ever reached
                items = items[:k] + "2" + items[k + 1:]
            sp = gen_spec(rng, prof, ctx)
            R.do(on + ["map", str(stars), items, str(rng.choice(prof.get("ncs", [0, 1, 1, 2, 2, 3]))),
                       rng.choice(GROUP_CHOICES), sp[0], sp[1], sp[2], sp[3], sp[5], sp[6]])
    elif k == "cancel":
        R.do(on + ["cancel"] + [str(rng.randint(-1, 9)) for _ in range(rng.randint(0, 3))])
    elif k == "cancel_group":
        g = rng.choice(ctx.names + ["nope"]) if ctx.names else "nope"
        R.do(on + ["cancel_group", enc_name(g)])
    elif k == "cancel_all":
        R.do(on + ["cancel_all"])
    elif k == "lock":
        R.do(on + ["lock"])
    elif k == "unlock":
        if ctx.closing and not prof.get("unlock_while_closing"):
            return          # documented usage contract of gather_and_close (known finding R9 is replayed separately)
        R.do(on + ["unlock"])
    elif k == "set_size":
        R.do(on + ["set_size", str(rng.choice(prof["set_sizes"]) if prof.get("set_sizes") else rng.randint(-1, 4))])
    elif k == "get_ids":
        names = [rng.choice(ctx.names + ["nope"]) if ctx.names else "nope" for _ in range(rng.randint(0, 3))]
        R.do(on + ["get_ids"] + [enc_name(n) for n in names])
    elif k == "flush":
        R.do(on + ["flush", rng.choice("01")])
    elif k == "gac":
        if ctx.unlock_hooks and not prof.get("unlock_while_closing"):
            return
        ctx.closing = True
        R.do(on + ["gac", rng.choice("01")])
    elif k == "until_closed":
        R.do(on + ["until_closed"])
    elif k == "gate":
        pend = [t for t, f in ctx.futs.items() if not f.done()]
        t = str(rng.choice(pend)) if pend and rng.random() < 0.9 else str(rng.randint(0, 9))
        R.do(on + ["gate", t, "exc" if rng.random() < prof.get("exc_gate", 0.2) else "ok"])
    elif k == "run":
        for _ in range(rng.randint(1, 5)):
            if rng.random() < prof["nonfifo"]:
                R.do(["run", str(rng.randint(0, 3))])
            else:
                R.do(["run"])
    elif k == "mkpool":
        gen_mkpool(rng, prof, R)
    else:
        raise AssertionError(k)


def capacity_probe(R):
    """at quiescence an N-sized pool must again run N tasks at once (C02)"""
    R.mark("probe")
    for i, ctx in enumerate(R.W.pools):
        if ctx.size in ("inf", "0"):
            continue
        n = ctx.size
        on = ["on", str(i)]
        R.do(on + ["unlock"])
        if ctx.kind == "simple":
            res = R.do(on + ["start", n])
        else:
            res = R.do(on + ["apply", n, "-", "g", "0", "n", "n", "0", "1", "-"])
        R.idle()
        R.do(on + ["get_ids"] + ([enc_name(res[5:])] if res.startswith("name:") else []))
    R.winddown()


def finish(R, winddown=True, probe=True):
    """release everything, reach quiescence, then the capacity probe"""
    if winddown:
        R.mark("winddown")
        quiet = R.winddown()
        R.mark("quiet" if quiet else "busy")
        if probe and quiet:
            capacity_probe(R)


def generate(rng, prof):
    R = Run()
    try:
        gen_mkpool(rng, prof, R)
        if rng.random() < prof["multi"]:
            for _ in range(rng.randint(1, 2)):
                gen_mkpool(rng, prof, R)
        n = rng.randint(3, prof["maxlen"])
        for _ in range(n):
            gen_op(rng, prof, R)
        finish(R, prof["winddown"], prof["probe"])
    finally:
        R.close()
    return R.result()


def body_of(lines):
    """the op lines of a history without the reset line and without the regenerated tail"""
    out = []
    for ln in lines:
        toks = ln.split()
        if not toks or toks[0] == "reset":
            continue
        if toks[0] == "mark" and toks[1] == "winddown":
            break
        if toks[-1].startswith("@"):
            toks = toks[:-1]
        out.append(" ".join(toks))
    return out


def replay(lines, winddown=True, probe=True):
    """re-executes the body of a history (cancel orders are re-observed), then regenerates the wind-down tail"""
    had_tail = any(ln.startswith("mark winddown") for ln in lines)
    R = Run()
    try:
        for ln in body_of(lines):
            toks = ln.split()
            if toks[0] == "mark":
                R.mark(" ".join(toks[1:]))
                continue
            R.do(toks)
        if had_tail:
            finish(R, winddown, probe)
    finally:
        R.close()
    return R.result()
