"""A package whose sub-module `deep` is imported by nobody: the dotted path `harness.pkgx.deep.w3` leads through an
already imported package to a module that still has to be imported (what `logging.config` resolves without ado)."""
