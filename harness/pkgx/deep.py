"""see the package docstring"""
from .. import wmod


async def w3(*args, **kwargs):
    """as `harness.wmod.w`"""
    wmod.STARTED.append((args, tuple(sorted(kwargs.items()))))
    gate = wmod.GATE
    await gate.wait()
    return len(args)
