"""Per-property configuration of the M1 (pool machine) checks: generator profile, projection of the lock-step
diff (DESIGN §3.3), monitors, theorems, budgets."""
import os

from . import gen

# name -> (pool fields, event kinds, strip callback counters, strip worker args)
PROJ = {
    "C01": (["n", "f"], ("worker",), True, True),
    "C02": (["n", "c", "e", "f"], ("worker", "cb"), True, True),
    "C03": (["n", "c", "e"], ("worker", "cb"), False, True),
    "C04": (["g"], ("worker",), True, False),
    "C05": (["g"], ("worker", "pull"), True, False),
    "C06": (["n", "c", "e"], ("worker",), True, True),
    "C07": (["g", "n"], ("worker", "pull"), True, True),
    "C08": (["z", "api", "n", "c", "e"], ("worker",), True, True),
    "C09": (["l", "z", "g", "n"], ("pull",), True, True),
    "C10": (["g"], (), True, True),
    "C11": (["nm", "g"], ("worker", "cb"), True, True),
    "C12": (["api", "n", "c", "e"], ("worker", "cb"), True, True),
    "C13": (["n", "c", "e", "api"], ("cb",), True, True),
    "C14": (["n"], ("worker",), True, True),
    "C15": (["s", "f", "n", "c"], ("worker",), True, True),
}

NO_SIZE = {"set_size": 0}

PROFILES = {
    "C01": gen.profile(hooks=0.35, w=dict(NO_SIZE, spawn=18, spawn2=14, gate=14, run=30), early_resize=0.25),
    "C02": gen.profile(hooks=0.25, w=dict(NO_SIZE, cancel=12, cancel_group=8, cancel_all=4, flush=8), early_resize=0.15),
    "C03": gen.profile(hooks=0.25, w=dict(NO_SIZE, cancel=12, cancel_group=6, flush=5), cbs="nppccx"),
    "C04": gen.profile(hooks=0.0, simple=0.4, multi=0.3, sizes=["1", "1", "2", "2", "3", "4", "inf"], set_sizes=[1, 2, 3, 4],
                       w=dict(set_size=2, spawn=22, spawn2=4, lock=7, gac=3, cancel=8, cancel_group=2, cancel_all=1)),
    "C05": gen.profile(hooks=0.0, simple=0.0, w=dict(NO_SIZE, spawn=4, spawn2=24, cancel=8, cancel_group=2, cancel_all=1, gate=16),
                       empty_elems=0.25),
    "C06": gen.profile(hooks=0.1, w=dict(NO_SIZE, cancel=22, flush=6, cancel_group=3, cancel_all=1), sw="00001222"),
    "C07": gen.profile(hooks=0.3, w=dict(NO_SIZE, cancel_group=16, cancel_all=6, spawn=14, spawn2=14)),
    "C08": gen.profile(hooks=0.15, w=dict(NO_SIZE, gac=8, until_closed=5, cancel_group=6, cancel_all=3, spawn2=14),
                       iter_raise=0.1),
    "C09": gen.profile(hooks=0.1, badpool=0.1, w=dict(spawn=20, spawn2=20, lock=8, unlock=8, gac=4, set_size=4)),
    "C10": gen.profile(hooks=0.2, w=dict(NO_SIZE, get_ids=12, cancel_group=8, spawn=16, spawn2=14)),
    "C11": gen.profile(hooks=0.2, multi=0.5, w=dict(NO_SIZE, flush=8, cancel=8, mkpool=2)),
    "C12": gen.profile(hooks=0.0, w=dict(NO_SIZE, flush=10, gac=5, gate=16), cbs="nnpcxx", modes="gggrxx", exc_gate=0.4),
    "C13": gen.profile(hooks=0.1, w=dict(NO_SIZE, flush=16, cancel=14, gate=18, gac=0), cbs="nccccpx", iter_raise=0.2),
    "C14": gen.profile(hooks=0.1, simple=1.0, w=dict(NO_SIZE, spawn=18, spawn2=20, cancel=8, gate=12), sw="00001222"),
    "C15": gen.profile(hooks=0.0, w=dict(set_size=12, spawn=16, spawn2=10)),
}

BUDGET = {"quick": int(os.environ.get("VERIF_QUICK_BUDGET", "36000")), "thorough": 400000}

M1_PROPS = sorted(PROJ)
