"""Control world (M3): member-table extraction from the real classes, the lexer that turns a command line into the
model's structured tokens, in-memory sessions over the real `ControlSession`, and direct application of a model
verdict to a twin pool."""
import ast
import warnings
import asyncio
import inspect
import io
import json
import logging
import re

from asyncio_taskpool import SimpleTaskPool, TaskPool
from asyncio_taskpool.control.parser import ControlParser
from asyncio_taskpool.control.server import UnixControlServer
from asyncio_taskpool.control.session import ControlSession


def resolve_dotted_path(dotted_path):
    """the harness's OWN resolver (the algorithm of `logging.config`): what a dotted path means *now* — the library's
    function of the same name is part of the code under test and must not be its own oracle"""
    import importlib
    names = dotted_path.split(".")
    used = names.pop(0)
    found = importlib.import_module(used)
    for name in names:
        used += "." + name                       # the path walked so far, whether or not it had to be imported
        try:
            found = getattr(found, name)
        except AttributeError:
            importlib.import_module(used)
            found = getattr(found, name)
    if dotted_path.startswith("harness.pkgx."):
        wmod.forget_deep()
    return found


from . import control_classes, model, wmod

logging.getLogger("asyncio_taskpool").addHandler(logging.NullHandler())
logging.getLogger("asyncio_taskpool").propagate = False     # the library *logs* conversion failures; that is not printing

CLASSES = {"TaskPool": TaskPool, "SimpleTaskPool": SimpleTaskPool,
           "PlusPool": control_classes.PlusPool, "SimplePlus": control_classes.SimplePlus,
           # witness classes of known findings (never part of a sweep)
           "HelpParamPool": control_classes.HelpParamPool, "UnderscoreParamPool": control_classes.UnderscoreParamPool,
           "CommandParamPool": control_classes.CommandParamPool, "AliasPool": control_classes.AliasPool}
WIDTHS = [-5, 0, 1, 20, 80, 10 ** 6]
SPINS = 60


class HarnessTimeout(Exception):
    """a bounded wait of the harness itself ran out (exit 2, never a VIOLATION)"""


def hx(s):
    return s.encode("utf-8", "surrogatepass").hex()


def unhx(h):
    return bytes.fromhex(h).decode("utf-8", "surrogatepass")


# ------------------------------------------------------------------------------------------------ table
def conv_of(annotation):
    """converter kind of an annotation — an independent reading of what the parser does with it; the real parser's
    `type=` of every action is diffed against this on every run"""
    if not isinstance(annotation, str):
        if annotation in (int, str, float, bool):
            return annotation.__name__
        return None
    parts = [p.strip() for p in annotation.split("|") if p.strip() != "None"]
    text = parts[0] if len(parts) == 1 else annotation
    if text in ("bool", "int", "float", "str"):
        return text
    if text.startswith("Callable") or text in ("AnyCoroutineFunc", "EndCB", "CancelCB"):
        return "dotted"
    if text.startswith(("Iterable", "Mapping")) or text in ("ArgsT", "KwArgsT", "_P.args", "_P.kwargs"):
        return "literal"
    return "str"


def param_entry(p):
    conv = conv_of(p.annotation)
    if conv is None:
        raise RuntimeError(f"annotation {p.annotation!r} of parameter {p.name} is outside the modelled table")
    has_default = p.default is not p.empty
    if p.kind == p.VAR_POSITIONAL:
        kind = "var"
    elif not has_default:
        kind = "pos"
    elif conv == "bool":
        kind = "flag"
    else:
        kind = "opt"
    if p.kind in (p.POSITIONAL_OR_KEYWORD, p.POSITIONAL_ONLY):
        pas = "position"
    elif p.kind == p.VAR_POSITIONAL:
        pas = "star"
    else:
        pas = "keyword"
    return {"name": p.name, "kind": kind, "pass": pas, "conv": conv, "has_default": has_default,
            "default": p.default if has_default else None}


def extract(cls):
    """every member `inspect.getmembers` reports, public or not"""
    out = []
    for name, member in inspect.getmembers(cls):
        if inspect.isfunction(member):
            public = not name.startswith("_")
            ps = []
            for p in inspect.signature(member).parameters.values():
                if p.name == "self":
                    continue
                if public:
                    ps.append(param_entry(p))
                else:
                    try:
                        ps.append(param_entry(p))
                    except RuntimeError:
                        ps = []
                        break
            out.append({"name": name, "kind": "function", "params": ps, "coro": inspect.iscoroutinefunction(member)})
        elif isinstance(member, property):
            if member.fset is None:
                out.append({"name": name, "kind": "propro", "params": []})
            else:
                _, p = inspect.signature(member.fset).parameters.values()
                out.append({"name": name, "kind": "proprw", "params": [param_entry(p)]})
        else:
            out.append({"name": name, "kind": "other", "params": []})
    return out


def table_lines(members):
    lines = ["table"]
    for m in members:
        lines.append(f"member {hx(m['name'])} {m['kind']}")
        for p in m["params"]:
            lines.append(f"param {hx(p['name'])} {p['kind']} {p['pass']} {p['conv']}")
    return lines


def commands_of(members):
    """public commands as the *harness* reads the property text (monitor side, independent of the model)"""
    return {m["name"].replace("_", "-"): m for m in members
            if not m["name"].startswith("_") and m["kind"] in ("function", "propro", "proprw")}


def real_spec(cls, width=80):
    """the argparse actions the real parser builds for the class: {command: [action spec]}"""
    buf = io.StringIO()
    parser = ControlParser(stream=buf, terminal_width=width, prog="", usage="x")
    parser.add_subparsers(title="Commands")
    built = parser.add_class_commands(cls)
    out = {}
    for member_name, sp in built.items():
        acts = []
        helps = []
        for a in sp._actions:
            if a.dest == "help":
                helps.append(list(a.option_strings))
                continue
            acts.append({"dest": a.dest, "opts": list(a.option_strings), "nargs": a.nargs,
                         "default": a.default, "type": getattr(a.type, "__name__", None),
                         "action": type(a).__name__})
        out[sp.prog] = {"member": member_name, "actions": acts, "help": helps}
    return out


# ------------------------------------------------------------------------------------------------ lexer
NEGATIVE = re.compile(r"^-\d+$|^-\d*\.\d+$")           # argparse._negative_number_matcher
DOTTED_OK = re.compile(r"^harness\.(wmod|pkgx)(\.\w+)*$")


def word_bits(tok):
    try:
        i = str(int(tok))
    except Exception:
        i = "-"
    try:
        float(tok)
        f = "1"
    except Exception:
        f = "0"
    try:
        with warnings.catch_warnings():
            warnings.simplefilter("ignore")      # the harness's own look at the token is silent
            ast.literal_eval(tok)
        lit = "1"
    except Exception:
        lit = "0"
    d = "0"
    if DOTTED_OK.match(tok):           # only the harness's own module is ever imported by the lexer
        try:
            resolve_dotted_path(tok)
            d = "1"
        except Exception:
            d = "0"
    return i, f + lit + d


def _strict_utf8(s):
    try:
        s.encode("utf-8")
        return True
    except UnicodeEncodeError:
        return False


def _word(tok):
    i, bits = word_bits(tok)
    return f"w:{hx(tok)}:{i}:{bits}"


def _suffix(text):
    """what stands behind a letter of a single-dash string: `~` nothing, else `<text>/<int or ->/<bits>`"""
    if text == "":
        return "~"
    i, bits = word_bits(text)
    return f"{hx(text)}/{i}/{bits}"


def lex(tok):
    """one blank-separated string of a command line (in front of the separator `--`) -> the model's structured token:
    `w:<text>:<int or ->:<float,literal,dotted bits>` word, `s:<c>` short flag, `l:<name>` long option string (exact or
    abbreviated), `e:<name>:<value>:<int or ->:<bits>` `--name=value` (argparse splits at the FIRST `=`; the value is
    lexed as a word is — it may be empty, start with `-`, contain `=`),
    `a:<c>:<eq>:<rest>:<int or ->:<bits>:<letters>` a single-dash string with more behind its first letter `c`: `-cREST`
    (`eq` 0) or `-c=REST` (`eq` 1: ONE `=` directly behind the first letter is taken away, as argparse does when `-c` is an
    option string); REST lexed as a word is, and REST read letter by letter, each letter with what stands behind it
    (`<letter>/~` or `<letter>/<text>/<int or ->/<bits>`, comma-separated),
    `p` the separator `--`, `o` everything else ("", a string that is no strict UTF-8)"""
    if tok == "":
        return "o"
    if not tok.startswith("-") or tok == "-" or NEGATIVE.match(tok):
        return _word(tok)
    if not _strict_utf8(tok):
        return "o"
    if tok.startswith("--"):
        if tok == "--":
            return "p"
        if "=" in tok:
            name, _, value = tok[2:].partition("=")
            i, bits = word_bits(value)
            return f"e:{hx(name)}:{hx(value)}:{i}:{bits}"
        return f"l:{hx(tok[2:])}"
    if len(tok) == 2:
        return f"s:{hx(tok[1])}"
    c, rest = tok[1], tok[2:]
    eq = rest.startswith("=")
    if eq:
        rest = rest[1:]
    i, bits = word_bits(rest)
    letters = ",".join(f"{hx(rest[k])}/{_suffix(rest[k + 1:])}" for k in range(len(rest)))
    return f"a:{hx(c)}:{int(eq)}:{hx(rest)}:{i}:{bits}:{letters}"


def lex_line(toks):
    """the strings of one command line: behind the FIRST `--` every string is a word whatever it looks like (argparse: "all
    args after -- are non-options"); a second `--` and the empty string stay outside"""
    out, after = [], False
    for t in toks:
        if after:
            out.append("o" if t in ("", "--") or not _strict_utf8(t) else _word(t))
        else:
            out.append(lex(t))
            after = t == "--"
    return out


def split_line(line):
    """what the session does with a received line"""
    return line.strip().split(" ")


def enc_tokens(line):
    return " ".join(lex_line(split_line(line)))


# ------------------------------------------------------------------------------------------------ verdicts
def parse_atom(s):
    k, _, v = s.partition(":")
    if k == "i":
        return ("int", int(v))
    if k == "s":
        return ("str", unhx(v))
    if k == "r":
        return ("raw", unhx(v))
    if k == "b":
        return ("bool", v == "1")
    raise ValueError(s)


def parse_val(s):
    if s == "d":
        return ("dflt",)
    if s.startswith("f:"):
        return ("flag", s == "f:1")
    if s.startswith("["):
        inner = s[1:-1]
        return ("many", [parse_atom(x) for x in inner.split(",") if x])
    return ("one", parse_atom(s))


def parse_named(s, sep=";"):
    out = []
    for part in s.split(sep):
        if not part:
            continue
        n, _, v = part.partition("=")
        out.append((unhx(n), parse_val(v)))
    return out


def parse_verdict(text):
    t = text.split(" ")
    if t[0] == "outside":
        return {"kind": "outside"}
    if t[0] == "help":
        return {"kind": "help", "of": None if t[1] == "-" else unhx(t[1])}
    if t[0] == "error":
        return {"kind": "error", "err": t[1]}
    if t[0] == "get":
        return {"kind": "get", "member": unhx(t[1])}
    if t[0] == "set":
        return {"kind": "set", "member": unhx(t[1]), "value": parse_atom(t[2])}
    if t[0] == "call":
        head, _, disp = text.partition(" # ")
        h = head.split(" ")
        args = parse_named(h[2]) if len(h) > 2 else []
        d = dict(x.partition("=")[::2] for x in disp.split(" "))
        return {"kind": "call", "member": unhx(h[1]), "args": args,
                "pos": _split_vals(d.get("pos", "")),
                "star": [parse_atom(x) for x in d.get("star", "").split(",") if x],
                "kw": parse_named(d.get("kw", ""))}
    raise ValueError(f"unreadable verdict {text!r}")


def _split_vals(s):
    """comma-separated values where a `[a,b]` group may itself contain commas"""
    out, depth, cur = [], 0, ""
    for ch in s:
        if ch == "[":
            depth += 1
        if ch == "]":
            depth -= 1
        if ch == "," and depth == 0:
            out.append(cur)
            cur = ""
        else:
            cur += ch
    if cur:
        out.append(cur)
    return [parse_val(x) for x in out]


ERR_PATTERNS = [("ambiguous", re.compile(r"^ambiguous option: ")),
                ("explicit-arg", re.compile(r"^argument \S+: ignored explicit argument ")),
                ("unknown-command", re.compile(r"invalid choice")),
                ("bad-value", re.compile(r"invalid \S+ value|occurred in parser trying to convert")),
                ("needs-value", re.compile(r"expected one argument")),
                ("missing", re.compile(r"the following arguments are required")),
                ("unrecognized", re.compile(r"unrecognized arguments"))]


def classify_reply(reply):
    """what kind of message a reply of the real session is: ('help', prog) / ('error', kind) / ('text', None)"""
    if reply.startswith("usage:"):
        if ": error: " in reply:
            msg = reply.split(": error: ", 1)[1]
            for kind, pat in ERR_PATTERNS:
                if pat.search(msg):
                    return ("error", kind)
            return ("error", "other")
        first = reply.split("\n", 1)[0]
        return ("help", first)
    return ("text", None)


# ------------------------------------------------------------------------------------------------ pools
def make_pool(cls_name, name="P"):
    cls = CLASSES[cls_name]
    if issubclass(cls, SimpleTaskPool):
        return cls(wmod.w, args=(1,), name=name)
    return cls(name=name)


def is_closed(pool):
    """public probe: one manual step of `until_closed()` (side-effect free, DESIGN §2)"""
    co = pool.until_closed()
    try:
        co.send(None)
    except StopIteration:
        return True
    else:
        co.close()
        return False


def observe(pool):
    extra = ()
    if isinstance(pool, control_classes._Extras):
        extra = (pool.mood, pool.level, tuple(map(repr, control_classes.journal(pool))))
    return (pool.num_running, pool.num_cancelled, pool.num_ended, pool.is_locked, str(pool.pool_size), pool.is_full,
            is_closed(pool)) + extra


async def spin(n=SPINS):
    for _ in range(n):
        await asyncio.sleep(0)


async def settle_pool(pool):
    """cancel whatever still runs so that the loop can be closed without noise"""
    try:
        pool.cancel_all()
    except Exception:
        pass
    wmod.release()
    await spin(20)


# ------------------------------------------------------------------------------------------------ sessions
class MemWriter:
    def __init__(self):
        self.writes = []
        self.closed = False

    def write(self, data):
        self.writes.append(bytes(data))

    async def drain(self):
        pass

    def close(self):
        self.closed = True


class MemServer(UnixControlServer):
    """the library's own server object for sessions over in-memory streams: never started (no socket is opened, the path
    is never touched), it only says that it serves.  Every session on one pool shares one of these, as the sessions of a
    real server do — whatever the sessions coordinate through their server is in force here as well."""

    def __init__(self, pool):
        super().__init__(pool, socket_path="/nonexistent/verif-mem-server.sock")
        self.serving = True

    def is_serving(self):
        return self.serving


_servers = {}


def server_of(pool):
    key = id(pool)
    if key not in _servers or _servers[key][0] is not pool:
        _servers[key] = (pool, MemServer(pool))
    return _servers[key][1]


def forget_servers():
    _servers.clear()


class MemSession:
    """a real ControlSession over in-memory streams"""

    def __init__(self, pool, own_server=False):
        self.pool = pool
        self.reader = asyncio.StreamReader()
        self.writer = MemWriter()
        self.server = MemServer(pool) if own_server else server_of(pool)
        self.session = ControlSession(self.server, self.reader, self.writer)
        self.task = None

    async def handshake(self, hello):
        """returns the replies to the handshake line (normally exactly one: the pool's name)"""
        self.reader.feed_data(hello.encode() + b"\n")
        try:
            await asyncio.wait_for(self.session.client_handshake(), 10)
        except asyncio.TimeoutError:
            raise HarnessTimeout("handshake did not return within 10 s")
        got = [w.decode() for w in self.writer.writes]
        self.writer.writes.clear()
        return got

    def start(self):
        self.task = asyncio.ensure_future(self.session.listen())

    def escaped(self):
        """the exception that left `listen()`, if any"""
        if self.task is not None and self.task.done() and not self.task.cancelled():
            return self.task.exception()
        return None

    def feed(self, line):
        # `@long:<n>` stands for a line of n printable characters (kept short in scripts, replays and reports)
        m = re.match(r"^@long:(\d+)$", line)
        if m:
            line = "x" * int(m.group(1))
        self.reader.feed_data(line.encode("utf-8", "surrogatepass") + b"\n")

    def eof(self):
        self.reader.feed_eof()

    def take(self):
        got = [w.decode("utf-8", "surrogatepass") for w in self.writer.writes]
        self.writer.writes.clear()
        return got

    async def send(self, line, spins=SPINS):
        """feed one line, run the loop until a reply was written (or the session died, or `spins` iterations passed)"""
        self.feed(line)
        for _ in range(spins):
            if self.writer.writes or (self.task is not None and self.task.done()):
                break
            await asyncio.sleep(0)
        await spin(3)      # a second write for the same line would show up here
        return self.take()

    async def finish(self):
        if self.task is not None and not self.task.done():
            self.task.cancel()
            try:
                await asyncio.wait_for(asyncio.gather(self.task, return_exceptions=True), 5)
            except asyncio.TimeoutError:
                raise HarnessTimeout("session task did not stop")


def hello_line(width):
    return json.dumps({"terminal_width": width})


# ------------------------------------------------------------------------------------------------ twin
def _conv_raw(conv, text):
    if conv == "literal":
        with warnings.catch_warnings():
            warnings.simplefilter("ignore")      # the twin's own conversion is silent
            return ast.literal_eval(text)
    if conv == "dotted":
        return resolve_dotted_path(text)
    if conv == "float":
        return float(text)
    raise RuntimeError(f"raw value for converter {conv}")


def _atom(conv, a):
    return _conv_raw(conv, a[1]) if a[0] == "raw" else a[1]


class Pending:
    """a direct call on the twin that is still waiting"""

    def __init__(self, task=None, session=None):
        self.task = task            # the direct call (translation validation)
        self.session = session      # the fresh oracle session (own-output oracle)


def _omitted(val):
    return val == ("dflt",) or val == ("flag", False)


def reply_of(result, getter=False):
    if isinstance(result, Exception):
        return str(result)
    if result is None and not getter:
        return "ok"
    return str(result)


async def apply_verdict(twin, members_by_name, v):
    """apply the model's verdict as a DIRECT method / property access; returns the expected reply text or Pending"""
    if v["kind"] == "get":
        try:
            return reply_of(getattr(twin, v["member"]), getter=True)
        except Exception as e:
            return str(e)
    if v["kind"] == "set":
        m = members_by_name[v["member"]]
        try:
            setattr(twin, v["member"], _atom(m["params"][0]["conv"], v["value"]))
            return "ok"
        except Exception as e:
            return str(e)
    m = members_by_name[v["member"]]
    ps = m["params"]
    by_pos = [p for p in ps if p["pass"] == "position"]
    star_p = [p for p in ps if p["pass"] == "star"]
    byname = {p["name"]: p for p in ps}
    if len(v["pos"]) != len(by_pos):
        raise RuntimeError("model dispatch is not aligned with the signature")
    pos = []
    vals = list(zip(by_pos, v["pos"]))
    if not v["star"]:
        while vals and _omitted(vals[-1][1]):
            vals.pop()                  # omitted trailing options: the method's own default applies
    for p, val in vals:
        if val[0] == "dflt":
            pos.append(p["default"])
        elif val[0] == "flag":
            pos.append(val[1])
        else:
            pos.append(_atom(p["conv"], val[1]))
    star = [_atom(star_p[0]["conv"], a) for a in v["star"]] if star_p else []
    kw = {}
    for n, val in v["kw"]:
        if _omitted(val):
            continue
        kw[n] = val[1] if val[0] == "flag" else _atom(byname[n]["conv"], val[1])
    meth = getattr(twin, v["member"])
    try:
        r = meth(*pos, *star, **kw)
    except Exception as e:
        return str(e)
    if inspect.isawaitable(r):
        task = asyncio.ensure_future(_guard(r))
        for _ in range(SPINS):
            if task.done():
                break
            await asyncio.sleep(0)
        if not task.done():
            return Pending(task)
        return reply_of(task.result())
    return reply_of(r)


async def _guard(aw):
    try:
        return await aw
    except Exception as e:
        return e


def model_verdicts(members, lines, extra=()):
    """the Lean model's verdict for every line (table sent first)"""
    tl = table_lines(members)
    inp = tl + ["parse " + enc_tokens(ln) for ln in lines] + list(extra)
    out = model.run_driver("cdriver", inp)
    return out[len(tl):]
