"""Greedy shrinking of a failing history: delete chunks of op lines while the failure persists."""
from . import gen


def shrink(lines, fails, max_rounds=6, budget=400):
    """`fails(body_lines) -> bool` re-runs a candidate; returns the smallest failing body found"""
    body = gen.body_of(lines)
    if not fails(body):
        return body
    spent = 0
    for _ in range(max_rounds):
        changed = False
        size = max(1, len(body) // 2)
        while size >= 1:
            i = 1 if body and body[0].startswith("mkpool") else 0
            while i < len(body):
                cand = body[:i] + body[i + size:]
                spent += 1
                if spent > budget:
                    return body
                if cand and fails(cand):
                    body = cand
                    changed = True
                else:
                    i += size
            size //= 2
        if not changed:
            break
    return body
