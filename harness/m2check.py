"""Engine for C20: the queue machine M2 (lean/Taskpool/Model/Queue.lean, driver `qdriver`) against the real
`asyncio_taskpool.queue_context.Queue`.

Per run: corpus first, then histories generated from VERIF_SEED; each is executed on the real queue one event-loop
handle at a time (harness/queue_world.py) and on the compiled Lean model; the observation streams are diffed line by
line and the C20 monitors are evaluated on the real run.  A monitor failure is a VIOLATION with a minimised history;
a broken proof / correspondence without a failing input is a VIOLATION `no-failing-input-found`."""
import collections
import glob
import hashlib
import json
import multiprocessing as mp
import os
import random
import time

from . import model, shrink
from . import queue_world as QW
from .leanproj import proof_coverage

ROOT = os.path.dirname(os.path.dirname(os.path.abspath(__file__)))
PROPS = ["C20"]
DRIVER = "qdriver"
BUDGET = {"quick": 40000, "thorough": 1000000}         # generated histories
MAXLEN = {"quick": 30, "thorough": 45}
SEARCH = {"quick": 40000, "thorough": 200000}           # extra monitor-only histories when proof/correspondence broke
# exhaustive small scope: every op sequence over ALPHABET up to this length (each followed by the wind-down)
ALPHABET = ["put 1", "spawn", "join", "cancel 0", "cancel 1", "gate 0 ok", "gate 0 exc", "gate 1 ok", "take", "run", "run 1"]
# second sub-space, bounded queue: `mkq 1` followed by every op sequence over ALPHABET_B up to the same length (the k-th
# `produce` of a history carries item 100+k, whatever the symbol says: the identity monitors need distinct items)
ALPHABET_B = ["put 1", "produce 100", "produce 101", "cancelp 0", "cancelp 1", "spawn", "gate 0 ok", "take", "join", "run", "run 1"]
ENUM_PREFIX_B = ["mkq 1"]
ENUM_LEN = {"quick": 4, "thorough": 5}


def corpus(prop):
    out = []
    for path in sorted(glob.glob(os.path.join(ROOT, "corpus", prop, "*.json"))):
        with open(path) as fh:
            d = json.load(fh)
        out.append((os.path.relpath(path, ROOT), d.get("ops") or d.get("body") or []))
    return out


def history(seed, i, maxlen):
    rng = random.Random(seed * 1000003 + i)
    profile = QW.PROFILES[i % len(QW.PROFILES)]
    return profile, QW.gen_ops(rng, profile, maxlen)


def enum_count(maxlen, alphabet=ALPHABET):
    return sum(len(alphabet) ** n for n in range(1, maxlen + 1))


def enum_history(i, alphabet=ALPHABET):
    """the i-th op sequence in length-then-lexicographic order"""
    n, b = 1, len(alphabet)
    while i >= b ** n:
        i -= b ** n
        n += 1
    ops = []
    for _ in range(n):
        ops.append(alphabet[i % b])
        i //= b
    return ops[::-1]


def enum_history_bounded(i):
    """the i-th history of the bounded sub-space: `mkq 1`, then the i-th sequence over ALPHABET_B with the produced items
    renumbered (k-th produce puts 100+k)"""
    ops, k = list(ENUM_PREFIX_B), 0
    for op in enum_history(i, ALPHABET_B):
        if op.startswith("produce"):
            op = f"produce {QW.PITEM + k}"
            k += 1
        ops.append(op)
    return ops


def model_obs(batches):
    """one driver process for many histories; returns the observation lines per history"""
    lines = []
    for b in batches:
        lines.append("reset")
        lines.extend(b)
    res = model.run_driver(DRIVER, lines)
    out, pos = [], 0
    for b in batches:
        out.append(res[pos + 1:pos + 1 + len(b)])
        pos += 1 + len(b)
    return out


def examine(r, mobs):
    fails = []
    if mobs is not None:
        j, fields = QW.first_mismatch(r["obs"], mobs)
        if j is not None:
            fails.append({"kind": "diff", "step": j, "detail": f"fields {fields}", "op": r["lines"][min(j, len(r['lines']) - 1)],
                          "impl": r["obs"][j] if j < len(r["obs"]) else None, "model": mobs[j] if j < len(mobs) else None})
    for (name, step, detail) in r["fails"]:
        fails.append({"kind": "monitor", "monitor": name, "step": step, "detail": detail})
    return fails


def work(job):
    kind, seed, start, count, maxlen, bodies, use_model = job
    runs = []
    for (name, ops) in bodies:
        runs.append((name, "corpus", ops))
    for i in range(start, start + count):
        if kind == "enum":
            runs.append((f"enum:{i}", "exhaustive", enum_history(i)))
        elif kind == "enumb":
            runs.append((f"enumb:{i}", "exhaustive-bounded", enum_history_bounded(i)))
        else:
            profile, ops = history(seed, i, maxlen)
            runs.append((f"gen:{seed}:{i}", profile, ops))
    results = [QW.execute(ops) for (_, _, ops) in runs]
    mobs, model_error = [None] * len(runs), None
    if use_model:
        try:
            mobs = model_obs([r["lines"] for r in results])
        except Exception as e:                      # driver missing / crashed: the correspondence cannot be checked
            model_error = repr(e)[:300]
    s = {"histories": 0, "lines": 0, "compared": 0, "stats": collections.Counter(), "failures": [], "digests": set(),
         "nontrivial": set(), "samples": [], "handles": 0, "diverging": 0, "model_error": model_error,
         "profiles": collections.Counter()}
    for (name, profile, ops), r, mo in zip(runs, results, mobs):
        fails = examine(r, mo)
        s["histories"] += 1
        s["lines"] += len(r["lines"])
        if mo is not None:
            s["compared"] += len(r["lines"])
        s["profiles"][profile] += 1
        for ln in r["lines"]:
            t = ln.split()
            s["stats"]["op:" + t[0]] += 1
            if t[0] == "run":
                s["handles"] += 1
                if len(t) > 1 and t[1] != "0":
                    s["stats"]["nonfifo-run"] += 1
        s["stats"].update(r["kinds"])
        dg = hashlib.sha1("\n".join(ops).encode()).hexdigest()[:16]
        s["digests"].add(dg)
        if r["taken"] > 0:
            s["nontrivial"].add(dg)
            if not any(x["profile"] == profile for x in s["samples"]):
                s["samples"].append({"source": name, "profile": profile, "ops": ops, "items_taken_by_blocks": r["taken"]})
        if any(f["kind"] == "diff" for f in fails):
            s["diverging"] += 1
        for f in fails:
            s["n_" + f["kind"]] = s.get("n_" + f["kind"], 0) + 1
            s["failures"].append(dict(f, source=name, ops=ops))
    # keep the shortest few per kind of failure (a broken library fails in most histories)
    keep, seen = [], collections.Counter()
    for f in sorted(s["failures"], key=lambda f: len(f["ops"])):
        key = (f["kind"], f.get("monitor"))
        if seen[key] < 3:
            seen[key] += 1
            keep.append(f)
    s["failures"] = keep
    return s


# ------------------------------------------------------------------------------------------------
def run_once(ops, use_model=True):
    r = QW.execute(ops)
    mobs = None
    if use_model:
        try:
            mobs = model_obs([r["lines"]])[0]
        except Exception:
            mobs = None
    return r, mobs, examine(r, mobs)


def shrink_failure(f, use_model=True):
    """smallest op list on which the same kind of failure (same monitor) persists; a leading `mkq n` is fixed (it is only
    meaningful as the first line): the rest is shrunk and the line is put back in front"""
    ops = list(f["ops"])
    head = ops[:1] if ops and ops[0].split()[:1] == ["mkq"] else []
    rest = ops[len(head):]

    def still(body):
        try:
            _, _, fails = run_once(head + list(body), use_model=(use_model and f["kind"] == "diff"))
        except Exception:
            return False
        return any(g["kind"] == f["kind"] and (f["kind"] != "monitor" or g["monitor"] == f["monitor"]) for g in fails)
    try:
        if head and not rest:
            return ops
        return head + shrink.shrink(rest, still, budget=300)
    except Exception:
        return ops


def sweep(seed, total, maxlen, jobs, bodies, use_model, offset=0, enum=0, enum_b=0):
    per = max(1, min(4000, -(-total // max(jobs * 3, 1))))
    jobl = [("gen", seed, offset + a, min(per, total - a), maxlen, [], use_model) for a in range(0, total, per)]
    if bodies:
        jobl.insert(0, ("gen", seed, 0, 0, maxlen, bodies, use_model))          # the corpus runs first
    jobl += [("enum", seed, a, min(2000, enum - a), maxlen, [], use_model) for a in range(0, enum, 2000)]
    jobl += [("enumb", seed, a, min(2000, enum_b - a), maxlen, [], use_model) for a in range(0, enum_b, 2000)]
    chunks = len(jobl)
    agg = {"histories": 0, "lines": 0, "compared": 0, "stats": collections.Counter(), "failures": [], "digests": set(),
           "nontrivial": set(), "samples": [], "handles": 0, "diverging": 0, "model_errors": [],
           "profiles": collections.Counter(), "n_monitor": 0, "n_diff": 0}
    with mp.Pool(max(1, min(jobs, chunks))) as pool:
        for s in pool.imap_unordered(work, jobl):
            for k in ("histories", "lines", "compared", "handles", "diverging"):
                agg[k] += s[k]
            agg["n_monitor"] += s.get("n_monitor", 0)
            agg["n_diff"] += s.get("n_diff", 0)
            agg["stats"].update(s["stats"])
            agg["profiles"].update(s["profiles"])
            agg["failures"].extend(s["failures"])
            agg["digests"] |= s["digests"]
            agg["nontrivial"] |= s["nontrivial"]
            for x in s["samples"]:
                if sum(1 for y in agg["samples"] if y["profile"] == x["profile"]) < 1:
                    agg["samples"].append(x)
            if s["model_error"]:
                agg["model_errors"].append(s["model_error"])
    return agg


def report_monitor_failures(prop, mons, out, reported):
    for f in sorted(mons, key=lambda f: len(f["ops"])):
        if f["monitor"] in reported:
            continue
        reported.add(f["monitor"])
        body = shrink_failure(f)
        r, mobs, fails = run_once(body)
        hit = [g for g in fails if g["kind"] == "monitor" and g["monitor"] == f["monitor"]]
        h = hit[0] if hit else f
        dj = [g for g in fails if g["kind"] == "diff"]
        out.violation({"kind": "monitor", "monitor": {"name": f["monitor"], "detail": h["detail"], "step": h["step"]},
                       "ops": body, "trace": list(zip(r["lines"], r["obs"]))[:200], "source": f["source"],
                       "model_agrees": (mobs is not None and not dj), "broken_obligation": None, "known_finding": None})


def run(prop, tier, seed, jobs, proof, out):
    bodies = corpus(prop)
    n_enum = enum_count(ENUM_LEN[tier])
    n_enum_b = enum_count(ENUM_LEN[tier], ALPHABET_B)
    agg = sweep(seed, BUDGET[tier], MAXLEN[tier], jobs, bodies, True, enum=n_enum, enum_b=n_enum_b)
    diffs = [f for f in agg["failures"] if f["kind"] == "diff"]
    mons = [f for f in agg["failures"] if f["kind"] == "monitor"]
    reported = set()
    report_monitor_failures(prop, mons, out, reported)
    searched = agg["histories"]
    broken = (not proof["ok"]) or bool(diffs) or bool(agg["model_errors"])
    if broken and not reported:
        # a proof obligation or the correspondence no longer checks: is there a failing input?  Escalated budget,
        # fresh histories (longer, other index range), monitors only.
        extra = sweep(seed, SEARCH[tier], MAXLEN[tier] + 15, jobs, [(f"diverging:{d['source']}", d["ops"]) for d in diffs[:50]],
                      False, offset=10**7)
        searched += extra["histories"]
        report_monitor_failures(prop, [f for f in extra["failures"] if f["kind"] == "monitor"], out, reported)
    if broken and not reported:
        what = []
        if not proof["ok"]:
            what.append({"proof": proof["problems"], "theorems": proof["theorems"]})
        if agg["model_errors"]:
            what.append({"model_driver": agg["model_errors"][:3]})
        if diffs:
            what.append("lock-step correspondence of M2 (Lean model qdriver vs asyncio_taskpool.queue_context.Queue)")
        payload = {"kind": "proof" if not proof["ok"] else ("diff" if diffs else "model-driver"), "broken_obligation": what,
                   "searched": {"histories": searched, "monitors_of": prop}, "known_finding": None}
        if diffs:
            d = sorted(diffs, key=lambda f: len(f["ops"]))[0]
            body = shrink_failure(d)
            r, mobs, fails = run_once(body)
            dd = [g for g in fails if g["kind"] == "diff"]
            payload.update({"ops": body, "first_divergence": (dd[0] if dd else {k: d[k] for k in d if k != "ops"}),
                            "source": d["source"], "trace": list(zip(r["lines"], r["obs"]))[:200],
                            "diverging_histories": agg["diverging"]})
        out.violation(payload, nofail=True)

    cov = proof_coverage(proof)
    st = agg["stats"]
    cov["trusted_base"] = [t for t in cov["trusted_base"] if "Semaphore" not in t] + [
        "CPython 3.12 asyncio (Task, Future, Queue, Event) is modelled, not verified"]
    cov.update({
        "evaluations": agg["histories"],
        "distinct_nontrivial": len(agg["nontrivial"]),
        "rule": "op histories generated from random.Random(VERIF_SEED*1000003+i) in three profiles (fifo: handles run in loop "
                "order; mixed/wild: `run k` picks the k-th ready handle, wild also names non-existent consumers / producers; every profile also emits `take` = get_nowait() + item_processed() by "
                "non-task code; about 45 % of the histories start with `mkq n`, n in 1..3 = Queue(maxsize=n), and are weighted "
                "towards `put` (put_nowait by non-task code, may raise QueueFull) and `produce 100+j` (a task awaiting queue.put) so that the queue is often full, producers block, "
                "and `cancelp j` hits producers while they wait and after get_nowait() woke them; the unbounded histories contain a few producers too), plus the "
                "corpus, plus every op sequence up to a small length over two reduced alphabets, one for the unbounded queue and one after `mkq 1` (exhaustive_small_scope); each executed on the real Queue one event-loop handle at a time (then wound down: all handles run, "
                "all open gates resolved) and on the Lean model; distinct = distinct generated op sequences; non-trivial = "
                "at least one item was handed to an `async with` block",
        "samples": sorted(agg["samples"], key=lambda x: x["profile"])[:5],
        "traces_validated_against_impl": agg["histories"] - agg["diverging"] if not agg["model_errors"] else 0,
        "observation_lines_compared": agg["compared"],
        "handles_run": agg["handles"],
        "diverging_histories": agg["diverging"],
        "monitor_findings": agg["n_monitor"],
        "monitors": ["task_done-raised-ValueError", "block-exit-marks-not-exactly-once", "mark-without-block-exit",
                     "marks-ne-block-exits", "cancelled-waiter-disturbed-queue", "join-blocked-with-nothing-outstanding",
                     "join-returned-early", "join-not-released", "task_done-outside-consumer", "item-taken-by-nobody",
                     "over-maxsize", "put-count-mismatch", "put-nowait-verdict", "cancelled-producer-disturbed-queue",
                     "cancelled-producer-item-appeared", "produced-item-duplicated", "producer-left-waiting"],
        "op_histogram": {k: v for k, v in sorted(agg["stats"].items()) if k.startswith("op:") or k == "nonfifo-run"},
        "exit_kind_histogram": {k[5:]: v for k, v in sorted(agg["stats"].items()) if k.startswith("exit:")},
        "hand_marked_items": agg["stats"].get("hand-marked", 0),
        "profile_histogram": dict(agg["profiles"]),
        "corpus_histories": len(bodies),
        "observed_fields": list(QW.FIELDS),
        "exhaustive": False,
        "bounded_queue": {
            "histories_with_bounded_queue": st.get("bq:histories", 0),
            "producers": st.get("bq:producers", 0),
            "producers_in_bounded_histories": st.get("bq:producers-in-bounded", 0),
            "producers_blocked": st.get("bq:blocked", 0),
            "producers_cancelled_before_first_step": st.get("bq:cancelled-before-start", 0),
            "producers_cancelled_while_waiting": st.get("bq:cancelled-while-waiting", 0),
            "producers_cancelled_after_woken": st.get("bq:cancelled-after-woken", 0),
            "producers_still_blocked_at_end": st.get("bq:still-waiting-at-end", 0),
            "queue_full_raised": st.get("bq:queue-full", 0),
            "items_put_by_producers": st.get("bq:items-put-by-producers", 0),
            "note": "producers_blocked = producers seen inside put() after an op (phase W); cancelled_while_waiting = W -> Dcan "
                    "(includes cancelled_after_woken = first cancelp arrived while the wake-up handle set by get_nowait() was "
                    "pending); queue_full_raised = `put` ops answered QueueFull"},
        "exhaustive_small_scope": {"alphabet": ALPHABET, "max_len": ENUM_LEN[tier], "histories": n_enum + n_enum_b, "complete": True,
                                   "unbounded": {"alphabet": ALPHABET, "histories": n_enum},
                                   "bounded": {"prefix": ENUM_PREFIX_B, "alphabet": ALPHABET_B, "histories": n_enum_b,
                                               "note": "the k-th produce of a history carries item 100+k"},
                                   "note": "every op sequence over each alphabet up to max_len (the bounded ones after the prefix), "
                                           "each followed by the wind-down; counted in evaluations"},
    })
    ev = {"property_id": prop, "tier": tier, "seed": seed, "level": "proof", "coverage": cov,
          "assumptions": [
              "theorems are about the hand-written Lean model lean/Taskpool/Model/Queue.lean (every maxsize m — a parameter of the "
              "initial state, op line `mkq m` — and every history of put / produce / cancelp / spawn / join / cancel / gate ok|exc / "
              "take / run k, any handle order); the tie to /repo is this run's lock-step correspondence",
              "unbounded queue (maxsize 0) or bounded queue with maxsize 1-3 fixed at the start of the history; items enter by "
              "put_nowait from non-task code (QueueFull on a full queue) or by producer tasks, each of which is exactly one "
              "`await queue.put(x)` and nothing more; consumer body = one suspension point (a harness gate), "
              "join tasks are never cancelled; the plain protocol is used next to the context manager only in the form "
              "`take` = get_nowait() immediately followed by one item_processed() from non-task code",
              "CPython 3.12.1 asyncio semantics as modelled (Task.cancel / must_cancel, Queue.get getter futures, Queue.put putter "
              "futures, _wakeup_next, Event.set/wait)"]}
    return ev


def replay(prop, path, out, args):
    with open(path) as fh:
        d = json.load(fh)
    body = d.get("ops") or d.get("body")
    if not body:
        print("replay file has no ops (proof/audit failure): rebuild with `cd lean && lake build`")
        return 1
    r, mobs, fails = run_once(body)
    for k, (ln, a) in enumerate(zip(r["lines"], r["obs"])):
        print(ln)
        print("   impl :", a)
        if mobs is not None and k < len(mobs) and QW.canon(a) != QW.canon(mobs[k]):
            print("   model:", mobs[k])
    if mobs is None:
        print("model driver unavailable: correspondence not checked")
    for f in fails:
        print(f)
    if fails:
        print(f"VIOLATION property={prop} replay={path}")
        return 1
    return 0
