"""Engine for C20 (queue machine M2)."""
PROPS = []
