"""Build of the Lean project and audit of the proofs a property rests on (DESIGN §2 steps 1-2)."""
import fcntl
import json
import os
import re
import subprocess
import time

ROOT = os.path.dirname(os.path.dirname(os.path.abspath(__file__)))
LEAN = os.path.join(ROOT, "lean")
ALLOWED_AXIOMS = {"propext", "Classical.choice", "Quot.sound"}
FORBIDDEN = re.compile(r"\bsorry\b|\badmit\b|^\s*axiom\s|native_decide|bv_decide|implemented_by|\bunsafe\s|maxHeartbeats\s+0")


def theorems():
    with open(os.path.join(LEAN, "theorems.json")) as fh:
        return json.load(fh)


def strip_comments(text):
    """remove /- … -/ (nested) and -- comments"""
    out = []
    i, depth, n = 0, 0, len(text)
    while i < n:
        if text.startswith("/-", i):
            depth += 1
            i += 2
        elif depth and text.startswith("-/", i):
            depth -= 1
            i += 2
        elif depth:
            if text[i] == "\n":
                out.append("\n")
            i += 1
        elif text.startswith("--", i):
            while i < n and text[i] != "\n":
                i += 1
        else:
            out.append(text[i])
            i += 1
    return "".join(out)


def grep_forbidden():
    hits = []
    for base, _, files in os.walk(LEAN):
        if ".lake" in base:
            continue
        for f in files:
            if not f.endswith(".lean"):
                continue
            path = os.path.join(base, f)
            with open(path) as fh:
                text = strip_comments(fh.read())
            for ln, line in enumerate(text.split("\n"), 1):
                if FORBIDDEN.search(line):
                    hits.append(f"{os.path.relpath(path, ROOT)}:{ln}: {line.strip()[:120]}")
    return hits


def lake(args, timeout):
    return subprocess.run(["lake"] + args, cwd=LEAN, capture_output=True, text=True, timeout=timeout)


def build_and_audit(prop, thorough=False):
    """returns a dict describing the proof side of the check; `ok` False = a proof obligation does not check"""
    t0 = time.time()
    info = {"ok": True, "problems": [], "theorems": [], "axioms": {}, "checker_cmd":
            "cd lean && lake build && lake env lean Audit.lean   (#print axioms per theorem; grep for sorry/axiom/native_decide)"}
    names = theorems().get(prop, [])
    info["theorems"] = names
    lock = open(os.path.join(ROOT, ".build.lock"), "w")
    fcntl.flock(lock, fcntl.LOCK_EX)
    try:
        r = lake(["build"], 3000)
        if r.returncode != 0:
            info["ok"] = False
            errs = [ln for ln in (r.stdout + r.stderr).split("\n") if "error" in ln][:12]
            info["problems"].append({"kind": "build", "detail": errs})
            # the drivers may still be buildable (model intact, only a proof broken)
            lake(["build", "tpdriver", "qdriver", "cdriver"], 3000)
            info["build_s"] = round(time.time() - t0, 2)
            return info
        hits = grep_forbidden()
        if hits:
            info["ok"] = False
            info["problems"].append({"kind": "audit-grep", "detail": hits[:12]})
        if names:
            audit = os.path.join(LEAN, ".lake", f"Audit_{prop}.lean")
            with open(audit, "w") as fh:
                fh.write("import Taskpool\nopen Taskpool\n")
                for n in names:
                    fh.write(f"#print axioms {n}\n")
            r = subprocess.run(["lake", "env", "lean", audit], cwd=LEAN, capture_output=True, text=True, timeout=1200)
            text = r.stdout + r.stderr
            if r.returncode != 0:
                info["ok"] = False
                info["problems"].append({"kind": "audit", "detail": [ln for ln in text.split("\n") if ln.strip()][:12]})
            for m in re.finditer(r"'([^']+)' depends on axioms: \[([^\]]*)\]", text.replace("\n", " ")):
                info["axioms"][m.group(1)] = sorted(a.strip() for a in m.group(2).split(",") if a.strip())
            for m in re.finditer(r"'([^']+)' does not depend on any axioms", text):
                info["axioms"][m.group(1)] = []
            for n in names:
                full = [k for k in info["axioms"] if k == n or k.endswith("." + n)]
                if not full:
                    info["ok"] = False
                    info["problems"].append({"kind": "missing-theorem", "detail": n})
                    continue
                extra = set(info["axioms"][full[0]]) - ALLOWED_AXIOMS
                if extra:
                    info["ok"] = False
                    info["problems"].append({"kind": "axioms", "detail": f"{n}: {sorted(extra)}"})
        if thorough and names:
            mods = sorted(set(theorems().get("_modules", {}).get(prop, [])))
            if mods:
                r = subprocess.run(["lake", "env", "leanchecker"] + mods, cwd=LEAN, capture_output=True, text=True, timeout=3000)
                info["leanchecker"] = {"modules": mods, "returncode": r.returncode}
                if r.returncode != 0:
                    info["ok"] = False
                    info["problems"].append({"kind": "leanchecker", "detail": (r.stdout + r.stderr)[-600:]})
    finally:
        fcntl.flock(lock, fcntl.LOCK_UN)
        lock.close()
    info["build_s"] = round(time.time() - t0, 2)
    return info


def proof_coverage(info):
    names = info["theorems"]
    discharged = 0 if not info["ok"] else len(names)
    names_s = " ".join(names)
    if "C20_" in names_s:
        modelled = "asyncio.Queue's put/get machinery and CPython 3.12 asyncio Tasks are modelled, not verified"
    elif any(f"C{n}_" in names_s for n in (16, 17, 18, 19)):
        modelled = ("argparse, inspect, json, ast.literal_eval, asyncio streams/Server and the OS socket layer are modelled "
                    "or sampled through the real code, not verified")
    else:
        modelled = "CPython 3.12 asyncio (Task, Future, Semaphore, Event, gather) is modelled, not verified"
    tb = ["Lean 4.33.0 kernel",
          "axioms: " + "; ".join(f"{k}: {v}" for k, v in sorted(info["axioms"].items())),
          "hand-written model tied to /repo by the correspondence check of this run (unverified Python harness)",
          modelled]
    return {"obligations": max(len(names), 1), "discharged": max(discharged, 0), "checker_cmd": info["checker_cmd"],
            "trusted_base": tb, "theorems": names, "proof_problems": info["problems"]}
