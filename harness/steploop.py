"""A SelectorEventLoop that is never run: the harness executes one ready handle at a time."""
import asyncio
import threading
from asyncio import events


class StepLoop(asyncio.SelectorEventLoop):
    def start(self):
        self._thread_id = threading.get_ident()
        events._set_running_loop(self)

    def stop_(self):
        events._set_running_loop(None)
        self._thread_id = None

    def live_handles(self):
        return [h for h in self._ready if not h._cancelled]

    def nready(self):
        return sum(1 for h in self._ready if not h._cancelled)

    def stepk(self, k=0):
        """execute the k-th ready (non-cancelled) handle; False if there is none"""
        live = self.live_handles()
        if k >= len(live):
            return False
        h = live[k]
        self._ready.remove(h)
        h._run()
        return True
