"""Generators of command lines for the control checks (C16–C19).  All randomness comes from the `random.Random`
handed in (seeded `VERIF_SEED*1000003+i` by the engine)."""
import itertools
import re

NEGATIVE_LIKE = re.compile(r"^-\d+$|^-\d*\.\d+$")      # argparse's negative-number rule: such a string is a word

INTS = ["0", "1", "2", "3", "-1", "7", "12"]
GROUPS = ["G", "H", "default", "apply-w-group-0", "map-w-group-0", "start-group-0", "start-group-1", "nope", "a-b"]
PRINTABLE = [chr(c) for c in range(33, 127)] + list("äßλж→✓")
ENV_OPS = ("@release", "@spin")
# commands for which a huge integer is an id / a size, not a number of tasks to create (asking a pool for 10**40 tasks is a
# busy loop by the method's own definition, through the control interface exactly as through a direct call)
BIG_OK = ("cancel", "pool-size", "cancel-group", "get-group-ids", "cancel-all", "is-locked", "lock")


def good_value(rng, p):
    conv, name = p["conv"], p["name"]
    if conv == "int":
        return rng.choice(INTS)
    if conv == "float":
        return rng.choice(["1.5", "2", "-0.5", "0.25"])
    if conv == "bool":
        return rng.choice(["yes", "0"])
    if conv == "dotted":
        if "callback" in name:
            return "harness.wmod.cb"
        return rng.choice(["harness.wmod.w", "harness.wmod.w", "harness.wmod.loud", "harness.wmod.notcoro", "harness.wmod.boom",
                           "harness.wmod.cur", "harness.wmod.cur", "harness.wmod.loud", "harness.pkgx.deep.w3"])
    if conv == "literal":
        if name == "args":
            return rng.choice(["(1,)", "(1,2)", "()", "[5]"])
        if name == "kwargs":
            return rng.choice(["{'x':1}", "{}", "{'x':1,'y':2}"])
        if name == "args_iter":
            return rng.choice(["[(1,2),(3,4)]", "[(1,)]", "[]"])
        if name == "kwargs_iter":
            return rng.choice(["[{'x':1},{'y':2}]", "[{}]", "[]"])
        # a literal may contain any string — also one with a backslash that is no escape sequence
        return rng.choice(["[1,2]", "[1,2,3]", "[]", "(4,5)", "[1,'\\d']"])
    # strings are passed through as they are: non-ASCII text and backslashes included
    return rng.choice(GROUPS + ["msg", "x1", "grüße", "a\\tb", "ж✓"])


def bad_value(rng, p):
    conv = p["conv"]
    # `==SUPPRESS==` is argparse's own sentinel string: typed by a client it is a value like any other
    if conv == "int":
        return rng.choice(["x", "1.5", "1e3", "--1", "0x", "==SUPPRESS=="])
    if conv == "float":
        return rng.choice(["x", "1,5", "==SUPPRESS=="])
    if conv == "dotted":
        return rng.choice(["harness.wmod.nope", "harness.wmod.w.nope", "nope7.nope", "harness..w", "==SUPPRESS==",
                           "harness.exitmod.x"])
    if conv == "literal":
        return rng.choice(["[1,", "foo", "1+", "{1:}", "(1,,)", "==SUPPRESS=="])
    return rng.choice(GROUPS)


def long_names(m):
    """the long option strings (without `--`) of the sub-parser of member `m`: `help` first, then the options"""
    return ["help"] + [p["name"].replace("_", "-") for p in m.get("params", []) if p["kind"] in ("opt", "flag")]


def resolves_to(prefix, longs):
    """argparse's reading of `--<prefix>`: the exact long option, else the only one it is a prefix of; None: unknown;
    a list: ambiguous (the harness's own statement of the rule — used to *generate* and to *count*, never to judge)"""
    if prefix in longs:
        return prefix
    hits = [n for n in longs if n.startswith(prefix)]
    if len(hits) == 1:
        return hits[0]
    return hits or None


def abbreviations(name, longs):
    """the proper non-empty prefixes of `name` that are unambiguous abbreviations of it"""
    return [name[:k] for k in range(1, len(name)) if resolves_to(name[:k], longs) == name]


def ambiguous_prefixes(longs):
    out = set()
    for n in longs:
        for k in range(0, len(n)):
            if isinstance(resolves_to(n[:k], longs), list):
                out.add(n[:k])
    return sorted(out)


def option_tokens(rng, p, flags, longs, value):
    """the strings of one option in one of the forms the parser accepts: `-f V`, `-fV`, `-f=V`, `--name V`, `--name=V`, an
    unambiguous abbreviation `--na V` / `--na=V`; a flag has no value (`-f`, `--name`, `--na`)"""
    full = p["name"].replace("_", "-")
    f = flags.get(p["name"])
    abbr = abbreviations(full, longs)
    r = rng.random()
    if r < 0.36 and f:
        if value is not None and r < 0.24:
            # the value in the same string: directly behind the letter (not an empty one: that is `-f` alone), or behind `=`
            if r < 0.12 and value != "":
                return ["-" + f + value]
            return ["-" + f + "=" + value]
        head, eq = "-" + f, False
    elif r < 0.50 or (r >= 0.70 and not abbr):
        head, eq = "--" + full, False
    elif r < 0.70:
        head, eq = "--" + full, True
    elif r < 0.87:
        head, eq = "--" + rng.choice(abbr), False
    else:
        head, eq = "--" + rng.choice(abbr), True
    if value is None:
        return [head]
    if eq:
        return [head + "=" + value]
    return [head, value]


def short_letters(m):
    """the option letters of the sub-parser of member `m` as the harness reads the rule (first letter unless `h` or taken,
    else its upper case, else none): {letter: "flag" | "opt" | "help"} — used to *generate* and to *count*, never to judge"""
    out = {"h": "help"}
    for p in m.get("params", []):
        if p["kind"] not in ("opt", "flag"):
            continue
        c = p["name"][0]
        if c != "h" and c not in out:
            out[c] = p["kind"]
        elif c.upper() not in out:
            out[c.upper()] = p["kind"]
    return out


def cluster_tokens(rng, run, last, flags, value):
    """several options in ONE single-dash string: the letters of the flags `run`, then possibly the letter of the option
    `last` with its value in the same string (`-abgV`) or in the next one (`-abg V`); sometimes `=` behind the first
    letter (`-a=bgV`: argparse drops it)"""
    letters = [flags[p["name"]] for p in run]
    text = "".join(letters[1:])
    tail = []
    if last is not None:
        text += flags[last["name"]]
        if value != "" and rng.random() < 0.5:
            text += value
        else:
            tail = [value]
    eq = "=" if text and rng.random() < 0.12 else ""
    return ["-" + letters[0] + eq + text] + tail


def command_line(rng, cmd, m, flags, subset=None, bad=0.0, opts_first=None):
    """a call of command `cmd` (member dict `m`): a value per positional, some values for a var-positional, the options in
    `subset` (default: a random subset), each in one of its forms (short, long, `=`, abbreviated).  With probability
    `bad` one defect is planted."""
    longs = long_names(m)
    if m["kind"] == "propro":
        if rng.random() < bad:
            return cmd + " " + rng.choice(["--he", "--h", "--help=1", "--x", "--x=1", "--=", "3"])
        return cmd
    if m["kind"] == "proprw":
        if rng.random() < 0.5:
            return cmd
        p = m["params"][0]
        if rng.random() < bad * 0.3:
            return cmd + " " + rng.choice(["--he", "--hel=1", "--x=1", "--="]) + rng.choice(["", " x"])
        value = bad_value(rng, p) if rng.random() < bad else good_value(rng, p)
        if rng.random() < 0.15:
            return cmd + " " + rng.choice(["-- " + value, value + " --", "--"])   # the setter's value is a positional string
        return cmd + " " + value
    ps = m["params"]
    opts = [p for p in ps if p["kind"] in ("opt", "flag")]
    if subset is None:
        subset = [p["name"] for p in opts if rng.random() < 0.4]
    pos, post = [], []
    plant = rng.random() < bad
    defect = rng.choice(["badval", "missing", "extra", "novalue", "unknown", "ambiguous", "explicit", "eqempty", "eqdash",
                         "badval", "refused", "unknownattached", "sepafter", "attdash", "helpcluster"]) if plant else None
    for p in ps:
        if p["kind"] == "pos":
            if defect == "missing":
                defect = "done"
                continue
            pos.append(bad_value(rng, p) if defect == "badval" and rng.random() < 0.6 else good_value(rng, p))
        elif p["kind"] == "var":
            for _ in range(rng.randint(0, 3)):
                pos.append(good_value(rng, p))
    chosen = [p for p in opts if p["name"] in subset]
    rng.shuffle(chosen)
    # flags that have a letter may share one single-dash string, closed by at most one option with a value
    lettered = [p for p in chosen if p["kind"] == "flag" and flags.get(p["name"])]
    if lettered and rng.random() < 0.7:
        run = lettered[:rng.randint(1, len(lettered))]
        valued = [p for p in chosen if p["kind"] == "opt" and flags.get(p["name"])]
        last = rng.choice(valued) if valued and rng.random() < 0.5 else None
        if len(run) > 1 or last is not None:
            value = None
            if last is not None:
                value = bad_value(rng, last) if defect == "badval" and rng.random() < 0.5 else good_value(rng, last)
            post += cluster_tokens(rng, run, last, flags, value)
            chosen = [p for p in chosen if p not in run and p is not last]
    for p in chosen:
        if p["kind"] != "opt":
            post += option_tokens(rng, p, flags, longs, None)
            continue
        if defect == "novalue" and rng.random() < 0.5:
            defect = "done"
            post.append(option_tokens(rng, p, flags, longs, None)[0])
            continue
        value = bad_value(rng, p) if defect == "badval" and rng.random() < 0.5 else good_value(rng, p)
        if p["conv"] == "str" and rng.random() < 0.1:
            value = rng.choice(["", "-x", "--x", "a=b", "=", "-1"])      # only legal behind `=`
            post.append("--" + rng.choice([p["name"].replace("_", "-")] + abbreviations(p["name"].replace("_", "-"), longs))
                        + "=" + value)
            continue
        post += option_tokens(rng, p, flags, longs, value)
    if defect == "extra":
        pos.append(rng.choice(INTS + ["zz"]))
    if defect == "unknown":
        post.append(rng.choice(["-z", "-Q", "--zzz", "-9x", "--zzz=1", "--Help", "--help-", "--zz=", "--" + longs[-1] + "x"]))
    if defect == "ambiguous":
        amb = ambiguous_prefixes(longs)
        named = [a for a in amb if a] or amb
        if named:
            a = rng.choice(named)
            tok = "--" + a + rng.choice(["", "", "=1", "=", "=x"])
            if tok == "--":
                tok = "--=1"
            post.insert(rng.randint(0, len(post)), tok)          # anywhere among the options: it is fatal wherever it stands
        else:
            post.append("--" + rng.choice(abbreviations("help", longs) or ["help"]))
    if defect == "explicit":
        # an option that takes no value is given one: a flag of the command, or its help action
        takers = [p["name"].replace("_", "-") for p in opts if p["kind"] == "flag"] + ["help"]
        n = rng.choice(takers)
        n = rng.choice([n] + abbreviations(n, longs))
        post.insert(rng.randint(0, len(post)), "--" + n + "=" + rng.choice(["x", "1", "", "True", "--", "0"]))
    if defect in ("eqempty", "eqdash"):
        valued = [p for p in opts if p["kind"] == "opt"]
        if valued:
            p = rng.choice(valued)
            n = p["name"].replace("_", "-")
            n = rng.choice([n] + abbreviations(n, longs))
            post.append("--" + n + "=" + ("" if defect == "eqempty" else "--"))
    letters = short_letters(m)
    if defect == "refused":
        # behind the letter of an option that takes no value: a character that is no option letter, or nothing but `=`
        takers = [c for c, k in letters.items() if k in ("flag", "help")]
        c = rng.choice(takers)
        junk = rng.choice([x for x in "xyz019_.%" if x not in letters])
        post.insert(rng.randint(0, len(post)), "-" + c + rng.choice(["=", junk, junk + "y", "=" + junk, rng.choice(takers) + junk]))
    if defect == "unknownattached":
        c = rng.choice([x for x in "zQ9_%" if x not in letters])
        post.insert(rng.randint(0, len(post)), "-" + c + rng.choice(["G", "=G", "1", "x=1", "hh", "="]))
    if defect == "attdash":
        valued = [c for c, k in letters.items() if k == "opt"]
        if valued:
            post.append("-" + rng.choice(valued) + rng.choice(["--", "=--"]))
    if defect == "helpcluster":
        # `-h` inside a single-dash string: help if every letter is one, whatever stands where
        fl = [c for c, k in letters.items() if k == "flag"]
        c = rng.choice(fl) if fl else "h"
        post.insert(rng.randint(0, len(post)), rng.choice(["-h" + c, "-" + c + "h", "-hh", "-h=" + c]))
    if opts_first is None:
        opts_first = rng.random() < 0.2
    # the separator `--`: in front of, inside or behind the positional strings; legal when no option follows them
    if (opts_first or not post) and rng.random() < (0.25 if pos or any(p["kind"] == "var" for p in ps) else 0.04):
        pos.insert(rng.randint(0, len(pos)), "--")
        if pos and pos[-1] != "--" and rng.random() < 0.15:
            pos.append(rng.choice(["-x", "--zz", "-1", "--" + longs[-1]]))      # behind `--` an option-like string is a word
    if defect == "sepafter":
        # options behind the positional strings and then `--` (possibly with more behind it): left over
        opts_first = False
        post.append("--")
        if rng.random() < 0.5:
            post.append(rng.choice(INTS + ["zz", "-x"]))
    toks = [cmd] + (post + pos if opts_first else pos + post)
    return " ".join(toks)


def line_forms(line, cmds):
    """which of the newer option forms a line uses (for the counters of the evidence file; the harness's own reading):
    eq (`--name=value`), abbrev (an unambiguous abbreviation), ambiguous, explicit (`--flag=v` / `--help=v`),
    unknown_long (a `--` string that is no option and no prefix of one)"""
    toks = line.strip().split(" ")
    out = set()
    if not toks or toks == [""]:
        return out
    if toks[0].startswith("--") and toks[0] != "--":
        name, has_eq, _ = toks[0][2:].partition("=")
        r = resolves_to(name, ["help"])
        if has_eq:
            out.add("eq")
        if r == "help" and name != "help":
            out.add("abbrev")
        if r == "help" and has_eq:
            out.add("explicit")
        return out
    if toks[0].startswith("-h") and len(toks[0]) > 2:
        out.add("cluster")                       # `-hh`, `-hx`, `-h=`: read letter by letter at the top level too
        return out
    m = cmds.get(toks[0])
    if m is None:
        return out
    longs = long_names(m)
    flagsy = {"help"} | {p["name"].replace("_", "-") for p in m.get("params", []) if p["kind"] == "flag"}
    letters = short_letters(m)
    if "--" in toks[1:]:
        out.add("separator")
        toks = toks[:toks.index("--", 1)]
    for t in toks[1:]:
        if t.startswith("-") and not t.startswith("--") and len(t) > 2 and not NEGATIVE_LIKE.match(t):
            kind = letters.get(t[1])
            if kind is None:
                out.add("unknown_attached")
            else:
                if t[2] == "=":
                    out.add("short_eq")
                if kind == "opt":
                    out.add("attached")
                else:
                    rest = t[3:] if t[2] == "=" else t[2:]
                    k, ok = 0, rest != ""
                    while ok and k < len(rest) and letters.get(rest[k]) in ("flag", "help"):
                        k += 1
                    if ok and k < len(rest) and letters.get(rest[k]) is None:
                        ok = False
                    out.add("cluster" if ok else "cluster_refused")
                    if ok and k < len(rest):
                        out.add("cluster_valued")
            continue
        if not t.startswith("--") or t == "--":
            continue
        name, has_eq, _ = t[2:].partition("=")
        r = resolves_to(name, longs)
        if has_eq:
            out.add("eq")
        if r is None:
            out.add("unknown_long")
        elif isinstance(r, list):
            out.add("ambiguous")
        else:
            if r != name:
                out.add("abbrev")
            if has_eq and r in flagsy:
                out.add("explicit")
    return out


def all_option_subsets(m):
    opts = [p["name"] for p in m["params"] if p["kind"] in ("opt", "flag")]
    for k in range(len(opts) + 1):
        for sub in itertools.combinations(opts, k):
            yield list(sub)


def junk_line(rng):
    """arbitrary printable text (never blank, no line break)"""
    n = rng.randint(1, 4)
    words = []
    for _ in range(n):
        k = rng.randint(1, 9)
        words.append("".join(rng.choice(PRINTABLE) for _ in range(k)))
    sep = rng.choice([" ", " ", "  ", "\t"])
    line = sep.join(words)
    return line if line.strip() else "x"


def malformed_line(rng, cmds):
    """command vocabulary bent out of shape: what a careless or hostile client might type"""
    cmd = rng.choice(sorted(cmds))
    m = cmds[cmd]
    return rng.choice([
        cmd + " --",
        "-- " + cmd,
        cmd + "  " + rng.choice(INTS),
        cmd + " --=x",
        cmd + " -" + rng.choice("abcnge") + rng.choice(INTS),
        cmd + " --" + rng.choice(["gro", "num", "he", "h", "ret", "end"]),
        cmd + " " + rng.choice(INTS) + " -n",
        cmd.upper(),
        cmd[:max(1, len(cmd) // 2)],
        cmd + " -h -h",
        cmd + " --help extra",
        "-h " + cmd,
        "--help=1",
        cmd + " '" + rng.choice(GROUPS),
        cmd + " (1, 2)",
        cmd + " \"\"",
        cmd + " " + ("9" * 40 if cmd in BIG_OK else "5"),
        cmd + " -" + "x" * rng.randint(2, 30),
        cmd + "\t" + rng.choice(INTS),
        "=" + cmd,
        cmd + " - -",
        cmd + " -1 -2 -x",
        cmd + " -h" + rng.choice(["h", "x", "=", "=h", "-"]),
        "-h" + rng.choice(["h", "x", "=", "=h", "hx"]) + rng.choice(["", " " + cmd]),
        cmd + " -- " + rng.choice(["-h", "--help", "--", "-x 1", ""]),
        cmd + " " + rng.choice(INTS) + " -- --",
        "exit",
        "{\"terminal_width\": 80}",
        cmd + " " + " ".join(rng.choice(INTS) for _ in range(rng.randint(2, 12))),
    ])


def session_line(rng, cmds, flags_by_cmd, profile):
    """one line for a session script; `profile` weights well-formed / defective / malformed / junk"""
    r = rng.random()
    good, defective, malformed = profile
    if r < good + defective:
        cmd = rng.choice(sorted(cmds))
        if rng.random() < 0.2:
            # commands whose options can share one single-dash string: a flag with a letter and at least one more lettered option
            rich = [c for c in sorted(cmds) if cmds[c]["kind"] == "function"
                    and "flag" in short_letters(cmds[c]).values() and len(short_letters(cmds[c])) >= 3]
            if rich:
                cmd = rng.choice(rich)
        if rng.random() < 0.08:
            return rng.choice([cmd + " -h", cmd + " --help", "-h", "--help", cmd + " --he", cmd + " --hel", cmd + " --h",
                               "--he", "--h " + cmd, "--hel=1", cmd + " --help=", cmd + " 1 --he", cmd + " -hh", "-hh",
                               cmd + " -h=h"])
        return command_line(rng, cmd, cmds[cmd], flags_by_cmd.get(cmd, {}), bad=(defective / (good + defective)))
    if r < good + defective + malformed:
        return malformed_line(rng, cmds)
    return junk_line(rng)
