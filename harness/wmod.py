"""Worker / callback module for dotted-path arguments of control commands (`harness.wmod.w`, `harness.wmod.cb` …)."""
from __future__ import annotations

import asyncio

GATE = None          # one asyncio.Event per scenario; set = every running worker returns
STARTED = []         # (args, kwargs) of every worker invocation, in order
LOUD_PRINTED = 0     # lines printed on sys.stdout by `loud` workers (user code may print; it is not the session's output)


def reset():
    global GATE, cur
    GATE = asyncio.Event()
    STARTED.clear()
    cur = w
    forget_deep()


def forget_deep():
    """`harness.pkgx.deep` is imported by nobody: whenever the code under test resolves a dotted path into it, the package
    is imported and the sub-module is not (the harness's own look-ups leave no trace)"""
    import sys
    from . import pkgx
    sys.modules.pop("harness.pkgx.deep", None)
    if hasattr(pkgx, "deep"):
        delattr(pkgx, "deep")


def swap():
    """`harness.wmod.cur` now names the other worker: a dotted path means what it means when the command is executed"""
    global cur
    cur = w2 if cur is w else w


def release():
    """every running worker returns; workers started later wait for the next release"""
    global GATE
    if GATE is not None:
        GATE.set()
    GATE = asyncio.Event()


async def w(*args, **kwargs):
    """waits until the scenario opens the gate"""
    STARTED.append((args, tuple(sorted(kwargs.items()))))
    gate = GATE
    await gate.wait()
    return len(args)


async def loud(*args, **kwargs):
    """as `w`, and prints a line on the process's stdout when it returns (user code may do that)"""
    global LOUD_PRINTED
    STARTED.append((args, tuple(sorted(kwargs.items()))))
    gate = GATE
    await gate.wait()
    LOUD_PRINTED += 1
    print("LOUD")
    return len(args)


async def w2(x=None, y=None):
    STARTED.append(((x, y), ()))
    gate = GATE
    await gate.wait()
    return x


class Boom17(Exception):
    pass


async def boom(*args, **kwargs):
    """a worker that fails at once: what a later flush / gather-and-close without --return-exceptions then raises"""
    STARTED.append((args, tuple(sorted(kwargs.items()))))
    raise Boom17("boom-17")


def cb(task_id):
    return None


def notcoro(x=None):
    return x


cur = w
