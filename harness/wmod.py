"""Worker / callback module for dotted-path arguments of control commands (`harness.wmod.w`, `harness.wmod.cb` …)."""
from __future__ import annotations

import asyncio

GATE = None          # one asyncio.Event per scenario; set = every running worker returns
STARTED = []         # (args, kwargs) of every worker invocation, in order


def reset():
    global GATE
    GATE = asyncio.Event()
    STARTED.clear()


def release():
    """every running worker returns; workers started later wait for the next release"""
    global GATE
    if GATE is not None:
        GATE.set()
    GATE = asyncio.Event()


async def w(*args, **kwargs):
    """waits until the scenario opens the gate"""
    STARTED.append((args, tuple(sorted(kwargs.items()))))
    gate = GATE
    await gate.wait()
    return len(args)


async def w2(x=None, y=None):
    STARTED.append(((x, y), ()))
    gate = GATE
    await gate.wait()
    return x


def cb(task_id):
    return None


def notcoro(x=None):
    return x
