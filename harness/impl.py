"""Drives the REAL asyncio_taskpool pool classes (imported from /repo's working tree) one event-loop handle at
a time and produces, after every operation, the same observation line the Lean driver prints.

Only public API of the library is used.  What is read of CPython's asyncio (the loop's ready deque, the Task a
handle is bound to) belongs to the interpreter, which is in the trusted base (DESIGN §2, §7)."""
import collections.abc
import asyncio
import functools
import inspect
import logging
import math
import re
import warnings

from .steploop import StepLoop

logging.disable(logging.CRITICAL)
warnings.simplefilter("ignore")

from asyncio_taskpool import SimpleTaskPool, TaskPool  # noqa: E402
from asyncio_taskpool import exceptions as X  # noqa: E402

TASK_RE = re.compile(r"^(.*)_Task-(\d+)$")



class _ROMap(collections.abc.Mapping):
    """a read-only mapping that is not a dict (no `.copy()`, no `update()`): legal as `kwargs`"""

    def __init__(self, d):
        self._d = dict(d)

    def __getitem__(self, k):
        return self._d[k]

    def __iter__(self):
        return iter(self._d)

    def __len__(self):
        return len(self._d)

    def __repr__(self):
        return f"ROMap({self._d!r})"

class Boom(Exception):
    pass


def parse_hooks(s):
    out = {"s": [], "e": [], "c": [], "p": [], "n": []}
    if s != "-":
        for part in s.split("|"):
            pt, ops = part.split(":")
            out[pt] = [o for o in ops.split(";") if o]
    return out


def dec_name(tok):
    """op lines are blank-separated: the empty string (a legal group name) travels as `''`"""
    return "" if tok == "''" else tok


EMPTY = object()          # the worker was called without any argument: an empty element of starmap / doublestarmap


def canon_arg(x, k, s):
    if x == 7 and k == 1 and s is None:
        return "a"
    if k == 0 and s is None and isinstance(x, int):
        return str(x)
    if k == 2 and s is None and isinstance(x, int):
        return "*" + str(x)
    if k == 0 and s == 3 and isinstance(x, int):
        return "**" + str(x)
    return "?" + re.sub(r"[^0-9A-Za-z]", "_", repr((x, k, s)))


class MethodHolder:
    """hands out a *bound method* as the worker (a plain method returning the coroutine, marked as a coroutine function, so
    that a call with unsuitable arguments still raises at call time)"""

    def __init__(self, f):
        self.f = f

    @inspect.markcoroutinefunction
    def worker(self, *a, **kw):
        return self.f(*a, **kw)


class CallableObject(list):
    """a callback that is a callable *object* — and, being a list, not hashable"""

    def __init__(self, f):
        super().__init__()
        self.f = f

    def __call__(self, *a, **kw):
        return self.f(*a, **kw)


class PoolCtx:
    """one real pool and everything the harness owns around it"""

    def __init__(self, world, pool, kind, size):
        self.world = world
        self.pool = pool
        self.kind = kind
        self.size = size            # configured size: int or "inf"
        self.ev = []                # event log since the last observation
        self.futs = {}              # task id -> harness future the task is suspended on
        self.cur_idx = {}           # request number -> index of the element its argument iterator handed out last
        self.names = []             # every group name ever returned, in order
        self.apis = []              # asyncio tasks running flush / gather_and_close / until_closed
        self.nreq = 0               # accepted spawn requests so far
        self.live = set()           # task ids whose worker has begun and not finished
        self.maxlive = 0            # maximum of len(live) since the last observation
        self.simple_holder = None
        self.closing = False        # generator bookkeeping: gather_and_close was requested
        self.unlock_hooks = False   # generator bookkeeping: some user code of this pool calls unlock()
        self.iter_log = []          # (request call number, inside the request call?) per `__iter__` of a re-iterable argument
        self.in_request = False

    def note_live(self):
        self.maxlive = max(self.maxlive, len(self.live))


class ImplWorld:
    def __init__(self):
        self.loop = StepLoop()
        self.orphans = []                        # futures returned by plain callbacks: nobody awaits them
        self.loop.start()
        self.loopexc = []
        self.loop.set_exception_handler(lambda l, c: self.loopexc.append(c))
        self.pools = []
        self.orders = []
        probe = TaskPool()
        m = re.match(r"^TaskPool-(\d+)$", str(probe))
        self.base = int(m.group(1)) + 1 if m else 0

    def close(self):
        self.loop.stop_()
        try:
            self.loop.close()
        except Exception:
            pass

    # ------------------------------------------------------------------ user code run by the pool
    def tid_of_current(self, ctx):
        name = asyncio.current_task().get_name()
        m = TASK_RE.match(name)
        if not m or m.group(1) != str(ctx.pool):
            return None, name
        return int(m.group(2)), name

    def own_group(self, ctx, holder):
        if holder.get("g") is not None:
            return holder["g"]
        tid, _ = self.tid_of_current(ctx)
        for n in ctx.names:
            try:
                if tid in ctx.pool.get_group_ids(n):
                    return n
            except X.InvalidGroupName:
                pass
        return "?"

    def run_hooks(self, ctx, hs, holder):
        for h in hs:
            ctx.ev.append("h[" + self.do_hook(ctx, h, holder) + "]")

    def cancel_order_call(self, ctx, fn):
        before = len(self.loop._ready)
        fn()
        self.orders.append(self.new_task_handles(ctx, before))

    def cancel_kw(self, ctx):
        """every other cancellation carries a message (`msg=`): same behaviour expected, different code path"""
        ctx.ncancel = getattr(ctx, "ncancel", 0) + 1
        return {"msg": f"m{ctx.ncancel}"} if ctx.ncancel % 2 == 0 else {}

    def do_hook(self, ctx, h, holder):
        p = ctx.pool
        k = h[0]
        arg = h[1:]
        try:
            if k == "c":
                p.cancel(*[int(x) for x in arg.split(",") if x], **self.cancel_kw(ctx))
                return "ok"
            if k in "go":
                g = arg if k == "g" else self.own_group(ctx, holder)
                kw = self.cancel_kw(ctx)
                self.cancel_order_call(ctx, lambda: p.cancel_group(g, **kw))
                return "ok"
            if k == "a":
                kw = self.cancel_kw(ctx)
                self.cancel_order_call(ctx, lambda: p.cancel_all(**kw))
                return "ok"
            if k == "l":
                p.lock()
                return "ok"
            if k == "u":
                p.unlock()
                return "ok"
            if k == "t":
                return "ids:" + "/".join(str(i) for i in p.stop(int(arg)))
            if k == "A":
                hold = {"g": None}
                name = p.apply(self.mkworker(ctx, "g", False, [], hold), args=(7,), kwargs={"k": 1}, num=int(arg))
                hold["g"] = name
                ctx.nreq += 1
                if name not in ctx.names:
                    ctx.names.append(name)
                return "name:" + name
        except (X.PoolException, ValueError) as e:
            return "err:" + type(e).__name__
        except AttributeError:
            return "noop"       # stop / apply on the wrong pool class
        except Exception as e:
            return "err:!" + type(e).__name__
        return "noop"

    def mkworker(self, ctx, mode, swallow, hooks_start, holder, coro=True, hint=None, hooks_next=()):
        """`hint` = (request number, stars) for a map request with *empty* elements: the worker is then called without
        any argument and learns the element's index from the iterator (which ran just before the call).
        `mode`: `r` returns at once, `x` raises at once, `g` gated = awaits one harness future, `g1` / `g2` / ... gated with
        that many *further* suspension points (each on a fresh harness future; event `N` between two of them, followed by
        the pool calls `hooks_next` the worker makes there: hook point `n`)"""
        W = self
        awaits = 0
        if mode[:1] == "g":
            awaits = int(mode[1:] or 0)
            mode = "g"
        if not coro:
            def worker(x, k=0, *, s=None):      # not a coroutine function
                return None
            return worker

        async def worker(x=EMPTY, k=0, *, s=None, _idx=None):
            tid, name = W.tid_of_current(ctx)
            if tid is None:
                ctx.ev.append("S?" + re.sub(r"[^0-9A-Za-z]", "_", name))
                return None
            if x is EMPTY and hint is not None:
                ctx.ev.append(f"S{tid}({'*' * hint[1]}{_idx})")
            else:
                ctx.ev.append(f"S{tid}({canon_arg(x, k, s)})")
            ctx.live.add(tid)
            ctx.note_live()
            # every other task *returns* an exception instance (errors as values): a value like any other
            val = Boom("a returned value, not a failure") if tid % 2 else None
            try:
                W.run_hooks(ctx, hooks_start, holder)
                if mode == "r":
                    ctx.ev.append(f"R{tid}")
                    return val
                if mode == "x":
                    ctx.ev.append(f"E{tid}")
                    raise Boom("w")
                f = W.loop.create_future()
                ctx.futs[tid] = f
                resumed = False
                left = awaits               # suspension points still to come after the current one
                while True:
                    try:
                        await f
                    except asyncio.CancelledError:
                        if swallow == "2" and not resumed:
                            # a worker that finishes what it is doing: it catches the first CancelledError and goes on
                            # awaiting (a fresh future); for the pool it is a running task like any other
                            resumed = True
                            ctx.ev.append(f"Y{tid}")
                            f = W.loop.create_future()
                            ctx.futs[tid] = f
                            continue
                        ctx.ev.append(f"X{tid}")
                        if swallow == "1":
                            ctx.ev.append(f"R{tid}")
                            return val
                        raise
                    except Boom:
                        ctx.ev.append(f"E{tid}")
                        raise
                    if left > 0:
                        # the awaited future completed normally and the worker has more to do: it goes on to its next
                        # suspension point (a fresh future; `on i gate t` completes whichever future the task awaits now)
                        left -= 1
                        ctx.ev.append(f"N{tid}")
                        # user code between two awaits: the worker is running (not suspended) while it calls the pool
                        ctx.next_hook_calls = getattr(ctx, "next_hook_calls", 0) + len(hooks_next)
                        W.run_hooks(ctx, hooks_next, holder)
                        f = W.loop.create_future()
                        ctx.futs[tid] = f
                        continue
                    ctx.ev.append(f"R{tid}")
                    return val
            finally:
                ctx.live.discard(tid)
        if hint is not None:
            # a plain function that returns the coroutine, marked as a coroutine function (inspect.markcoroutinefunction):
            # its synchronous part runs when the pool *calls* func, i.e. right after the element was pulled
            def entry(*a, **kw):
                return worker(*a, _idx=ctx.cur_idx.get(hint[0]), **kw)
            entry.__name__ = "worker"
            entry.__qualname__ = worker.__qualname__
            return inspect.markcoroutinefunction(entry)
        # every other worker function is handed to the pool as a `functools.partial` object: a coroutine function as far
        # as asyncio is concerned, but a callable without `__name__`
        ctx.nworkers = getattr(ctx, "nworkers", 0) + 1
        if ctx.nworkers % 3 == 1:
            return functools.partial(worker)
        if ctx.nworkers % 3 == 2:
            return MethodHolder(worker).worker      # a bound method
        return worker

    def mkcb(self, ctx, kind, spec, hooks, holder):
        W = self
        pre = "e" if kind == "end" else "c"
        if spec == "n":
            return None

        def begin(tid):
            p = ctx.pool
            cur, name = W.tid_of_current(ctx)
            tag = "" if cur == tid else "?"          # the id passed must be the id in the task's name (C11)
            try:                                     # how does `cancel(id)` classify the task right now? (C03)
                p.cancel(tid)
                reg = "R"
            except X.AlreadyCancelled:
                reg = "C"
            except X.AlreadyEnded:
                reg = "E"
            except X.InvalidTaskID:
                reg = "N"
            except Exception:
                reg = "?"
            ctx.ev.append(f"{pre}c{tag}{tid}:{p.num_running}/{p.num_cancelled}/{p.num_ended}/{reg}")
            W.run_hooks(ctx, hooks, holder)

        # callbacks come in the shapes a user may hand over: a function, a `functools.partial` of one, a callable object
        # (which need not be hashable); coroutine callbacks: a coroutine function or a partial of one
        ctx.ncbs = getattr(ctx, "ncbs", 0) + 1
        shape = ctx.ncbs % 3

        def dress(f):
            if shape == 1:
                return functools.partial(f)
            if shape == 2:
                return CallableObject(f)
            return f

        if spec == "p":
            # a plain callback may return anything, also an awaitable of its own (a fire-and-forget future): the pool
            # calls it and goes on — what it returns is none of the pool's business (seed C02_9)
            returns_future = (ctx.ncbs // 3) % 2 == 1

            def cb(tid):
                begin(tid)
                ctx.ev.append(f"{pre}d{tid}")
                if returns_future:
                    f = W.loop.create_future()
                    W.orphans.append(f)
                    return f
            return dress(cb)
        if spec == "x":
            def cb(tid):
                begin(tid)
                ctx.ev.append(f"{pre}r{tid}")
                raise Boom("cb")
            return dress(cb)

        async def cb(tid):
            begin(tid)
            f = W.loop.create_future()
            ctx.futs[tid] = f
            try:
                await f
            except asyncio.CancelledError:
                ctx.ev.append(f"{pre}k{tid}")
                raise
            except Boom:
                ctx.ev.append(f"{pre}r{tid}")
                raise
            ctx.ev.append(f"{pre}d{tid}")
        return functools.partial(cb) if shape == 1 else cb

    def new_task_handles(self, ctx, before):
        """the pool tasks whose wake-up handles a cancel_group/cancel_all call queued, in order (DESIGN §3.5)"""
        out = []
        for h in list(self.loop._ready)[before:]:
            t = getattr(h._callback, "__self__", None)
            if isinstance(t, asyncio.Task):
                m = TASK_RE.match(t.get_name())
                if m and m.group(1) == str(ctx.pool):
                    out.append(int(m.group(2)))
        return out

    # ------------------------------------------------------------------ operations
    def mkpool(self, toks):
        kind, sz, nm = toks[1], toks[2], toks[3]
        ps = math.inf if sz == "inf" else int(sz)
        name = None if nm == "-" else dec_name(nm)
        ctx = PoolCtx(self, None, kind, sz)
        try:
            if kind == "simple":
                wm, sw, ecb, ccb, bad, coro, hooks = toks[4:11]
                hk = parse_hooks(hooks)
                holder = {"g": None}
                f = self.mkworker(ctx, wm, sw, hk["s"], holder, coro == "1", hooks_next=hk["n"])
                ecb_f = self.mkcb(ctx, "end", ecb, hk["e"], holder)
                ccb_f = self.mkcb(ctx, "cancel", ccb, hk["c"], holder)
                a = (1, 2, 3) if bad == "1" else (7,)
                a = {0: a, 1: list(a), 2: iter(a)}[len(self.pools) % 3]     # any iterable, also a one-shot iterator
                if len(self.pools) % 2:     # every other SimpleTaskPool is constructed with positional arguments
                    pool = SimpleTaskPool(f, a, _ROMap({"k": 1}), ecb_f, ccb_f, ps, name)
                else:
                    pool = SimpleTaskPool(f, args=a, kwargs={"k": 1}, pool_size=ps, name=name,
                                          end_callback=ecb_f, cancel_callback=ccb_f)
                ctx.simple_holder = holder
            else:
                pool = TaskPool(ps, name) if len(self.pools) % 2 else TaskPool(pool_size=ps, name=name)
        except (X.PoolException, ValueError) as e:
            return "err:" + type(e).__name__
        except Exception as e:
            return "err:!" + type(e).__name__
        ctx.pool = pool
        self.pools.append(ctx)
        return "name:" + str(pool)

    def do(self, toks):
        """executes one op line; returns (tokens incl. observed cancel orders, result string)"""
        toks = list(toks)
        self.orders = []
        k = toks[0]
        if k == "mkpool":
            return toks, self.mkpool(toks)
        if k == "run":
            kk = int(toks[1]) if len(toks) > 1 else 0
            res = "ok" if self.loop.stepk(kk) else "noop"
            if self.orders:
                toks = toks + ["@" + ";".join(",".join(str(t) for t in o) for o in self.orders)]
            return toks, res
        assert k == "on", toks
        i = int(toks[1])
        if i >= len(self.pools):
            return toks, "noop"
        ctx = self.pools[i]
        res = self.do_on(ctx, toks[2:])
        if self.orders:
            toks = toks + ["@" + ";".join(",".join(str(t) for t in o) for o in self.orders)]
        return toks, res

    def do_on(self, ctx, toks):
        p = ctx.pool
        k = toks[0]
        res = "ok"
        try:
            if k == "apply":
                _, num, g, wm, sw, ecb, ccb, bad, coro, hooks = toks
                g = dec_name(g)
                hk = parse_hooks(hooks)
                holder = {"g": None}
                f = self.mkworker(ctx, wm, sw, hk["s"], holder, coro == "1", hooks_next=hk["n"])
                args = (1, 2, 3) if bad == "1" else (7,)
                ecb_f = self.mkcb(ctx, "end", ecb, hk["e"], holder)
                ccb_f = self.mkcb(ctx, "cancel", ccb, hk["c"], holder)
                ctx.ncalls = getattr(ctx, "ncalls", 0) + 1
                # `args` is any iterable: a tuple, a list, or (every third request) a one-shot iterator - each of the `num`
                # invocations is to get the same arguments all the same
                args = {0: args, 1: list(args), 2: iter(args)}[ctx.ncalls % 3]
                # `kwargs` is any mapping: a dict, or (every other request) a read-only Mapping that is no dict
                kw = {"k": 1} if ctx.ncalls % 4 < 2 else _ROMap({"k": 1})
                if ctx.ncalls % 2:          # every other request passes everything by position, in signature order
                    name = p.apply(f, args, kw, int(num), None if g == "-" else g, ecb_f, ccb_f)
                else:
                    name = p.apply(f, args=args, kwargs=kw, num=int(num), group_name=None if g == "-" else g,
                                   end_callback=ecb_f, cancel_callback=ccb_f)
                holder["g"] = name
                ctx.nreq += 1
                res = "name:" + name
                if name not in ctx.names:
                    ctx.names.append(name)
            elif k == "map":
                _, stars, items, nc, g, wm, sw, ecb, ccb, coro, hooks = toks
                g = dec_name(g)
                stars = int(stars)
                m = ctx.nreq
                hk = parse_hooks(hooks)
                holder = {"g": None}
                its = "" if items == "-" else items
                f = self.mkworker(ctx, wm, sw, hk["s"], holder, coro == "1",
                                  hint=(m, stars) if "3" in its and stars else None, hooks_next=hk["n"])
                W = self

                def gen():
                    for i, c in enumerate(its):
                        ctx.ev.append(f"P{m}:{i}")
                        W.run_hooks(ctx, hk["p"], holder)
                        ctx.cur_idx[m] = i
                        if c == "3" and stars:
                            yield () if stars == 1 else {}      # an empty element: func() is what the variant prescribes
                            continue
                        if c == "2":
                            raise Boom("the argument iterator raises instead of yielding")
                        if c == "1":
                            # an element the call rejects; of varied shape (hashable or not, tuple or list) where the
                            # variant allows
                            if stars == 1 and i % 3 == 2:
                                yield (i, 2, 3)
                            elif stars == 1 and i % 2 == 1:
                                yield [i, 2, 3]
                            elif stars == 2 and i % 2 == 1:
                                yield {"zz": i}
                            else:
                                yield 5
                        else:
                            yield {0: i, 1: (i, 2), 2: {"x": i, "s": 3}}[stars]
                meth = {0: p.map, 1: p.starmap, 2: p.doublestarmap}[stars]
                ecb_f = self.mkcb(ctx, "end", ecb, hk["e"], holder)
                ccb_f = self.mkcb(ctx, "cancel", ccb, hk["c"], holder)
                ctx.ncalls = getattr(ctx, "ncalls", 0) + 1
                # the iterable is a generator (an iterator) or, for every other pair of requests, a re-iterable object
                # whose `__iter__` is observed: the pool starts iterating once, in the spawner, and never for a request it
                # rejects (seed C09_9)
                call_no = ctx.ncalls

                class Reiterable:
                    def __iter__(self_):
                        ctx.iter_log.append((call_no, ctx.in_request))
                        return gen()
                arg = Reiterable() if (ctx.ncalls // 2) % 2 else gen()
                ctx.in_request = True
                try:
                    if ctx.ncalls % 2:          # every other request passes everything by position, in signature order
                        name = meth(f, arg, int(nc), None if g == "-" else g, ecb_f, ccb_f)
                    else:
                        name = meth(func=f, num_concurrent=int(nc), group_name=None if g == "-" else g,
                                    end_callback=ecb_f, cancel_callback=ccb_f,
                                    **{{0: "arg_iter", 1: "args_iter", 2: "kwargs_iter"}[stars]: arg})
                finally:
                    ctx.in_request = False
                holder["g"] = name
                ctx.nreq += 1
                res = "name:" + name
                if name not in ctx.names:
                    ctx.names.append(name)
            elif k == "start":
                ctx.ncalls = getattr(ctx, "ncalls", 0) + 1
                name = p.start(int(toks[1])) if ctx.ncalls % 2 else p.start(num=int(toks[1]))
                ctx.nreq += 1
                res = "name:" + name
                if name not in ctx.names:
                    ctx.names.append(name)
            elif k == "stop":
                ctx.ncalls = getattr(ctx, "ncalls", 0) + 1
                res = "ids:" + "/".join(str(i) for i in (p.stop(int(toks[1])) if ctx.ncalls % 2 else p.stop(num=int(toks[1]))))
            elif k == "stop_all":
                res = "ids:" + "/".join(str(i) for i in p.stop_all())
            elif k == "cancel":
                p.cancel(*[int(x) for x in toks[1:]], **self.cancel_kw(ctx))
            elif k == "cancel_group":
                kw = self.cancel_kw(ctx)
                if kw:
                    self.cancel_order_call(ctx, lambda: p.cancel_group(group_name=dec_name(toks[1]), **kw))
                else:
                    self.cancel_order_call(ctx, lambda: p.cancel_group(dec_name(toks[1])))
            elif k == "cancel_all":
                kw = self.cancel_kw(ctx)
                self.cancel_order_call(ctx, lambda: p.cancel_all(**kw))
            elif k == "lock":
                p.lock()
            elif k == "unlock":
                p.unlock()
            elif k == "set_size":
                p.pool_size = int(toks[1])
            elif k == "get_ids":
                res = "set:" + "/".join(str(i) for i in sorted(p.get_group_ids(*[dec_name(t) for t in toks[1:]])))
            elif k == "flush":
                ctx.ncalls = getattr(ctx, "ncalls", 0) + 1
                ctx.apis.append(self.loop.create_task(p.flush(toks[1] == "1") if ctx.ncalls % 2 else
                                                      p.flush(return_exceptions=toks[1] == "1")))
            elif k == "gac":
                ctx.ncalls = getattr(ctx, "ncalls", 0) + 1
                ctx.apis.append(self.loop.create_task(p.gather_and_close(toks[1] == "1") if ctx.ncalls % 2 else
                                                      p.gather_and_close(return_exceptions=toks[1] == "1")))
            elif k == "until_closed":
                ctx.apis.append(self.loop.create_task(p.until_closed()))
            elif k == "gate":
                f = ctx.futs.get(int(toks[1]))
                if f is not None and not f.done():
                    if toks[2] == "ok":
                        f.set_result(None)
                    else:
                        f.set_exception(Boom("g"))
                else:
                    res = "noop"
            else:
                raise AssertionError(toks)
        except (X.PoolException, ValueError) as e:
            res = "err:" + type(e).__name__
        except AttributeError:
            res = "noop"        # start/stop on a TaskPool, apply/map on a SimpleTaskPool
        except Exception as e:  # nothing else is documented: reported as a result no model ever gives, never a harness crash
            res = "err:!" + type(e).__name__
        return res

    # ------------------------------------------------------------------ observation
    @staticmethod
    def is_closed(pool):
        c = pool.until_closed()
        try:
            c.send(None)
        except StopIteration:
            return True
        c.close()
        return False

    def pool_obs(self, ctx):
        p = ctx.pool
        gs = []
        for n in ctx.names:
            try:
                gs.append(n + ":" + "/".join(str(int(i)) for i in sorted(p.get_group_ids(n))))
            except Exception:       # InvalidGroupName: unknown; anything else is observed as unknown too (never a crash)
                gs.append(n + ":-")
        apis = []
        for i, t in enumerate(ctx.apis):
            if not t.done():
                o = "pending"
            elif t.cancelled():
                o = "cancelled"
            elif t.exception() is not None:
                o = "exc:" + type(t.exception()).__name__
            else:
                o = "ok"
            apis.append(f"{i}:{o}")
        # an accessor that raises or returns something unrepresentable is observed as -1: a value the model never shows
        def rd(f):
            try:
                v = f()
                return "inf" if v == math.inf else str(int(v))
            except Exception:
                return "-1"
        size = rd(lambda: p.pool_size)
        s = (f"nm={p} n={rd(lambda: p.num_running)} c={rd(lambda: p.num_cancelled)} e={rd(lambda: p.num_ended)} "
             f"f={rd(lambda: p.is_full)} "
             f"l={rd(lambda: p.is_locked)} s={size} z={rd(lambda: self.is_closed(p))} g={';'.join(gs) or '-'} "
             f"ev={','.join(ctx.ev) or '-'} api={','.join(apis) or '-'} amb=0")
        extra = {"live": len(ctx.live), "maxlive": max(ctx.maxlive, len(ctx.live)), "iters": list(ctx.iter_log)}
        ctx.iter_log.clear()
        ctx.ev.clear()
        ctx.maxlive = len(ctx.live)
        return s, extra

    def obs(self, res):
        parts = [f"r={res} q={self.loop.nready()}"]
        extras = []
        for ctx in self.pools:
            s, ex = self.pool_obs(ctx)
            parts.append(s)
            extras.append(ex)
        return " ## ".join(parts), extras
