"""M2 world: the real `asyncio_taskpool.queue_context.Queue` driven one event-loop handle at a time (C20).

Op lines (the same lines go to the Lean driver `qdriver`, where each is one `Q.step`):
    mkq n | put x | produce x | cancelp j | spawn | join | cancel c | gate c ok|exc | take | run [k]
`mkq n` (only as the first op line of a history) makes the queue of this history `Queue(maxsize=n)`; without it the
queue is `Queue()`.  `put x` is `queue.put_nowait(x)` by non-task code (result `full` if that raises `QueueFull`);
`produce x` creates a producer task `await queue.put(x)` (producer j = the number of producers so far; it blocks while the
queue is full); `cancelp j` is `Task.cancel()` on producer j.
`spawn` creates a consumer task `async with queue as item: await <harness gate>`; `gate c ok|exc` ends the body of
consumer c normally / by exception; `cancel c` is `Task.cancel()`; `join` creates a task awaiting `queue.join()`;
`take` is the plain `asyncio.Queue` protocol used next to the context manager by code outside every consumer task:
`item = queue.get_nowait()` (result `empty` if that raises `QueueEmpty`), then `queue.item_processed()` for that item
(a *hand mark*); `run k` executes the k-th ready handle of the loop (consumer, producer or joiner alike).

Observation line:
    r=<result> | n=<qsize> u=<puts - successful task_done> q=<ready handles> | ev=<events of this op> | c=<consumer phases> |
    j=<joiners> | g=puts,exits,tdCalls,valueErrors,takes,hputs m=<task_done calls per consumer> | p=<producer phases>
Events: G c:item (block entered), C c (CancelledError seen by consumer c), X c (block left), T u (task_done ok, u left),
VE (task_done raised), H item (taken by hand), J j (join returned), P j:item (producer j's put returned), K j
(CancelledError left producer j's put).  Producer phases: N (not started) / W (started, inside put) / Dput / Dcan.

Only public API of the library is used: `put_nowait`, `put`, `get_nowait`, `item_processed`, `async with`, `join`, `qsize`,
`full`, and overrides of `task_done` and `put_nowait` in a harness subclass (the context manager reaches `task_done` through
`item_processed`, so every marking is seen; `Queue.put()` ends with `self.put_nowait(item)`, so every item that enters the
queue is counted at the moment it enters).  The unfinished counter is never read: the harness counts the items that
entered the queue and the successful `task_done` calls itself."""
import asyncio
import collections
import sys
import warnings

from .steploop import StepLoop


class Boom(Exception):
    pass


class Impl:
    def __init__(self):
        self.loop = StepLoop()
        self.loop.start()
        self.loop.set_exception_handler(lambda l, c: None)
        self.fresh(0)

    def fresh(self, maxsize):
        """the state of a history that has just begun, with a queue of the given maxsize (0 = unbounded)"""
        from asyncio_taskpool.queue_context import Queue
        W = self
        self.maxsize = maxsize
        self.ev = []
        # puts = items that actually entered the queue (counted in the put_nowait override); hputs = `put` ops that did not raise
        self.puts = self.hputs = self.exits = self.td_calls = self.td_ok = self.ve = 0
        self.full_raised = 0                     # `put` ops answered QueueFull
        self.sync_items = []                     # items of every `put` op (accepted or not)
        self.marks = collections.Counter()       # consumer id -> task_done calls made while its task was running
        self.task_ids = {}                       # Task -> consumer id (consumer tasks only)
        self.foreign_marks = 0                   # task_done calls outside any consumer task
        self.takes = 0                           # items taken with get_nowait() by the op `take` (each is hand-marked once)
        self.hand_taken = []                     # those items

        class Q(Queue):
            def task_done(q):
                W.td_calls += 1
                c = W.task_ids.get(asyncio.current_task(W.loop))
                if c is None:
                    W.foreign_marks += 1
                else:
                    W.marks[c] += 1
                try:
                    super().task_done()
                except ValueError:
                    W.ve += 1
                    W.ev.append("VE")
                    raise
                W.td_ok += 1
                W.ev.append(f"T{W.puts - W.td_ok}")

            def put_nowait(q, item):
                super().put_nowait(item)
                W.puts += 1                      # the item is in the queue now
        self.Q = Q
        self.q = Q(maxsize=maxsize) if maxsize else Q()
        self.cons, self.gates, self.joins, self.phase = [], {}, [], {}
        self.took = {}                           # consumer id -> item handed to its block
        self.jstate = {}                         # joiner id -> dict(started, outstanding_at_start, done)
        self.prods, self.pphase, self.pitem = [], {}, {}     # producer tasks, their phases and items
        self.prod_ids = {}                       # Task -> producer id
        self.cancelp_woken = set()               # producers whose first cancelp came while their wake-up handle was pending

    def drain(self):
        for t in self.cons + self.joins + self.prods:
            if not t.done():
                t.cancel()
        for _ in range(100000):
            if not self.loop.stepk(0):
                break

    def close(self):
        """after the last observation: cancel what is still pending and drain the loop, so that no coroutine is
        finalised by the garbage collector on a closed loop"""
        try:
            self.drain()
        except Exception:
            pass
        self.loop.stop_()
        try:
            self.loop.close()
        except Exception:
            pass

    def consumer(self, c):
        W = self

        async def run():
            W.phase[c] = "W"
            try:
                async with W.q as item:
                    W.phase[c] = f"B{item}"
                    W.took[c] = item
                    W.ev.append(f"G{c}:{item}")
                    f = W.loop.create_future()
                    W.gates[c] = f
                    try:
                        await f
                    except asyncio.CancelledError:
                        W.ev.append(f"C{c}")
                        W.ev.append(f"X{c}")
                        W.exits += 1
                        W.phase[c] = "Dcan"
                        raise
                    except Boom:
                        W.ev.append(f"X{c}")
                        W.exits += 1
                        W.phase[c] = "Dexc"
                        raise
                    W.ev.append(f"X{c}")
                    W.exits += 1
                    W.phase[c] = "Dok"
            except asyncio.CancelledError:
                if not W.phase[c].startswith("D"):
                    W.ev.append(f"C{c}")
                    W.phase[c] = "Dcan"
                raise
        return run()

    def producer(self, j, x):
        W = self

        async def run():
            W.pphase[j] = "W"
            try:
                await W.q.put(x)
            except asyncio.CancelledError:
                W.ev.append(f"K{j}")
                W.pphase[j] = "Dcan"
                raise
            W.ev.append(f"P{j}:{x}")
            W.pphase[j] = "Dput"
        return run()

    def do(self, toks):
        k = toks[0]
        res = "ok"
        if k == "mkq":
            # only meaningful as the first op of a history; anywhere else it starts the history afresh (as the driver does)
            if self.cons or self.joins or self.prods:
                self.drain()
            self.fresh(int(toks[1]))
        elif k == "put":
            x = int(toks[1])
            self.sync_items.append(x)
            try:
                self.q.put_nowait(x)
            except asyncio.QueueFull:
                res = "full"
                self.full_raised += 1
            else:
                self.hputs += 1
        elif k == "produce":
            j = len(self.prods)
            self.pphase[j] = "N"
            self.pitem[j] = int(toks[1])
            t = self.loop.create_task(self.producer(j, self.pitem[j]))
            self.prod_ids[t] = j
            self.prods.append(t)
        elif k == "cancelp":
            j = int(toks[1])
            if j < len(self.prods):
                t = self.prods[j]
                first = self.pphase[j] == "W" and not t.done() and not t.cancelling()
                before = self.loop.nready()
                t.cancel()
                # a pending putter future is cancelled by this and schedules the task's wake-up; if no handle was added, the
                # wake-up was pending already: the producer had been woken by get_nowait()
                if first and self.loop.nready() == before:
                    self.cancelp_woken.add(j)
        elif k == "spawn":
            c = len(self.cons)
            self.phase[c] = "N"
            t = self.loop.create_task(self.consumer(c))
            self.task_ids[t] = c
            self.cons.append(t)
        elif k == "join":
            j = len(self.joins)
            st = self.jstate[j] = {"started": False, "at_start": None, "done": False}

            async def jn():
                st["started"] = True
                st["at_start"] = self.puts - self.exits - self.takes
                await self.q.join()
                st["done"] = True
                self.ev.append(f"J{j}")
            self.joins.append(self.loop.create_task(jn()))
        elif k == "cancel":
            c = int(toks[1])
            if c < len(self.cons):
                self.cons[c].cancel()
        elif k == "gate":
            f = self.gates.get(int(toks[1]))
            if f is not None and not f.done():
                if toks[2] == "ok":
                    f.set_result(None)
                else:
                    f.set_exception(Boom())
            else:
                res = "noop"
        elif k == "take":
            try:
                item = self.q.get_nowait()
            except asyncio.QueueEmpty:
                res = "empty"
            else:
                self.takes += 1
                self.hand_taken.append(item)
                self.ev.append(f"H{item}")
                try:
                    self.q.item_processed()
                except ValueError:
                    pass                         # recorded by the task_done override
        elif k == "run":
            if not self.loop.stepk(int(toks[1]) if len(toks) > 1 else 0):
                res = "noop"
        else:
            res = "bad-op"
        return res

    def phases(self):
        cs = []
        for c, t in enumerate(self.cons):
            ph = self.phase[c]
            if t.done() and not ph.startswith("D"):
                ph = "Dcan"                      # cancelled before its first step: the body never ran
            cs.append(ph)
        return cs

    def pphases(self):
        ps = []
        for j, t in enumerate(self.prods):
            ph = self.pphase[j]
            if t.done() and ph == "N":
                ph = "Dcan"                      # cancelled before its first step: the body never ran
            ps.append(ph)
        return ps

    def obs(self, res):
        if res == "bad-op":
            return "bad-op"
        js = ",".join("D" if t.done() else "P" for t in self.joins)
        ms = ",".join(str(self.marks[c]) for c in range(len(self.cons)))
        s = (f"r={res} | n={self.q.qsize()} u={self.puts - self.td_ok} q={self.loop.nready()} | ev={','.join(self.ev)} | "
             f"c={','.join(self.phases())} | j={js} | "
             f"g={self.puts},{self.exits},{self.td_calls},{self.ve},{self.takes},{self.hputs} m={ms} | p={','.join(self.pphases())}")
        self.ev.clear()
        return s


# ------------------------------------------------------------------------------------------------ monitors
class Monitors:
    """Direct statements of C20 over the real run, evaluated after every op.  They use the harness's own counts
    (items that entered the queue, `put` ops accepted, producers whose `put()` returned, items handed to blocks, block exits
    seen by the body, items taken by hand with `get_nowait()`, `task_done` calls per consumer task and outside the consumer
    tasks) and the public `qsize()`, never the model and never a private attribute of the queue."""

    def __init__(self, impl):
        self.I = impl
        self.fails = []                          # (name, step, detail)
        self.reset()

    def reset(self):
        self.prev_phase = []
        self.prev_pphase = []
        self.prev_qsize = 0
        self.prev_td = 0
        self.prev_puts = 0
        self.released = set()                    # joiners whose release condition has occurred
        self.waiting = set()                     # joiners inside join() that had to wait
        self.jdone = set()
        # coverage only
        self.seen_blocked = set()                # producers observed in phase W after an op
        self.w_to_dcan = set()                   # producers cancelled inside put()

    def fail(self, name, step, detail):
        if not any(f[0] == name for f in self.fails):
            self.fails.append((name, step, detail))

    def trackable(self, j):
        """producer j's item value is carried by nothing else in this history"""
        I = self.I
        x = I.pitem[j]
        return x not in I.sync_items and sum(1 for y in I.pitem.values() if y == x) == 1

    def after(self, step, toks, res=None):
        I = self.I
        if toks[0] == "mkq":
            self.reset()
        ph = I.phases()
        pph = I.pphases()
        qsize = I.q.qsize()
        # items put so far that were neither taken by a block that has exited nor taken and marked by hand: they wait in
        # the queue or are inside a block
        outstanding = I.puts - I.exits - I.takes
        # -- no ValueError from task_done
        if I.ve:
            self.fail("task_done-raised-ValueError", step, f"{I.ve} ValueError(s) from task_done()")
        # -- the only task_done calls outside the consumer tasks are the hand marks: one per item taken by hand
        if I.foreign_marks != I.takes:
            self.fail("task_done-outside-consumer", step,
                      f"{I.foreign_marks} task_done() call(s) outside any consumer task, {I.takes} item(s) taken by hand")
        # -- exactly one mark per taken item, at block exit, on every exit path; none otherwise
        for c, p in enumerate(ph):
            m = I.marks[c]
            if p.startswith("D") and c in I.took:
                if m != 1:
                    self.fail("block-exit-marks-not-exactly-once", step,
                              f"consumer {c} left its block ({p}) with item {I.took[c]}: {m} task_done call(s)")
            elif m != 0:
                where = "inside its block" if p.startswith("B") else "without ever being handed an item"
                self.fail("mark-without-block-exit", step, f"consumer {c} ({p}) {where}: {m} task_done call(s)")
        if I.td_calls != I.exits + I.takes:
            self.fail("marks-ne-block-exits", step,
                      f"task_done calls={I.td_calls} block exits={I.exits} hand-taken items={I.takes}")
        # -- a bounded queue never holds more than maxsize items
        if I.maxsize > 0 and qsize > I.maxsize:
            self.fail("over-maxsize", step, f"qsize {qsize} > maxsize {I.maxsize}")
        # -- every item that entered the queue is in the queue, was handed to a block or was taken by hand: nothing else takes an item
        if I.puts != qsize + len(I.took) + I.takes:
            self.fail("item-taken-by-nobody", step,
                      f"puts={I.puts}, in the queue {qsize}, handed to blocks {len(I.took)}, taken by hand {I.takes}")
        # -- the items that entered the queue are those of the accepted `put` ops and of the producers whose put() returned
        ndput = sum(1 for p in pph if p == "Dput")
        if I.puts != I.hputs + ndput:
            self.fail("put-count-mismatch", step,
                      f"{I.puts} item(s) entered the queue, {I.hputs} put_nowait() accepted by hand, {ndput} producer(s) returned from put()")
        # -- put_nowait by hand: QueueFull exactly when the queue was full, and then nothing changed
        if toks[0] == "put" and res is not None:
            was_full = I.maxsize > 0 and self.prev_qsize >= I.maxsize
            if res == "full":
                if not was_full:
                    self.fail("put-nowait-verdict", step,
                              f"put_nowait() raised QueueFull with {self.prev_qsize} item(s) in a queue of maxsize {I.maxsize}")
                elif qsize != self.prev_qsize or I.puts != self.prev_puts:
                    self.fail("put-nowait-verdict", step,
                              f"put_nowait() raised QueueFull but qsize {self.prev_qsize}->{qsize}, puts {self.prev_puts}->{I.puts}")
            elif was_full:
                self.fail("put-nowait-verdict", step,
                          f"put_nowait() accepted an item with {self.prev_qsize} item(s) in a queue of maxsize {I.maxsize}")
            elif qsize != self.prev_qsize + 1 or I.puts != self.prev_puts + 1:
                self.fail("put-nowait-verdict", step,
                          f"put_nowait() accepted an item but qsize {self.prev_qsize}->{qsize}, puts {self.prev_puts}->{I.puts}")
        # -- a consumer cancelled while waiting marks nothing and removes no item
        for c, p in enumerate(ph):
            before = self.prev_phase[c] if c < len(self.prev_phase) else "N"
            if p == "Dcan" and before in ("N", "W") and c not in I.took:
                if qsize != self.prev_qsize or I.td_calls != self.prev_td:
                    self.fail("cancelled-waiter-disturbed-queue", step,
                              f"consumer {c} cancelled while waiting: qsize {self.prev_qsize}->{qsize}, "
                              f"task_done calls {self.prev_td}->{I.td_calls}")
        # -- a producer cancelled before its put() returned puts nothing
        for j, p in enumerate(pph):
            before = self.prev_pphase[j] if j < len(self.prev_pphase) else "N"
            if p == "W":
                self.seen_blocked.add(j)
            if p == "Dcan" and before in ("N", "W"):
                if before == "W":
                    self.w_to_dcan.add(j)
                if qsize != self.prev_qsize or I.puts != self.prev_puts:
                    self.fail("cancelled-producer-disturbed-queue", step,
                              f"producer {j} cancelled inside put(): qsize {self.prev_qsize}->{qsize}, "
                              f"puts {self.prev_puts}->{I.puts}")
        # -- identity of produced items (where the item value is carried by one producer only): the item of a cancelled
        #    producer is never handed out, the item of any producer at most once
        if I.prods:
            handed = collections.Counter(list(I.took.values()) + I.hand_taken)
            for j, p in enumerate(pph):
                n = handed.get(I.pitem[j], 0)
                if n and self.trackable(j):
                    if p == "Dcan":
                        self.fail("cancelled-producer-item-appeared", step,
                                  f"producer {j} was cancelled inside put({I.pitem[j]}), yet item {I.pitem[j]} was handed out")
                    elif p != "Dput":
                        self.fail("cancelled-producer-item-appeared", step,
                                  f"producer {j} ({p}) has not returned from put({I.pitem[j]}), yet item {I.pitem[j]} was handed out")
                    if n > 1:
                        self.fail("produced-item-duplicated", step, f"item {I.pitem[j]} of producer {j} was handed out {n} times")
        # -- no lost putter wake-up: when nothing is ready to run, a producer waits inside put() only if the queue is full
        if I.loop.nready() == 0 and (I.maxsize == 0 or qsize < I.maxsize):
            for j, p in enumerate(pph):
                if p == "W" and not I.prods[j].done():
                    self.fail("producer-left-waiting", step,
                              f"producer {j} waits inside put() with {qsize} item(s) in a queue of maxsize {I.maxsize} and no handle ready")
        # -- join() returns exactly when every item put so far was taken by a block that has exited or was taken and
        #    marked by hand
        for j, st in I.jstate.items():
            if st["started"] and j not in self.waiting and j not in self.jdone:
                if st["at_start"] == 0:
                    if not st["done"]:
                        self.fail("join-blocked-with-nothing-outstanding", step, f"join {j} called with all work done, did not return")
                    self.jdone.add(j)
                    continue
                self.waiting.add(j)
            if j in self.waiting and j not in self.jdone:
                if outstanding == 0:
                    self.released.add(j)
                if st["done"]:
                    self.jdone.add(j)
                    if j not in self.released:
                        self.fail("join-returned-early", step,
                                  f"join {j} returned although never since its call all items were taken and exited / hand-marked "
                                  f"(now puts={I.puts}, block exits={I.exits}, hand-taken={I.takes})")
        self.prev_phase, self.prev_pphase, self.prev_qsize, self.prev_td, self.prev_puts = ph, pph, qsize, I.td_calls, I.puts

    def at_end(self, step, drained):
        """after the wind-down: every ready handle has been executed"""
        if not drained:
            return
        for j in self.released - self.jdone:
            self.fail("join-not-released", step,
                      f"join {j}: all items put were taken and their blocks exited (or they were marked by hand), join() never returned")


# ------------------------------------------------------------------------------------------------ generation
PROFILES = ("fifo", "mixed", "wild")
PITEM = 100                                      # producer j puts item PITEM + j (sync puts carry 0..9): identity is trackable


def gen_ops(rng, profile, maxlen):
    """mostly well-formed histories; `fifo` runs handles in loop order, `mixed`/`wild` pick the k-th ready handle.
    About 45 % of the histories use a bounded queue (`mkq 1..3` first) with enough puts / producers that the queue is
    often full; the others use the unbounded queue and a few producers (which put at once)."""
    ops = []
    nc = npr = 0
    nonfifo = {"fifo": 0.0, "mixed": 0.3, "wild": 0.6}[profile]
    bad = 0.15 if profile == "wild" else 0.03    # ids that name no consumer / producer
    bounded = rng.random() < 0.45
    if bounded:
        ops.append(f"mkq {rng.randint(1, 3)}")
        #        put   produce cancelp take  spawn join  cancel gate  (rest: run)
        w = (0.13, 0.15, 0.08, 0.08, 0.11, 0.05, 0.06, 0.10)
    else:
        w = (0.16, 0.05, 0.03, 0.06, 0.15, 0.07, 0.10, 0.14)
    cum, acc = [], 0.0
    for x in w:
        acc += x
        cum.append(acc)

    def cid():
        if nc == 0 or rng.random() < bad:
            return rng.randint(0, nc + 1)
        return rng.randrange(nc)

    def pid():
        if npr == 0 or rng.random() < bad:
            return rng.randint(0, npr + 1)
        if rng.random() < 0.5:
            return rng.randrange(max(0, npr - 3), npr)       # a recent one: more likely still inside put()
        return rng.randrange(npr)

    def runs(n):
        for _ in range(n):
            ops.append(f"run {rng.randint(1, 3)}" if rng.random() < nonfifo else "run")
    for _ in range(rng.randint(3, maxlen)):
        c = rng.random()
        if c < cum[0]:
            ops.append(f"put {rng.randint(0, 9)}")
        elif c < cum[1]:
            ops.append(f"produce {PITEM + npr}")
            npr += 1
            if bounded and rng.random() < 0.5:
                runs(1)                                       # let it reach put() soon
        elif c < cum[2]:
            ops.append(f"cancelp {pid()}")
        elif c < cum[3]:
            ops.append("take")
            if bounded and npr and rng.random() < 0.35:
                # between the get_nowait() that may have woken a putter and that putter's own step
                r = rng.random()
                if r < 0.6:
                    ops.append(f"cancelp {pid()}")
                elif r < 0.8:
                    ops.append(f"put {rng.randint(0, 9)}")    # the woken putter will find the queue full again
                else:
                    ops.append("take")
        elif c < cum[4]:
            ops.append("spawn")
            nc += 1
        elif c < cum[5]:
            ops.append("join")
        elif c < cum[6]:
            ops.append(f"cancel {cid()}")
        elif c < cum[7]:
            ops.append(f"gate {cid()} {'ok' if rng.random() < 0.55 else 'exc'}")
        else:
            runs(rng.randint(1, 4))
            if bounded and npr and rng.random() < 0.12:
                ops.append(f"cancelp {pid()}")                # a consumer step may just have woken a putter
    return ops


def execute(ops, winddown=True):
    """run op lines on the real queue; returns dict(lines, obs, fails, stats)"""
    # a (mutated) library may leave coroutines behind that die noisily when collected: not an observation
    sys.unraisablehook = lambda *a: None
    warnings.simplefilter("ignore")
    I = Impl()
    mon = Monitors(I)
    lines, obs = [], []
    kinds = collections.Counter()

    def one(line):
        toks = line.split()
        r = I.do(toks)
        lines.append(line)
        obs.append(I.obs(r))
        if r != "bad-op":
            mon.after(len(lines) - 1, toks, r)
        return r
    try:
        for ln in ops:
            one(ln)
        drained = False
        if winddown:
            for _ in range(6):
                for _ in range(400):
                    if one("run") == "noop":
                        break
                pend = [c for c, f in I.gates.items() if not f.done()]
                if not pend:
                    drained = I.loop.nready() == 0
                    break
                for c in pend:
                    one(f"gate {c} {'ok' if c % 2 == 0 else 'exc'}")
        mon.at_end(len(lines) - 1, drained)
        for c, p in enumerate(I.phases()):
            if c in I.took:
                kinds["exit:" + {"Dok": "normal", "Dexc": "exception", "Dcan": "cancelled"}.get(p, "still-in-block")] += 1
            elif p == "Dcan":
                kinds["exit:cancelled-while-waiting"] += 1
        taken = len(I.took)
        kinds["hand-marked"] += I.takes
        pph = I.pphases()
        if I.maxsize > 0:
            kinds["bq:histories"] += 1
            kinds["bq:producers-in-bounded"] += len(pph)
        kinds["bq:producers"] += len(pph)
        kinds["bq:blocked"] += sum(1 for j in mon.seen_blocked if j < len(pph))
        kinds["bq:cancelled-while-waiting"] += sum(1 for j in mon.w_to_dcan if j < len(pph))
        kinds["bq:cancelled-after-woken"] += sum(1 for j in I.cancelp_woken if j < len(pph) and pph[j] == "Dcan")
        kinds["bq:cancelled-before-start"] += sum(1 for j, p in enumerate(pph) if p == "Dcan" and I.pphase[j] == "N")
        kinds["bq:still-waiting-at-end"] += sum(1 for p in pph if p == "W")
        kinds["bq:queue-full"] += I.full_raised
        kinds["bq:items-put-by-producers"] += sum(1 for p in pph if p == "Dput")
    finally:
        I.close()
    return {"lines": lines, "obs": obs, "fails": mon.fails, "kinds": kinds, "taken": taken}


FIELDS = ("r", "n", "u", "q", "ev", "c", "j", "g", "m", "p")


def canon(line):
    """observation line -> dict of fields (whitespace-insensitive)"""
    if " | " not in line:
        return {"raw": line.strip()}
    d = {}
    for part in line.split(" | "):
        for tok in part.split():
            k, _, v = tok.partition("=")
            d[k] = v
    return d


def first_mismatch(impl_obs, model_obs):
    for j, (a, b) in enumerate(zip(impl_obs, model_obs)):
        ca, cb = canon(a), canon(b)
        if ca != cb:
            diff = sorted(k for k in set(ca) | set(cb) if ca.get(k) != cb.get(k))
            return j, diff
    if len(impl_obs) != len(model_obs):
        return min(len(impl_obs), len(model_obs)), ["length"]
    return None, None
