"""M2 world: the real `asyncio_taskpool.queue_context.Queue` driven one event-loop handle at a time (C20).

Op lines (the same lines go to the Lean driver `qdriver`, where each is one `Q.step`):
    put x | spawn | join | cancel c | gate c ok|exc | take | run [k]
`spawn` creates a consumer task `async with queue as item: await <harness gate>`; `gate c ok|exc` ends the body of
consumer c normally / by exception; `cancel c` is `Task.cancel()`; `join` creates a task awaiting `queue.join()`;
`take` is the plain `asyncio.Queue` protocol used next to the context manager by code outside every consumer task:
`item = queue.get_nowait()` (result `empty` if that raises `QueueEmpty`), then `queue.item_processed()` for that item
(a *hand mark*); `run k` executes the k-th ready handle of the loop.

Only public API of the library is used: `put_nowait`, `get_nowait`, `item_processed`, `async with`, `join`, `qsize`, and an override of `task_done`
in a harness subclass (the context manager reaches `task_done` through `item_processed`, so every marking is seen).
The unfinished counter is never read: the harness counts puts and successful `task_done` calls itself."""
import asyncio
import collections
import sys
import warnings

from .steploop import StepLoop


class Boom(Exception):
    pass


class Impl:
    def __init__(self):
        from asyncio_taskpool.queue_context import Queue
        self.loop = StepLoop()
        self.loop.start()
        self.loop.set_exception_handler(lambda l, c: None)
        W = self
        self.ev = []
        self.puts = self.exits = self.td_calls = self.td_ok = self.ve = 0
        self.marks = collections.Counter()       # consumer id -> task_done calls made while its task was running
        self.task_ids = {}                       # Task -> consumer id
        self.foreign_marks = 0                   # task_done calls outside any consumer task
        self.takes = 0                           # items taken with get_nowait() by the op `take` (each is hand-marked once)
        self.hand_taken = []                     # those items

        class Q(Queue):
            def task_done(q):
                W.td_calls += 1
                c = W.task_ids.get(asyncio.current_task(W.loop))
                if c is None:
                    W.foreign_marks += 1
                else:
                    W.marks[c] += 1
                try:
                    super().task_done()
                except ValueError:
                    W.ve += 1
                    W.ev.append("VE")
                    raise
                W.td_ok += 1
                W.ev.append(f"T{W.puts - W.td_ok}")
        self.q = Q()
        self.cons, self.gates, self.joins, self.phase = [], {}, [], {}
        self.took = {}                           # consumer id -> item handed to its block
        self.jstate = {}                         # joiner id -> dict(started, outstanding_at_start, done)

    def close(self):
        """after the last observation: cancel what is still pending and drain the loop, so that no coroutine is
        finalised by the garbage collector on a closed loop"""
        try:
            for t in self.cons + self.joins:
                if not t.done():
                    t.cancel()
            for _ in range(100000):
                if not self.loop.stepk(0):
                    break
        except Exception:
            pass
        self.loop.stop_()
        try:
            self.loop.close()
        except Exception:
            pass

    def consumer(self, c):
        W = self

        async def run():
            W.phase[c] = "W"
            try:
                async with W.q as item:
                    W.phase[c] = f"B{item}"
                    W.took[c] = item
                    W.ev.append(f"G{c}:{item}")
                    f = W.loop.create_future()
                    W.gates[c] = f
                    try:
                        await f
                    except asyncio.CancelledError:
                        W.ev.append(f"C{c}")
                        W.ev.append(f"X{c}")
                        W.exits += 1
                        W.phase[c] = "Dcan"
                        raise
                    except Boom:
                        W.ev.append(f"X{c}")
                        W.exits += 1
                        W.phase[c] = "Dexc"
                        raise
                    W.ev.append(f"X{c}")
                    W.exits += 1
                    W.phase[c] = "Dok"
            except asyncio.CancelledError:
                if not W.phase[c].startswith("D"):
                    W.ev.append(f"C{c}")
                    W.phase[c] = "Dcan"
                raise
        return run()

    def do(self, toks):
        k = toks[0]
        res = "ok"
        if k == "put":
            self.puts += 1
            self.q.put_nowait(int(toks[1]))
        elif k == "spawn":
            c = len(self.cons)
            self.phase[c] = "N"
            t = self.loop.create_task(self.consumer(c))
            self.task_ids[t] = c
            self.cons.append(t)
        elif k == "join":
            j = len(self.joins)
            st = self.jstate[j] = {"started": False, "at_start": None, "done": False}

            async def jn():
                st["started"] = True
                st["at_start"] = self.puts - self.exits - self.takes
                await self.q.join()
                st["done"] = True
                self.ev.append(f"J{j}")
            self.joins.append(self.loop.create_task(jn()))
        elif k == "cancel":
            c = int(toks[1])
            if c < len(self.cons):
                self.cons[c].cancel()
        elif k == "gate":
            f = self.gates.get(int(toks[1]))
            if f is not None and not f.done():
                if toks[2] == "ok":
                    f.set_result(None)
                else:
                    f.set_exception(Boom())
            else:
                res = "noop"
        elif k == "take":
            try:
                item = self.q.get_nowait()
            except asyncio.QueueEmpty:
                res = "empty"
            else:
                self.takes += 1
                self.hand_taken.append(item)
                self.ev.append(f"H{item}")
                try:
                    self.q.item_processed()
                except ValueError:
                    pass                         # recorded by the task_done override
        elif k == "run":
            if not self.loop.stepk(int(toks[1]) if len(toks) > 1 else 0):
                res = "noop"
        else:
            res = "bad-op"
        return res

    def phases(self):
        cs = []
        for c, t in enumerate(self.cons):
            ph = self.phase[c]
            if t.done() and not ph.startswith("D"):
                ph = "Dcan"                      # cancelled before its first step: the body never ran
            cs.append(ph)
        return cs

    def obs(self, res):
        if res == "bad-op":
            return "bad-op"
        js = ",".join("D" if t.done() else "P" for t in self.joins)
        ms = ",".join(str(self.marks[c]) for c in range(len(self.cons)))
        s = (f"r={res} | n={self.q.qsize()} u={self.puts - self.td_ok} q={self.loop.nready()} | ev={','.join(self.ev)} | "
             f"c={','.join(self.phases())} | j={js} | g={self.puts},{self.exits},{self.td_calls},{self.ve},{self.takes} m={ms}")
        self.ev.clear()
        return s


# ------------------------------------------------------------------------------------------------ monitors
class Monitors:
    """Direct statements of C20 over the real run, evaluated after every op.  They use the harness's own counts
    (puts, items handed to blocks, block exits seen by the body, items taken by hand with `get_nowait()`, `task_done` calls
    per consumer task and outside the consumer tasks), never the model."""

    def __init__(self, impl):
        self.I = impl
        self.fails = []                          # (name, step, detail)
        self.prev_phase = []
        self.prev_qsize = 0
        self.prev_td = 0
        self.released = set()                    # joiners whose release condition has occurred
        self.waiting = set()                     # joiners inside join() that had to wait
        self.jdone = set()

    def fail(self, name, step, detail):
        if not any(f[0] == name for f in self.fails):
            self.fails.append((name, step, detail))

    def after(self, step, toks):
        I = self.I
        ph = I.phases()
        # items put so far that were neither taken by a block that has exited nor taken and marked by hand: they wait in
        # the queue or are inside a block
        outstanding = I.puts - I.exits - I.takes
        # -- no ValueError from task_done
        if I.ve:
            self.fail("task_done-raised-ValueError", step, f"{I.ve} ValueError(s) from task_done()")
        # -- the only task_done calls outside the consumer tasks are the hand marks: one per item taken by hand
        if I.foreign_marks != I.takes:
            self.fail("task_done-outside-consumer", step,
                      f"{I.foreign_marks} task_done() call(s) outside any consumer task, {I.takes} item(s) taken by hand")
        # -- exactly one mark per taken item, at block exit, on every exit path; none otherwise
        for c, p in enumerate(ph):
            m = I.marks[c]
            if p.startswith("D") and c in I.took:
                if m != 1:
                    self.fail("block-exit-marks-not-exactly-once", step,
                              f"consumer {c} left its block ({p}) with item {I.took[c]}: {m} task_done call(s)")
            elif m != 0:
                where = "inside its block" if p.startswith("B") else "without ever being handed an item"
                self.fail("mark-without-block-exit", step, f"consumer {c} ({p}) {where}: {m} task_done call(s)")
        if I.td_calls != I.exits + I.takes:
            self.fail("marks-ne-block-exits", step,
                      f"task_done calls={I.td_calls} block exits={I.exits} hand-taken items={I.takes}")
        # -- every item put is in the queue, was handed to a block or was taken by hand: nothing else takes an item
        if I.puts != I.q.qsize() + len(I.took) + I.takes:
            self.fail("item-taken-by-nobody", step,
                      f"puts={I.puts}, in the queue {I.q.qsize()}, handed to blocks {len(I.took)}, taken by hand {I.takes}")
        # -- a consumer cancelled while waiting marks nothing and removes no item
        for c, p in enumerate(ph):
            before = self.prev_phase[c] if c < len(self.prev_phase) else "N"
            if p == "Dcan" and before in ("N", "W") and c not in I.took:
                if I.q.qsize() != self.prev_qsize or I.td_calls != self.prev_td:
                    self.fail("cancelled-waiter-disturbed-queue", step,
                              f"consumer {c} cancelled while waiting: qsize {self.prev_qsize}->{I.q.qsize()}, "
                              f"task_done calls {self.prev_td}->{I.td_calls}")
        # -- join() returns exactly when every item put so far was taken by a block that has exited or was taken and
        #    marked by hand
        for j, st in I.jstate.items():
            if st["started"] and j not in self.waiting and j not in self.jdone:
                if st["at_start"] == 0:
                    if not st["done"]:
                        self.fail("join-blocked-with-nothing-outstanding", step, f"join {j} called with all work done, did not return")
                    self.jdone.add(j)
                    continue
                self.waiting.add(j)
            if j in self.waiting and j not in self.jdone:
                if outstanding == 0:
                    self.released.add(j)
                if st["done"]:
                    self.jdone.add(j)
                    if j not in self.released:
                        self.fail("join-returned-early", step,
                                  f"join {j} returned although never since its call all items were taken and exited / hand-marked "
                                  f"(now puts={I.puts}, block exits={I.exits}, hand-taken={I.takes})")
        self.prev_phase, self.prev_qsize, self.prev_td = ph, I.q.qsize(), I.td_calls

    def at_end(self, step, drained):
        """after the wind-down: every ready handle has been executed"""
        if not drained:
            return
        for j in self.released - self.jdone:
            self.fail("join-not-released", step,
                      f"join {j}: all items put were taken and their blocks exited (or they were marked by hand), join() never returned")


# ------------------------------------------------------------------------------------------------ generation
PROFILES = ("fifo", "mixed", "wild")


def gen_ops(rng, profile, maxlen):
    """mostly well-formed histories; `fifo` runs handles in loop order, `mixed`/`wild` pick the k-th ready handle"""
    ops = []
    nc = 0
    nonfifo = {"fifo": 0.0, "mixed": 0.3, "wild": 0.6}[profile]
    bad = 0.15 if profile == "wild" else 0.03    # ids that name no consumer
    for _ in range(rng.randint(3, maxlen)):
        c = rng.random()

        def cid():
            if nc == 0 or rng.random() < bad:
                return rng.randint(0, nc + 1)
            return rng.randrange(nc)
        if c < 0.18:
            ops.append(f"put {rng.randint(0, 9)}")
        elif c < 0.24:
            ops.append("take")
        elif c < 0.40:
            ops.append("spawn")
            nc += 1
        elif c < 0.47:
            ops.append("join")
        elif c < 0.58:
            ops.append(f"cancel {cid()}")
        elif c < 0.73:
            ops.append(f"gate {cid()} {'ok' if rng.random() < 0.55 else 'exc'}")
        else:
            for _ in range(rng.randint(1, 4)):
                ops.append(f"run {rng.randint(1, 3)}" if rng.random() < nonfifo else "run")
    return ops


def execute(ops, winddown=True):
    """run op lines on the real queue; returns dict(lines, obs, fails, stats)"""
    # a (mutated) library may leave coroutines behind that die noisily when collected: not an observation
    sys.unraisablehook = lambda *a: None
    warnings.simplefilter("ignore")
    I = Impl()
    mon = Monitors(I)
    lines, obs = [], []
    kinds = collections.Counter()

    def one(line):
        toks = line.split()
        r = I.do(toks)
        lines.append(line)
        obs.append(I.obs(r))
        if r != "bad-op":
            mon.after(len(lines) - 1, toks)
        return r
    try:
        for ln in ops:
            one(ln)
        drained = False
        if winddown:
            for _ in range(6):
                for _ in range(400):
                    if one("run") == "noop":
                        break
                pend = [c for c, f in I.gates.items() if not f.done()]
                if not pend:
                    drained = I.loop.nready() == 0
                    break
                for c in pend:
                    one(f"gate {c} {'ok' if c % 2 == 0 else 'exc'}")
        mon.at_end(len(lines) - 1, drained)
        for c, p in enumerate(I.phases()):
            if c in I.took:
                kinds["exit:" + {"Dok": "normal", "Dexc": "exception", "Dcan": "cancelled"}.get(p, "still-in-block")] += 1
            elif p == "Dcan":
                kinds["exit:cancelled-while-waiting"] += 1
        taken = len(I.took)
        kinds["hand-marked"] += I.takes
    finally:
        I.close()
    return {"lines": lines, "obs": obs, "fails": mon.fails, "kinds": kinds, "taken": taken}


FIELDS = ("r", "n", "u", "q", "ev", "c", "j", "g", "m")


def canon(line):
    """observation line -> dict of fields (whitespace-insensitive)"""
    if " | " not in line:
        return {"raw": line.strip()}
    d = {}
    for part in line.split(" | "):
        for tok in part.split():
            k, _, v = tok.partition("=")
            d[k] = v
    return d


def first_mismatch(impl_obs, model_obs):
    for j, (a, b) in enumerate(zip(impl_obs, model_obs)):
        ca, cb = canon(a), canon(b)
        if ca != cb:
            diff = sorted(k for k in set(ca) | set(cb) if ca.get(k) != cb.get(k))
            return j, diff
    if len(impl_obs) != len(model_obs):
        return min(len(impl_obs), len(model_obs)), ["length"]
    return None, None
