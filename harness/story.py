"""Turns a trace (op lines + parsed observations) into the facts the property monitors talk about.
Works on the implementation's trace and on the model's trace alike (both print the same observation format)."""
import re

from . import obs as O

EV_RE = re.compile(r"^(S|X|Y|N|R|E|cc|cd|cr|ck|ec|ed|er|ek)(\??)(\d+)(.*)$")
PULL_RE = re.compile(r"^P(\d+):(\d+)$")


class Req:
    def __init__(self, idx, kind, name, step, num=None, items=None, nc=None, stars=None, spec=None, via_hook=False):
        self.idx = idx
        self.kind = kind            # apply | map | start
        self.name = name
        self.step = step
        self.num = num
        self.items = items          # string of 0/1 (1 = call raises)
        self.nc = nc
        self.stars = stars
        self.spec = spec            # dict(mode, swallow, ecb, ccb, bad, coro, hooks)
        self.via_hook = via_hook
        self.cancelled_at = None    # step at which its group was cancelled (cancel_group / cancel_all, any caller)
        self.tids = []              # tasks attributed to it, in order of first sighting
        self.pulls = []             # element indices pulled, in order


class TaskInfo:
    def __init__(self, tid, step):
        self.tid = tid
        self.first_seen = step
        self.req = None
        self.S = self.X = self.R = self.E = None      # steps
        self.nX = 0
        self.Y = []                 # steps at which the worker caught a CancelledError and went on running
        self.N = []                 # steps at which the worker's awaited future completed and it went on to its next await
        self.seq = {}               # event kind -> global sequence number of its first occurrence
        self.arg = None
        self.cc = []                # (step, r, c, e, reg)
        self.ec = []
        self.cdone = []             # (step, kind) kind in d r k
        self.edone = []
        self.badtag = False


def spec_of(toks):
    # worker mode `g1` / `g2` = a gated worker with that many further suspension points: for every monitor it is a gated
    # worker (`mode` "g"); the number is kept beside it
    mode, awaits = toks[0], 0
    if mode[:1] == "g":
        mode, awaits = "g", int(mode[1:] or 0)
    return dict(mode=mode, awaits=awaits, swallow=toks[1] == "1", resume=toks[1] == "2", ecb=toks[2], ccb=toks[3], bad=toks[4] == "1", coro=toks[5] == "1",
                hooks=toks[6])


class PoolStory:
    def __init__(self, idx, kind, size, spec, step, name):
        self.idx = idx
        self.kind = kind
        self.size = size            # int or None (unbounded)
        self.spec = spec
        self.created_at = step
        self.given_name = name
        self.reqs = []
        self.owner = {}             # live group name -> Req
        self.tasks = {}
        self.set_size_steps = []    # (step, value, ok)
        self.early = None           # (step, value) of an assignment made before the first request
        self.gac_steps = []
        self.flush_steps = []
        self.apis = []              # (kind, re, step)
        self.max_seen = -1
        self.has_hooks = bool(spec and spec["hooks"] != "-")
        self.lock_ops = []


class Story:
    def __init__(self, lines, obs_lines, extras=None):
        self.lines = lines
        self.toks = [[("" if t == "''" else t) for t in ln.split()] for ln in lines]     # `''` = the empty group name
        self.obs = [O.parse(o) if (o not in ("reset", "mark", "bad-op")) else None for o in obs_lines]
        self.extras = extras or [None] * len(lines)
        self.pools = []
        self.marks = {}
        self.errors = []            # structural oddities found while reading the trace
        self._seq = 0
        self._build()

    # the step index of a mark line, or None
    def mark(self, what):
        return self.marks.get(what)

    def prev_obs(self, j):
        k = j - 1
        while k >= 0 and self.obs[k] is None:
            k -= 1
        return self.obs[k] if k >= 0 else None

    def _new_req(self, ps, r):
        ps.reqs.append(r)
        ps.owner[r.name] = r

    def _build(self):
        for j, toks in enumerate(self.toks):
            o = self.obs[j]
            if not toks:
                continue
            if toks[0] == "mark":
                self.marks.setdefault(" ".join(toks[1:]), j)
                continue
            if o is None:
                continue
            res = o["r"]
            if toks[0] == "mkpool" and res.startswith("name:"):
                kind, sz, nm = toks[1], toks[2], toks[3]
                spec = spec_of(toks[4:11]) if kind == "simple" else None
                self.pools.append(PoolStory(len(self.pools), kind, None if sz == "inf" else int(sz), spec, j,
                                            None if nm == "-" else nm))
            target = None
            if toks[0] == "on" and int(toks[1]) < len(self.pools):
                target = self.pools[int(toks[1])]
                op = toks[2:]
                if op and op[-1].startswith("@"):
                    op = op[:-1]
                self._op(target, op, res, j)
            # events of every pool (a `run` executes a handle of some pool)
            for pi, po in enumerate(o["pools"]):
                if pi >= len(self.pools):
                    break
                ps = self.pools[pi]
                self._events(ps, po, j)
                self._groups(ps, po, j)

    def _op(self, ps, op, res, j):
        k = op[0]
        if k == "apply" and res.startswith("name:"):
            sp = spec_of(op[3:10])
            r = Req(len(ps.reqs), "apply", res[5:], j, num=int(op[1]), spec=sp)
            self._new_req(ps, r)
            if sp["hooks"] != "-":
                ps.has_hooks = True
        elif k == "map" and res.startswith("name:"):
            sp = spec_of([op[5], op[6], op[7], op[8], "0", op[9], op[10]])
            r = Req(len(ps.reqs), "map", res[5:], j, items="" if op[2] == "-" else op[2], nc=int(op[3]), stars=int(op[1]),
                    spec=sp)
            self._new_req(ps, r)
            if sp["hooks"] != "-":
                ps.has_hooks = True
        elif k == "start" and res.startswith("name:"):
            self._new_req(ps, Req(len(ps.reqs), "start", res[5:], j, num=int(op[1]), spec=ps.spec))
        elif k == "cancel_group" and res == "ok":
            r = ps.owner.pop(op[1], None)
            if r is not None and r.cancelled_at is None:
                r.cancelled_at = j
        elif k == "cancel_all" and res == "ok":
            for r in ps.owner.values():
                if r.cancelled_at is None:
                    r.cancelled_at = j
            ps.owner.clear()
        elif k == "set_size":
            if res == "ok" and not ps.reqs and not ps.set_size_steps:
                # assigned before the pool was ever asked for anything: that *is* the size the pool was given (C01's
                # quantifier: "fixed while tasks are in flight"); read by the C01 / C02 monitors only
                ps.early = (j, int(op[1]))
            ps.set_size_steps.append((j, int(op[1]), res == "ok"))
        elif k == "gac":
            ps.gac_steps.append(j)
            ps.apis.append(("gac", op[1] == "1", j))
        elif k == "flush":
            ps.flush_steps.append(j)
            ps.apis.append(("flush", op[1] == "1", j))
        elif k == "until_closed":
            ps.apis.append(("until_closed", False, j))
        elif k in ("lock", "unlock"):
            ps.lock_ops.append((j, k))

    def _task(self, ps, tid, j):
        t = ps.tasks.get(tid)
        if t is None:
            t = ps.tasks[tid] = TaskInfo(tid, j)
            ps.max_seen = max(ps.max_seen, tid)
        return t

    def _events(self, ps, po, j):
        for e in po["ev"]:
            m = PULL_RE.match(e)
            if m:
                ri, k = int(m.group(1)), int(m.group(2))
                if ri < len(ps.reqs):
                    ps.reqs[ri].pulls.append((j, k))
                continue
            if e.startswith("h["):
                inner = e[2:-1]
                if inner.startswith("name:"):
                    # an `apply` made from user code: gated worker, no callbacks, generated name
                    self._new_req(ps, Req(len(ps.reqs), "apply", inner[5:], j, num=None, via_hook=True,
                                          spec=dict(mode="g", awaits=0, swallow=False, resume=False, ecb="n", ccb="n", bad=False, coro=True, hooks="-")))
                continue
            m = EV_RE.match(e)
            if not m:
                self.errors.append((j, "unparsed event " + e))
                continue
            kind, bad, tid, rest = m.group(1), m.group(2), int(m.group(3)), m.group(4)
            t = self._task(ps, tid, j)
            self._seq += 1
            t.seq.setdefault(kind, self._seq)
            if bad:
                t.badtag = True
            if kind == "S":
                if t.S is not None:
                    self.errors.append((j, f"task id {tid} started a second time (id reused)"))
                t.S = j
                t.arg = rest.strip("()")
            elif kind == "X":
                t.X = j
                t.nX += 1
            elif kind == "Y":
                t.Y.append(j)           # caught a CancelledError and went on: still running
            elif kind == "N":
                t.N.append(j)           # went on to its next await: still running, nothing has ended
            elif kind == "R":
                t.R = j
            elif kind == "E":
                t.E = j
            elif kind in ("cc", "ec"):
                parts = rest.lstrip(":").split("/")
                rec = (j, int(parts[0]), int(parts[1]), int(parts[2]), parts[3] if len(parts) > 3 else "?")
                (t.cc if kind == "cc" else t.ec).append(rec)
            elif kind in ("cd", "cr", "ck"):
                t.cdone.append((j, kind[1]))
            elif kind in ("ed", "er", "ek"):
                t.edone.append((j, kind[1]))

    def _groups(self, ps, po, j):
        for name, ids in po["g"].items():
            if ids is None:
                # the pool no longer knows the name: whoever cancelled it (op or user code)
                r = ps.owner.pop(name, None)
                if r is not None and r.cancelled_at is None:
                    r.cancelled_at = j
                continue
            r = ps.owner.get(name)
            for tid in ids:
                t = self._task(ps, tid, j)
                if t.req is None and r is not None:
                    t.req = r
                    r.tids.append(tid)

    # ------------------------------------------------------------------ helpers for monitors
    def live_counts(self, pi):
        """per step: (live after the step, maximum live at any event instant during the step), from worker events"""
        live = set()
        out = []
        for j, o in enumerate(self.obs):
            if o is None or pi >= len(o["pools"]):
                out.append((len(live), len(live)))
                continue
            mx = len(live)
            for e in o["pools"][pi]["ev"]:
                m = EV_RE.match(e)
                if not m:
                    continue
                kind, tid = m.group(1), int(m.group(3))
                if kind == "S":
                    live.add(tid)
                    mx = max(mx, len(live))
                elif kind in ("X", "R", "E"):
                    live.discard(tid)
            out.append((len(live), mx))
        return out

    def in_callback(self, pi, j):
        """tids suspended inside a (coroutine) callback after step j"""
        ps = self.pools[pi]
        out = []
        for t in ps.tasks.values():
            for starts, dones in ((t.cc, t.cdone), (t.ec, t.edone)):
                ns = sum(1 for s in starts if s[0] <= j)
                nd = sum(1 for d in dones if d[0] <= j)
                if ns > nd:
                    out.append(t.tid)
        return out
