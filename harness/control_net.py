"""C19: the control server over real sockets (TCP 127.0.0.1 port 0, Unix sockets in a fresh temp directory), raw
stream clients and the bundled CLI client as a subprocess, compared step by step with the Lean life-cycle model.

Every wait is bounded.  A wait for something the *implementation* owes (a reply, completion of the serving task) that
runs out is a finding; a wait for something only the harness itself does (spawning python) raises HarnessTimeout."""
import asyncio
import collections
import os
import shutil
import sys
import tempfile
import time

from asyncio_taskpool.control.server import TCPControlServer, UnixControlServer

from . import control_world as W
from . import model, wmod
from .control_run import Capture, class_ctx, make_pool, run_async

STEP_WAIT = 3.0          # bounded wait for an observation the implementation owes
HOLD = 0.03              # a state that must *not* change is looked at again after this long
PY = sys.executable


def free_port():
    """a port of 127.0.0.1 that was free a moment ago (bind to port 0, read the number, release)"""
    import socket
    with socket.socket(socket.AF_INET, socket.SOCK_STREAM) as sk:
        sk.bind(("127.0.0.1", 0))
        return sk.getsockname()[1]


def repo_src():
    return os.path.join(os.environ.get("VERIF_REPO", "/repo"), "src")


class RawClient:
    kind = "raw"

    def __init__(self):
        self.reader = self.writer = None
        self.open = False

    async def connect(self, srv_addr, name):
        try:
            if srv_addr[0] == "tcp":
                fut = asyncio.open_connection("127.0.0.1", srv_addr[1])
            else:
                fut = asyncio.open_unix_connection(srv_addr[1])
            self.reader, self.writer = await asyncio.wait_for(fut, STEP_WAIT)
        except (ConnectionError, FileNotFoundError, OSError, asyncio.TimeoutError):
            return False, None
        self.writer.write(W.hello_line(80).encode() + b"\n")
        try:
            await self.writer.drain()
            line = await asyncio.wait_for(self.reader.readline(), STEP_WAIT)
        except (ConnectionError, asyncio.TimeoutError):
            line = b""
        if not line:
            # connected on the kernel level but never greeted: the server did not accept us
            self.writer.close()
            return False, None
        self.open = True
        return True, line.decode()

    async def command(self, line):
        """returns (reply text or None, server closed the connection afterwards)"""
        try:
            self.writer.write(line.encode() + b"\n")
            await self.writer.drain()
            data = await asyncio.wait_for(self.reader.read(1 << 16), STEP_WAIT)
        except (ConnectionError, asyncio.TimeoutError):
            return None, False
        if not data:
            return None, True
        try:
            more = await asyncio.wait_for(self.reader.read(1 << 16), 0.05)
            if more == b"":
                return data.decode(), True
            data += more
        except asyncio.TimeoutError:
            pass
        return data.decode(), False

    async def saw_eof(self):
        try:
            return (await asyncio.wait_for(self.reader.read(1 << 16), STEP_WAIT)) == b""
        except (ConnectionError,):
            return True
        except asyncio.TimeoutError:
            return False

    async def close(self, how):
        if not self.open:
            return
        self.open = False
        try:
            if how == "eof" and self.writer.can_write_eof():
                self.writer.write_eof()
                await asyncio.wait_for(self.reader.read(), STEP_WAIT)     # the server closes its side in response
            elif how == "blank":
                self.writer.write(b"\n")
                await self.writer.drain()
                await asyncio.wait_for(self.reader.read(), STEP_WAIT)
            self.writer.close()
            await asyncio.wait_for(self.writer.wait_closed(), STEP_WAIT)
        except (ConnectionError, asyncio.TimeoutError, OSError):
            pass


class CliClient:
    """`python -m asyncio_taskpool.control tcp|unix …` with piped stdin/stdout"""
    kind = "cli"

    def __init__(self):
        self.proc = None
        self.open = False
        self.buf = ""
        self.err = ""

    async def _read_until_prompt(self, timeout):
        end = time.time() + timeout
        while not self.buf.endswith("> "):
            left = end - time.time()
            if left <= 0:
                return False
            try:
                chunk = await asyncio.wait_for(self.proc.stdout.read(1 << 16), left)
            except asyncio.TimeoutError:
                return False
            if not chunk:
                return False
            self.buf += chunk.decode()
        return True

    async def connect(self, srv_addr, name):
        args = [PY, "-m", "asyncio_taskpool.control"] + (["tcp", "127.0.0.1", str(srv_addr[1])] if srv_addr[0] == "tcp"
                                                         else ["unix", srv_addr[1]])
        env = dict(os.environ, PYTHONPATH=repo_src(), PYTHONUNBUFFERED="1", COLUMNS="80")
        try:
            self.proc = await asyncio.wait_for(asyncio.create_subprocess_exec(
                *args, stdin=asyncio.subprocess.PIPE, stdout=asyncio.subprocess.PIPE, stderr=asyncio.subprocess.PIPE,
                env=env), 20)
        except asyncio.TimeoutError:
            raise W.HarnessTimeout("could not spawn the CLI client")
        ok = await self._read_until_prompt(20)
        if not ok:
            try:
                await asyncio.wait_for(self.proc.wait(), 10)
            except asyncio.TimeoutError:
                self.proc.kill()
                raise W.HarnessTimeout("CLI client neither connected nor exited")
            self.err = (await self.proc.stderr.read()).decode()
            return False, self.buf + self.err
        greeting, self.buf = self.buf, ""
        self.open = True
        first = greeting.split("\n", 1)[0]
        return True, first.replace("Connected to ", "") + "\n"

    async def command(self, line):
        self.proc.stdin.write(line.encode() + b"\n")
        try:
            await self.proc.stdin.drain()
        except ConnectionError:
            return None, False
        ok = await self._read_until_prompt(STEP_WAIT + 2)
        out, self.buf = self.buf, ""
        if not ok:
            return None, False
        text = out[:-2]                    # strip the next prompt
        if text.endswith("\n"):
            text = text[:-1]               # print() adds one newline to the reply
        return text, False

    async def saw_eof(self):
        return True

    async def close(self, how):
        if not self.open:
            return None
        self.open = False
        try:
            if how == "eof":
                self.proc.stdin.close()
            else:
                self.proc.stdin.write(b"exit\n")
                await self.proc.stdin.drain()
        except (ConnectionError, OSError):
            pass
        try:
            rc = await asyncio.wait_for(self.proc.wait(), 15)
        except asyncio.TimeoutError:
            self.proc.kill()
            await self.proc.wait()
            return "cli client did not exit"
        rest = (await self.proc.stdout.read()).decode()
        self.buf += rest
        if "Disconnected from control server." not in self.buf:
            return f"cli client exit code {rc} without the disconnect message: {self.buf[-200:]!r}"
        return None

    def kill(self):
        if self.proc is not None and self.proc.returncode is None:
            try:
                self.proc.kill()
            except ProcessLookupError:
                pass


COMMANDS = ["num-running", "is-locked", "pool-size", "lock", "unlock", "num-ended", "is-full", "bogus"]


def expected_reply(pool, line):
    if line == "lock" or line == "unlock":
        return "ok\n"
    if line == "bogus":
        return None
    return str(getattr(pool, line.replace("-", "_"))) + "\n"


def gen_ops(rng, tier, cli_budget):
    """connect / command / disconnect (clean, exit command, EOF) / stop in a random order; the tail closes everything so
    that every case also checks the complete life cycle"""
    ops = []
    n_open = []
    stopped = False
    total = 0

    def connect():
        nonlocal total
        kind = "cli" if (cli_budget[0] > 0 and rng.random() < 0.35) else "raw"
        if kind == "cli":
            cli_budget[0] -= 1
        ops.append(["connect", kind])
        n_open.append((total, kind))
        total += 1

    for _ in range(rng.randint(0, 3)):
        connect()
    for _ in range(rng.randint(2, 9 if tier == "quick" else 16)):
        r = rng.random()
        if r < 0.2:
            if stopped:
                ops.append(["probe"])
            elif total < 5:
                connect()
        elif r < 0.55 and n_open:
            i, kind = rng.choice(n_open)
            ops.append(["cmd", i, rng.choice(COMMANDS)])
            if stopped:
                n_open = [(j, k) for j, k in n_open if j != i]
        elif r < 0.8 and n_open:
            i, kind = rng.choice(n_open)
            how = rng.choice(["exit", "eof"] if kind == "cli" else ["close", "eof", "blank"])
            ops.append(["leave", i, how])
            n_open = [(j, k) for j, k in n_open if j != i]
        elif r < 0.93 and not stopped:
            ops.append(["stop"])
            stopped = True
        elif stopped:
            ops.append(["probe"])
    if not stopped and rng.random() < 0.5:
        ops.append(["stop"])
        stopped = True
    rng.shuffle(n_open)
    for i, kind in n_open:
        how = rng.choice(["exit", "eof"] if kind == "cli" else ["close", "eof", "blank"])
        ops.append(["leave", i, how])
    if not stopped:
        ops.append(["stop"])
    ops.append(["probe"])
    return ops


def model_lines(case):
    lines = [f"vstart {'unix' if case['transport'] == 'unix' else 'tcp'}"]
    idx = 0
    live = {}
    for op in case["ops"]:
        if op[0] in ("connect", "probe"):
            lines.append("vin connect")
        elif op[0] == "cmd":
            lines.append(f"vin line {op[1]}")
        elif op[0] == "leave":
            lines.append(f"vin {'exit' if op[2] == 'exit' else 'close'} {op[1]}")
        elif op[0] == "stop":
            lines.append("vin stop")
    return lines


def parse_model(line):
    return dict(x.split("=", 1) for x in line.split(" "))


class NetRun:
    def __init__(self, case):
        self.case = case
        self.fails = []
        self.stats = collections.Counter()
        self.trace = []

    def fail(self, kind, **kw):
        self.fails.append(dict(kind=kind, **kw))

    async def settle(self, want, step):
        """poll until the observable server state is what the model says, then make sure it stays"""
        def look():
            return {"listening": "1" if self.srv.is_serving() else "0", "done": "1" if self.task.done() else "0",
                    "file": ("1" if os.path.exists(self.path) else "0") if self.case["transport"] == "unix" else "0"}
        want = {k: want[k] for k in ("listening", "done", "file")}
        end = time.time() + STEP_WAIT
        while look() != want and time.time() < end:
            await asyncio.sleep(0.005)
        if look() == want:
            await asyncio.sleep(HOLD)
        got = look()
        self.trace.append({"step": step, "op": self.case["ops"][step] if step >= 0 else "start", "impl": got, "model": want})
        if got == want:
            return True
        if want["done"] == "1" and got["done"] == "0":
            self.fail("monitor", monitor="serving-task-not-done-after-stop-and-clients-gone", step=step, detail=got)
        elif want["listening"] == "0" and got["listening"] == "1":
            self.fail("monitor", monitor="still-serving-after-stop", step=step, detail=got)
        elif want["file"] == "0" and got["file"] == "1":
            self.fail("monitor", monitor="socket-file-not-removed", step=step, detail=got)
        else:
            self.fail("diff", what="server state", step=step, model=want, impl=got)
        return False

    async def scenario(self):
        case = self.case
        ctx = class_ctx(case.get("cls", "TaskPool"))
        wmod.reset()
        self.pool = pool = make_pool(ctx, "P")
        self.dir = tempfile.mkdtemp(prefix="verif-c19-")
        self.path = os.path.join(self.dir, "s.sock")
        clients = []
        mlines = model.run_driver("cdriver", model_lines(case))
        mi = 0
        try:
            with Capture() as cap:
                port = None
                for attempt in range(8):
                    if case["transport"] == "tcp":
                        port = free_port()
                        self.srv = TCPControlServer(pool, host="127.0.0.1", port=port)
                    else:
                        self.srv = UnixControlServer(pool, socket_path=self.path)
                    t0 = time.time()
                    try:
                        self.task = await asyncio.wait_for(self.srv.serve_forever(), STEP_WAIT)
                        break
                    except asyncio.TimeoutError:
                        self.fail("monitor", monitor="serve-forever-did-not-return", detail="")
                        return
                    except OSError as e:
                        if case["transport"] == "tcp" and attempt < 7:
                            continue            # the probed port was taken in the meantime
                        raise W.HarnessTimeout(f"could not bind a server socket: {e!r}")
                self.stats["serve_forever_us"] = int((time.time() - t0) * 1e6)
                if not isinstance(self.task, asyncio.Task) or self.task.done():
                    self.fail("monitor", monitor="serve-forever-no-live-task", detail=repr(self.task))
                    return
                addr = ("tcp", port) if case["transport"] == "tcp" else ("unix", self.path)
                if hasattr(pool, "apply"):
                    pool.apply(wmod.w, args=(1,), num=2)
                else:
                    pool.start(2)
                await W.spin(10)
                await self.settle(parse_model(mlines[mi]), -1)
                mi += 1
                base = W.observe(pool)
                locked = False
                for step, op in enumerate(case["ops"]):
                    m = parse_model(mlines[mi])
                    mi += 1
                    self.stats["op:" + op[0]] += 1
                    if op[0] in ("connect", "probe"):
                        c = RawClient() if op[0] == "probe" or op[1] == "raw" else CliClient()
                        ok, greeting = await c.connect(addr, str(pool))
                        self.stats["clients:" + c.kind] += 1
                        if ok != (m["accepted"] == "1"):
                            if ok:
                                self.fail("monitor", monitor="accepts-connections-after-stop", step=step, detail=greeting)
                            else:
                                self.fail("monitor", monitor="client-not-served", step=step, detail=greeting)
                        if ok and greeting != str(pool) + "\n":
                            self.fail("monitor", monitor="handshake-reply", step=step, detail=greeting)
                        if ok:
                            clients.append(c)
                        elif c.kind == "cli":
                            c.kill()
                    elif op[0] == "cmd":
                        c = clients[op[1]] if op[1] < len(clients) else None
                        if c is not None and c.open:
                            want = expected_reply(pool, op[2])
                            if op[2] == "lock":
                                locked = True
                            if op[2] == "unlock":
                                locked = False
                            reply, closed = await c.command(op[2])
                            self.stats["commands"] += 1
                            if (reply is not None) != (m["answered"] == "1"):
                                self.fail("monitor", monitor="client-not-served", step=step, detail={"line": op[2], "reply": reply})
                            elif reply is not None:
                                if want is not None and reply != want:
                                    self.fail("monitor", monitor="wrong-reply", step=step, detail={"line": op[2], "reply": reply, "want": want})
                                if want is None and "invalid choice" not in reply:
                                    self.fail("monitor", monitor="wrong-reply", step=step, detail={"line": op[2], "reply": reply[:200]})
                            if m["stop"] == "1" and c.kind == "raw":
                                # the session leaves its loop after answering once the server no longer serves
                                if not closed and not await c.saw_eof():
                                    self.fail("diff", what="connection not closed by the server after the reply", step=step)
                                c.open = False
                                c.writer.close()
                            elif m["stop"] == "1":
                                msg = await c.close("exit")
                                if msg:
                                    self.fail("monitor", monitor="cli-client", step=step, detail=msg)
                    elif op[0] == "leave":
                        c = clients[op[1]] if op[1] < len(clients) else None
                        if c is not None and c.open:
                            before = W.observe(pool)
                            msg = await c.close(op[2])
                            if msg:
                                self.fail("monitor", monitor="cli-client", step=step, detail=msg)
                            await asyncio.sleep(0.01)
                            if W.observe(pool) != before:
                                self.fail("monitor", monitor="disconnect-altered-pool", step=step, detail=[before, W.observe(pool)])
                            for other in clients:
                                if other.open and other.kind == "raw" and m["stop"] == "0":
                                    r, _ = await other.command("num-running")
                                    if r != str(pool.num_running) + "\n":
                                        self.fail("monitor", monitor="disconnect-disturbed-other-session", step=step, detail=r)
                                    break
                    elif op[0] == "stop":
                        self.task.cancel()
                    await self.settle(m, step)
                    if self.fails:
                        break
                now = W.observe(pool)
                if (now[0], now[1], now[2]) != (base[0], base[1], base[2]):
                    self.fail("monitor", monitor="pool-tasks-disturbed", detail=[base, now])
                o, e = cap.take()
                if o or e:
                    self.fail("monitor", monitor="printed", detail={"stdout": o[:200], "stderr": e[:200]})
        finally:
            for c in clients:
                try:
                    if c.kind == "cli":
                        c.kill()
                        if c.proc is not None:
                            await asyncio.wait_for(c.proc.wait(), 5)
                    elif c.writer is not None:
                        c.writer.close()
                except Exception:
                    pass
            if getattr(self, "task", None) is not None and not self.task.done():
                self.task.cancel()
                try:
                    await asyncio.wait_for(asyncio.gather(self.task, return_exceptions=True), 1.0)
                except asyncio.TimeoutError:
                    pass
            await W.settle_pool(pool)
            shutil.rmtree(self.dir, ignore_errors=True)

    def run(self):
        run_async(self.scenario, 180)
        return self.fails, self.stats, self.trace
