"""C19: the control server over real sockets (TCP 127.0.0.1 port 0, Unix sockets in a fresh temp directory), raw
stream clients and the bundled CLI client as a subprocess, compared step by step with the Lean life-cycle model.

Every wait is bounded.  A wait for something the *implementation* owes (a reply, completion of the serving task) that
runs out is a finding; a wait for something only the harness itself does (spawning python) raises HarnessTimeout."""
import asyncio
import collections
import errno
import gc
import os
import shutil
import sys
import socket
import tempfile
import time

from asyncio_taskpool.control.server import TCPControlServer, UnixControlServer

from . import control_world as W
from . import model, wmod
from .control_run import Capture, class_ctx, make_pool, run_async

STEP_WAIT = 2.5          # bounded wait for an observation the implementation owes
HOLD = 0.03              # a state that must *not* change is looked at again after this long
PY = sys.executable


def free_port():
    """a port of 127.0.0.1 that was free a moment ago (bind to port 0, read the number, release)"""
    import socket
    with socket.socket(socket.AF_INET, socket.SOCK_STREAM) as sk:
        sk.bind(("127.0.0.1", 0))
        return sk.getsockname()[1]


def free_to_bind(port):
    import socket
    try:
        with socket.socket(socket.AF_INET, socket.SOCK_STREAM) as sk:
            sk.setsockopt(socket.SOL_SOCKET, socket.SO_REUSEADDR, 1)
            sk.bind(("127.0.0.1", port))
        return True
    except OSError:
        return False


def repo_src():
    return os.path.join(os.environ.get("VERIF_REPO", "/repo"), "src")


BAD_HELLO = {"garbage": b"GET / HTTP/1.0\r\n\r\n", "nowidth": b"{}\n", "partial": b'{"terminal_wid', "emptyline": b"\n",
             "notjson": b"hello\n"}


class RawClient:
    kind = "raw"

    def __init__(self):
        self.reader = self.writer = None
        self.open = False
        self.mute = False           # connected, no handshake sent
        self.busy = None            # the waiting command in flight

    async def connect(self, srv_addr, name):
        try:
            if srv_addr[0] == "tcp":
                fut = asyncio.open_connection("127.0.0.1", srv_addr[1])
            else:
                fut = asyncio.open_unix_connection(srv_addr[1])
            self.reader, self.writer = await asyncio.wait_for(fut, STEP_WAIT)
        except (ConnectionError, FileNotFoundError, OSError, asyncio.TimeoutError):
            return False, None
        self.writer.write(W.hello_line(80).encode() + b"\n")
        try:
            await self.writer.drain()
            line = await asyncio.wait_for(self.reader.readline(), STEP_WAIT)
        except (ConnectionError, asyncio.TimeoutError):
            line = b""
        if not line:
            # connected on the kernel level but never greeted: the server did not accept us
            self.writer.close()
            return False, None
        self.open = True
        return True, line.decode()

    async def connect_only(self, srv_addr):
        """transport-level connection, no handshake line (a port probe, a client killed at start-up, not a control client)"""
        try:
            if srv_addr[0] == "tcp":
                fut = asyncio.open_connection("127.0.0.1", srv_addr[1])
            else:
                fut = asyncio.open_unix_connection(srv_addr[1])
            self.reader, self.writer = await asyncio.wait_for(fut, STEP_WAIT)
        except (ConnectionError, FileNotFoundError, OSError, asyncio.TimeoutError):
            return False
        self.open = True
        self.mute = True
        return True

    async def send_only(self, line):
        try:
            self.writer.write(line.encode() + b"\n")
            await self.writer.drain()
            return True
        except ConnectionError:
            return False

    async def read_reply(self, timeout):
        """(reply or None, connection closed by the server afterwards)"""
        try:
            data = await asyncio.wait_for(self.reader.read(1 << 16), timeout)
        except (ConnectionError, asyncio.TimeoutError):
            return None, False
        if not data:
            return None, True
        try:
            more = await asyncio.wait_for(self.reader.read(1 << 16), 0.05)
            if more == b"":
                return data.decode(), True
            data += more
        except asyncio.TimeoutError:
            pass
        return data.decode(), False

    async def command(self, line):
        """returns (reply text or None, server closed the connection afterwards)"""
        try:
            self.writer.write(line.encode() + b"\n")
            await self.writer.drain()
            data = await asyncio.wait_for(self.reader.read(1 << 16), STEP_WAIT)
        except (ConnectionError, asyncio.TimeoutError):
            return None, False
        if not data:
            return None, True
        try:
            more = await asyncio.wait_for(self.reader.read(1 << 16), 0.05)
            if more == b"":
                return data.decode(), True
            data += more
        except asyncio.TimeoutError:
            pass
        return data.decode(), False

    async def saw_eof(self):
        try:
            return (await asyncio.wait_for(self.reader.read(1 << 16), STEP_WAIT)) == b""
        except (ConnectionError,):
            return True
        except asyncio.TimeoutError:
            return False

    async def close(self, how):
        if not self.open:
            return
        self.open = False
        try:
            if how == "eof" and self.writer.can_write_eof():
                self.writer.write_eof()
                await asyncio.wait_for(self.reader.read(), STEP_WAIT)     # the server closes its side in response
            elif how == "blank":
                self.writer.write(b"\n")
                await self.writer.drain()
                await asyncio.wait_for(self.reader.read(), STEP_WAIT)
            elif how in BAD_HELLO:
                # leaves in the middle of the handshake: something that is not a handshake line, then gone
                self.writer.write(BAD_HELLO[how])
                await self.writer.drain()
            self.writer.close()
            await asyncio.wait_for(self.writer.wait_closed(), STEP_WAIT)
        except (ConnectionError, asyncio.TimeoutError, OSError):
            pass


class CliClient:
    """`python -m asyncio_taskpool.control tcp|unix …` with piped stdin/stdout"""
    kind = "cli"

    def __init__(self):
        self.proc = None
        self.open = False
        self.mute = False
        self.busy = None
        self.buf = ""
        self.err = ""

    async def _read_until_prompt(self, timeout):
        end = time.time() + timeout
        while not self.buf.endswith("> "):
            left = end - time.time()
            if left <= 0:
                return False
            try:
                chunk = await asyncio.wait_for(self.proc.stdout.read(1 << 16), left)
            except asyncio.TimeoutError:
                return False
            if not chunk:
                return False
            self.buf += chunk.decode()
        return True

    async def connect(self, srv_addr, name):
        args = [PY, "-m", "asyncio_taskpool.control"] + (["tcp", "127.0.0.1", str(srv_addr[1])] if srv_addr[0] == "tcp"
                                                         else ["unix", srv_addr[1]])
        env = dict(os.environ, PYTHONPATH=repo_src(), PYTHONUNBUFFERED="1", COLUMNS="80")
        try:
            self.proc = await asyncio.wait_for(asyncio.create_subprocess_exec(
                *args, stdin=asyncio.subprocess.PIPE, stdout=asyncio.subprocess.PIPE, stderr=asyncio.subprocess.PIPE,
                env=env), 20)
        except asyncio.TimeoutError:
            raise W.HarnessTimeout("could not spawn the CLI client")
        ok = await self._read_until_prompt(20)
        if not ok:
            try:
                await asyncio.wait_for(self.proc.wait(), 10)
            except asyncio.TimeoutError:
                self.proc.kill()
                raise W.HarnessTimeout("CLI client neither connected nor exited")
            self.err = (await self.proc.stderr.read()).decode()
            return False, self.buf + self.err
        greeting, self.buf = self.buf, ""
        self.open = True
        first = greeting.split("\n", 1)[0]
        return True, first.replace("Connected to ", "") + "\n"

    async def command(self, line):
        self.proc.stdin.write(line.encode() + b"\n")
        try:
            await self.proc.stdin.drain()
        except ConnectionError:
            return None, False
        ok = await self._read_until_prompt(STEP_WAIT + 2)
        out, self.buf = self.buf, ""
        if not ok:
            return None, False
        text = out[:-2]                    # strip the next prompt
        if text.endswith("\n"):
            text = text[:-1]               # print() adds one newline to the reply
        return text, False

    async def saw_eof(self):
        return True

    async def close(self, how):
        if not self.open:
            return None
        self.open = False
        try:
            if how == "eof":
                self.proc.stdin.close()
            else:
                self.proc.stdin.write(b"exit\n")
                await self.proc.stdin.drain()
        except (ConnectionError, OSError):
            pass
        try:
            rc = await asyncio.wait_for(self.proc.wait(), 8)
        except asyncio.TimeoutError:
            self.proc.kill()
            await self.proc.wait()
            return "cli client did not exit"
        rest = (await self.proc.stdout.read()).decode()
        self.buf += rest
        if "Disconnected from control server." not in self.buf:
            return f"cli client exit code {rc} without the disconnect message: {self.buf[-200:]!r}"
        return None

    def kill(self):
        if self.proc is not None and self.proc.returncode is None:
            try:
                self.proc.kill()
            except ProcessLookupError:
                pass


COMMANDS = ["num-running", "is-locked", "pool-size", "lock", "unlock", "num-ended", "is-full", "bogus"]


def expected_reply(pool, line):
    if line == "lock" or line == "unlock":
        return "ok\n"
    if line == "bogus":
        return None
    return str(getattr(pool, line.replace("-", "_"))) + "\n"


QUIET = ["num-running", "is-locked", "pool-size", "num-ended", "is-full", "bogus"]
WAITERS = ["until-closed", "gather-and-close"]


class Book:
    """static bookkeeping of a case: which client index exists, is open, is mute (no handshake), has a waiting command in
    flight.  The generator draws valid ops from it, the runner skips ops it calls invalid (shrinking may produce them) and
    it yields the life-cycle model's input lines per op."""

    def __init__(self):
        self.clients = []           # dicts: kind, open, hanging
        self.stopped = False
        self.closed = False         # the pool was closed by a release

    def usable(self, i, mute=False):
        return 0 <= i < len(self.clients) and self.clients[i]["open"] and self.clients[i]["hanging"] is None \
            and (self.clients[i]["kind"] == "mute") == mute

    def answered(self, i, lines):
        lines.append(f"vin line {i}")
        if self.stopped:
            self.clients[i]["open"] = False     # the session leaves its loop after answering

    def apply(self, op):
        """-> (valid, model lines)"""
        lines = []
        if op[0] in ("connect", "probe"):
            lines.append("vin connect")
            if not self.stopped:
                self.clients.append({"kind": "raw" if op[0] == "probe" else op[1], "open": True, "hanging": None})
            return True, lines
        if op[0] == "cmd":
            if not self.usable(op[1]):
                return False, lines
            self.answered(op[1], lines)
            return True, lines
        if op[0] == "leave":
            i = op[1]
            if not (0 <= i < len(self.clients) and self.clients[i]["open"] and self.clients[i]["hanging"] is None):
                return False, lines
            mute = self.clients[i]["kind"] == "mute"
            if mute != (op[2] in BAD_HELLO or (mute and op[2] in ("close", "eof"))):
                return False, lines
            self.clients[i]["open"] = False
            lines.append(f"vin {'exit' if op[2] == 'exit' else 'close'} {i}")
            return True, lines
        if op[0] == "hang":
            if not self.usable(op[1]) or self.clients[op[1]]["kind"] != "raw" or self.closed:
                return False, lines
            self.clients[op[1]]["hanging"] = op[2]
            return True, lines
        if op[0] == "release":
            hangers = [i for i, c in enumerate(self.clients) if c["hanging"] is not None]
            if not hangers:
                return False, lines
            closer = op[1]
            if closer is not None:
                if not self.usable(closer) or self.clients[closer]["kind"] != "raw":
                    return False, lines
                self.answered(closer, lines)
            for i in hangers:
                self.clients[i]["hanging"] = None
                self.answered(i, lines)
            self.closed = True
            return True, lines
        if op[0] == "stop":
            if self.stopped:
                return False, lines
            self.stopped = True
            lines.append("vin stop")
            return True, lines
        if op[0] == "restart":
            # `serve_forever()` again on the same server object; only once the previous serving task is done
            if not self.stopped or any(c["open"] for c in self.clients):
                return False, lines
            self.stopped = False
            lines.append("vin restart")
            return True, lines
        return False, lines

    def open_clients(self, kinds=("raw", "cli")):
        return [i for i, c in enumerate(self.clients) if c["open"] and c["hanging"] is None and c["kind"] in kinds]

    def hangers(self):
        return [i for i, c in enumerate(self.clients) if c["hanging"] is not None]


def how_to_leave(rng, kind):
    if kind == "cli":
        return rng.choice(["exit", "eof"])
    if kind == "mute":
        return rng.choice(["close", "eof"] + sorted(BAD_HELLO))
    return rng.choice(["close", "eof", "blank"])


def gen_ops(rng, tier, cli_budget):
    """connect (raw | cli | mute = no handshake) / command / waiting command in flight while others are served / disconnect
    (clean, exit command, EOF, in the middle of the handshake) / stop, in a random order; the tail releases every wait and
    closes everything so that every case also checks the complete life cycle.  One case in four ends with a client that
    leaves during its handshake as the LAST client before (or after) the stop."""
    ops = []
    b = Book()

    def add(op):
        ok, _ = b.apply(op)
        if ok:
            ops.append(op)
        return ok

    def connect():
        r = rng.random()
        kind = "cli" if (cli_budget[0] > 0 and r < 0.3) else ("mute" if r > 0.78 else "raw")
        if kind == "cli":
            cli_budget[0] -= 1
        add(["connect", kind])

    for _ in range(rng.randint(0, 3)):
        connect()

    def release():
        raws = b.open_clients(("raw",))
        need_closer = "gather-and-close" not in [b.clients[i]["hanging"] for i in b.hangers()]
        add(["release", rng.choice(raws) if (need_closer and raws and rng.random() < 0.8) else None])

    def background(n):
        """ordinary traffic"""
        for _ in range(n):
            r = rng.random()
            anyc = b.open_clients(("raw", "cli"))
            if r < 0.2:
                if b.stopped:
                    add(["probe"])
                elif len(b.clients) < 7:
                    connect()
            elif r < 0.6 and anyc:
                add(["cmd", rng.choice(anyc), rng.choice(QUIET if (b.hangers() or b.closed) else COMMANDS)])
            elif r < 0.82 and b.open_clients(("raw", "cli", "mute")):
                i = rng.choice(b.open_clients(("raw", "cli", "mute")))
                add(["leave", i, how_to_leave(rng, b.clients[i]["kind"])])
            elif r < 0.93:
                add(["stop", rng.randint(0, 5)] if rng.random() < 0.4 else ["stop"])
            elif b.stopped:
                add(["probe"])

    n = rng.randint(2, 9 if tier == "quick" else 16)
    if rng.random() < 0.4:
        # one client (or two) has a waiting command in flight while the others go on
        k = rng.randint(0, n)
        background(k)
        while len(b.open_clients(("raw",))) < 2 and not b.stopped and len(b.clients) < 7:
            add(["connect", "raw"])
        raws = b.open_clients(("raw",))
        if len(raws) >= 2:
            cmds = rng.sample(WAITERS, rng.choice([1, 1, 2]))
            for w_, i in zip(cmds, rng.sample(raws, len(cmds))):
                if len(b.open_clients(("raw", "cli"))) >= 2:
                    add(["hang", i, w_])
            others = b.open_clients(("raw", "cli"))
            for _ in range(rng.randint(1, 3)):
                if others:
                    add(["cmd", rng.choice(others), rng.choice(QUIET)])
                    others = b.open_clients(("raw", "cli"))
            background(rng.randint(0, 3))
            if b.hangers():
                release()
        background(n - k)
    else:
        background(n)
    if b.hangers():
        raws = b.open_clients(("raw",))
        need_closer = "gather-and-close" not in [b.clients[i]["hanging"] for i in b.hangers()]
        add(["release", rng.choice(raws) if (need_closer and raws and rng.random() < 0.8) else None])
    if not b.stopped and rng.random() < 0.5:
        add(["stop", rng.randint(0, 5)] if rng.random() < 0.4 else ["stop"])
    rest = b.open_clients(("raw", "cli", "mute"))
    rng.shuffle(rest)
    ghost_last = rng.random() < 0.25
    if ghost_last:
        rest = [i for i in rest if b.clients[i]["kind"] != "mute"] + [i for i in rest if b.clients[i]["kind"] == "mute"]
    for i in rest:
        add(["leave", i, how_to_leave(rng, b.clients[i]["kind"])])
    if ghost_last and not b.stopped:
        add(["connect", "mute"])
        add(["leave", len(b.clients) - 1, how_to_leave(rng, "mute")])
    add(["stop"])
    add(["probe"])
    if rng.random() < 0.3:
        # a second cycle on the same server object
        add(["restart"])
        for _ in range(rng.randint(1, 2)):
            add(["connect", rng.choice(["raw", "raw", "cli", "mute"])])
        for _ in range(rng.randint(0, 3)):
            live = b.open_clients(("raw", "cli"))
            if live:
                add(["cmd", rng.choice(live), rng.choice(QUIET)])
        if rng.random() < 0.5:
            add(["stop"])
            live = b.open_clients(("raw", "cli"))
            if live and rng.random() < 0.5:
                add(["cmd", rng.choice(live), rng.choice(QUIET)])
        rest = b.open_clients(("raw", "cli", "mute"))
        rng.shuffle(rest)
        for i in rest:
            add(["leave", i, how_to_leave(rng, b.clients[i]["kind"])])
        add(["stop"])
        add(["probe"])
    return ops


def plan(case):
    """per op: (valid, model lines)"""
    b = Book()
    return [b.apply(op) for op in case["ops"]]


def model_lines(case):
    lines = [f"vstart {'unix' if case['transport'] == 'unix' else 'tcp'}"]
    for ok, ls in plan(case):
        lines.extend(ls)
    return lines


def parse_model(line):
    return dict(x.split("=", 1) for x in line.split(" "))


class NetRun:
    def __init__(self, case):
        self.case = case
        self.fails = []
        self.stats = collections.Counter()
        self.trace = []

    def fail(self, kind, **kw):
        self.fails.append(dict(kind=kind, **kw))

    async def settle(self, want, step):
        """poll until the observable server state is what the model says, then make sure it stays"""
        def look():
            return {"listening": "1" if self.srv.is_serving() else "0", "done": "1" if self.task.done() else "0",
                    "file": ("1" if os.path.exists(self.path) else "0") if self.case["transport"] == "unix" else "0"}
        want = {k: want[k] for k in ("listening", "done", "file")}
        end = time.time() + STEP_WAIT
        while look() != want and time.time() < end:
            await asyncio.sleep(0.005)
        if look() == want:
            await asyncio.sleep(HOLD)
        got = look()
        self.trace.append({"step": step, "op": self.case["ops"][step] if step >= 0 else "start", "impl": got, "model": want})
        if got == want:
            return True
        if want["done"] == "1" and got["done"] == "0":
            self.fail("monitor", monitor="serving-task-not-done-after-stop-and-clients-gone", step=step, detail=got)
        elif want["done"] == "0" and got["done"] == "1":
            self.fail("monitor", monitor="serving-task-ended-by-itself", step=step,
                      detail={"state": got, "task": repr(self.task)[:300]})
        elif want["listening"] == "1" and got["listening"] == "0":
            self.fail("monitor", monitor="not-serving-though-started", step=step, detail=got)
        elif want["listening"] == "0" and got["listening"] == "1":
            self.fail("monitor", monitor="still-serving-after-stop", step=step, detail=got)
        elif want["file"] == "0" and got["file"] == "1":
            self.fail("monitor", monitor="socket-file-not-removed", step=step, detail=got)
        else:
            self.fail("diff", what="server state", step=step, model=want, impl=got)
        return False

    async def scenario(self):
        case = self.case
        ctx = class_ctx(case.get("cls", "TaskPool"))
        wmod.reset()
        self.pool = pool = make_pool(ctx, "P")
        self.dir = tempfile.mkdtemp(prefix="verif-c19-")
        self.path = os.path.join(self.dir, "s.sock")
        clients = []
        steps = plan(case)
        mlines = model.run_driver("cdriver", model_lines(case))
        mi = 0
        gc.disable()             # a connection the server forgot to close must not be rescued by a lucky garbage collection
        try:
            with Capture() as cap:
                port = None
                for attempt in range(8):
                    if case["transport"] == "tcp":
                        port = free_port()
                        self.srv = TCPControlServer(pool, host="127.0.0.1", port=port)
                    else:
                        self.srv = UnixControlServer(pool, socket_path=self.path)
                    t0 = time.time()
                    try:
                        self.task = await asyncio.wait_for(self.srv.serve_forever(), STEP_WAIT)
                        if case.get("early_stop") and isinstance(self.task, asyncio.Task):
                            self.task.cancel()          # at once: no loop iteration since `serve_forever()` returned
                        break
                    except asyncio.TimeoutError:
                        self.fail("monitor", monitor="serve-forever-did-not-return", detail="")
                        return
                    except OSError as e:
                        if case["transport"] == "tcp" and attempt < 7:
                            continue            # the probed port was taken in the meantime
                        raise W.HarnessTimeout(f"could not bind a server socket: {e!r}")
                self.stats["serve_forever_us"] = int((time.time() - t0) * 1e6)
                if not isinstance(self.task, asyncio.Task) or (self.task.done() and not case.get("early_stop")):
                    self.fail("monitor", monitor="serve-forever-no-live-task", detail=repr(self.task))
                    return
                addr = ("tcp", port) if case["transport"] == "tcp" else ("unix", self.path)
                if hasattr(pool, "apply"):
                    pool.apply(wmod.w, args=(1,), num=2)
                else:
                    pool.start(2)
                await W.spin(10)
                m = parse_model(mlines[mi])
                if not case.get("early_stop"):
                    await self.settle(m, -1)    # (stopped at once, the serving state was never there to be seen)
                mi += 1
                base = W.observe(pool)
                released = False

                async def after_answer(c, closed, step, stop):
                    """once the server no longer serves, a session leaves its loop after answering"""
                    if not stop:
                        return
                    if c.kind == "raw":
                        if not closed and not await c.saw_eof():
                            self.fail("diff", what="connection not closed by the server after the reply", step=step)
                        c.open = False
                        c.writer.close()
                    else:
                        msg = await c.close("exit")
                        if msg:
                            self.fail("monitor", monitor="cli-client", step=step, detail=msg)

                for step, op in enumerate(case["ops"]):
                    valid, mls = steps[step]
                    ms = [parse_model(mlines[mi + k]) for k in range(len(mls))]
                    mi += len(mls)
                    if ms:
                        m = ms[-1]
                    if not valid:
                        self.stats["skipped_ops"] += 1
                        continue
                    self.stats["op:" + op[0]] += 1
                    if op[0] in ("connect", "probe"):
                        mute = op[0] == "connect" and op[1] == "mute"
                        c = CliClient() if (op[0] == "connect" and op[1] == "cli") else RawClient()
                        if mute:
                            ok, greeting = await c.connect_only(addr), None
                            self.stats["clients:mute"] += 1
                        else:
                            ok, greeting = await c.connect(addr, str(pool))
                            self.stats["clients:" + c.kind] += 1
                        if ok != (ms[0]["accepted"] == "1"):
                            if ok:
                                self.fail("monitor", monitor="accepts-connections-after-stop", step=step, detail=greeting)
                            else:
                                self.fail("monitor", monitor="client-not-served", step=step, detail=greeting)
                        if ok and not mute and greeting != str(pool) + "\n":
                            self.fail("monitor", monitor="handshake-reply", step=step, detail=greeting)
                        if ok:
                            clients.append(c)
                        elif c.kind == "cli":
                            c.kill()
                    elif op[0] == "cmd":
                        c = clients[op[1]]
                        want = expected_reply(pool, op[2])
                        reply, closed = await c.command(op[2])
                        self.stats["commands"] += 1
                        if any(x.busy for x in clients):
                            self.stats["commands_while_another_waits"] += 1
                        if (reply is not None) != (ms[0]["answered"] == "1"):
                            self.fail("monitor", monitor="client-not-served", step=step,
                                      detail={"line": op[2], "reply": reply,
                                              "waiting_in_other_sessions": [x.busy for x in clients if x.busy]})
                        elif reply is not None:
                            if want is not None and reply != want:
                                self.fail("monitor", monitor="wrong-reply", step=step, detail={"line": op[2], "reply": reply, "want": want})
                            if want is None and "invalid choice" not in reply:
                                self.fail("monitor", monitor="wrong-reply", step=step, detail={"line": op[2], "reply": reply[:200]})
                        await after_answer(c, closed, step, m["stop"] == "1")
                    elif op[0] == "hang":
                        c = clients[op[1]]
                        await c.send_only(op[2])
                        c.busy = op[2]
                        self.stats["waiting_commands"] += 1
                        early, _ = await c.read_reply(HOLD)
                        if early is not None:
                            self.fail("monitor", monitor="reply-before-wait-ended", step=step, detail={"line": op[2], "reply": early})
                    elif op[0] == "release":
                        released = True
                        wmod.release()
                        await asyncio.sleep(0.01)
                        k = 0
                        hang = [x for x in clients if x.busy]
                        if op[1] is not None:
                            c = clients[op[1]]
                            reply, closed = await c.command("gather-and-close")
                            if reply != "ok\n":
                                self.fail("monitor", monitor="client-not-served", step=step,
                                          detail={"line": "gather-and-close", "reply": reply,
                                                  "waiting_in_other_sessions": [x.busy for x in hang]})
                            await after_answer(c, closed, step, ms[k]["stop"] == "1")
                            k += 1
                        elif all(x.busy != "gather-and-close" for x in hang):
                            for _ in range(3):
                                wmod.release()
                                await asyncio.sleep(0.005)
                            try:
                                await asyncio.wait_for(pool.gather_and_close(), STEP_WAIT)
                            except asyncio.TimeoutError:
                                raise W.HarnessTimeout("direct gather_and_close() did not return")
                        for c in hang:
                            for _ in range(3):
                                wmod.release()
                            reply, closed = await c.read_reply(STEP_WAIT)
                            want = "True\n" if c.busy == "until-closed" else "ok\n"
                            if reply != want:
                                self.fail("monitor", monitor="no-reply-after-wait-ended" if reply is None else "wrong-reply",
                                          step=step, detail={"line": c.busy, "reply": reply, "want": want})
                            c.busy = None
                            await after_answer(c, closed, step, ms[k]["stop"] == "1")
                            k += 1
                    elif op[0] == "leave":
                        c = clients[op[1]]
                        before = W.observe(pool)
                        msg = await c.close(op[2])
                        if msg:
                            self.fail("monitor", monitor="cli-client", step=step, detail=msg)
                        await asyncio.sleep(0.01)
                        if W.observe(pool) != before:
                            self.fail("monitor", monitor="disconnect-altered-pool", step=step, detail=[before, W.observe(pool)])
                        for other in clients:
                            if other.open and other.kind == "raw" and not other.mute and not other.busy and m["stop"] == "0":
                                r, _ = await other.command("num-running")
                                if r != str(pool.num_running) + "\n":
                                    self.fail("monitor", monitor="disconnect-disturbed-other-session", step=step, detail=r)
                                break
                    elif op[0] == "stop":
                        if not (case.get("early_stop") and step == 0):      # (that one was issued right after the start)
                            racer = None
                            if len(op) > 1 and not self.task.done():
                                # a client that connects on the kernel level `op[1]` loop iterations before the stop: the
                                # server may or may not have accepted it, may or may not have started its session - whatever
                                # the outcome, once it is gone again the stopped server has to wind up (the model knows
                                # nothing of this client: it never says a word and leaves at once)
                                racer = socket.socket(socket.AF_INET if addr[0] == "tcp" else socket.AF_UNIX, socket.SOCK_STREAM)
                                racer.settimeout(1.0)
                                try:
                                    racer.connect(("127.0.0.1", addr[1]) if addr[0] == "tcp" else addr[1])
                                    self.stats["racing_clients"] += 1
                                except OSError:
                                    racer.close()
                                    racer = None
                                for _ in range(int(op[1])):
                                    await asyncio.sleep(0)
                            self.task.cancel()
                            if racer is not None:
                                await W.spin(3)
                                racer.close()
                    elif op[0] == "restart":
                        try:
                            self.task = await asyncio.wait_for(self.srv.serve_forever(), STEP_WAIT)
                        except asyncio.TimeoutError:
                            self.fail("monitor", monitor="serve-forever-did-not-return", step=step, detail="second start")
                            break
                        except OSError as e:
                            if case["transport"] == "tcp" and e.errno == errno.EADDRINUSE and free_to_bind(port):
                                # the address is free and still the start failed
                                self.fail("monitor", monitor="second-start-failed", step=step, detail=repr(e))
                            elif case["transport"] == "tcp" and e.errno == errno.EADDRINUSE:
                                self.stats["restart_port_taken"] += 1      # someone else got the port in between
                            else:
                                self.fail("monitor", monitor="second-start-failed", step=step, detail=repr(e))
                            break
                        except Exception as e:
                            self.fail("monitor", monitor="second-start-failed", step=step, detail=repr(e))
                            break
                        if not isinstance(self.task, asyncio.Task):
                            self.fail("monitor", monitor="serve-forever-no-live-task", step=step, detail=repr(self.task))
                            break
                    await self.settle(m, step)
                    if self.fails:
                        break
                now = W.observe(pool)
                if not released and not self.fails and (now[0], now[1], now[2]) != (base[0], base[1], base[2]):
                    self.fail("monitor", monitor="pool-tasks-disturbed", detail=[base, now])
                o, e = cap.take()
                if o or e:
                    self.fail("monitor", monitor="printed", detail={"stdout": o[:200], "stderr": e[:200]})
        finally:
            for c in clients:
                try:
                    if c.kind == "cli":
                        c.kill()
                        if c.proc is not None:
                            await asyncio.wait_for(c.proc.wait(), 5)
                    elif c.writer is not None:
                        c.writer.close()
                except Exception:
                    pass
            if getattr(self, "task", None) is not None and not self.task.done():
                # never `wait_for` here: a serving task that cannot finish would swallow the cancellation of the wait
                self.task.cancel()
                await asyncio.wait([self.task], timeout=0.3)
            await W.settle_pool(pool)
            shutil.rmtree(self.dir, ignore_errors=True)
            gc.enable()
            gc.collect()

    def run(self):
        run_async(self.scenario, 180)
        return self.fails, self.stats, self.trace
