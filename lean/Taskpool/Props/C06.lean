import Taskpool.Inv.GoodInv
/-! # C06 — cancel(ids) is exact and all-or-nothing -/
namespace Taskpool
open Pool

/-- if some id is not running, `cancel` returns the error of the FIRST such id (argument order) and the whole
pool state is unchanged: nothing at all is cancelled -/
theorem C06_all_or_nothing (p : Pool) (ids : List Int) (e : Err) (h : p.firstErr ids = some e) :
    p.doCancel ids = (p, .err e) := by
  unfold doCancel; rw [h]

/-- `firstErr` is the classification of the first id that is not running -/
theorem C06_first_error (p : Pool) (id : Int) (rest : List Int) :
    p.firstErr (id :: rest) = (match p.lookupRunning id with | some e => some e | none => p.firstErr rest) := rfl

/-- the classification: cancelled → AlreadyCancelled, ended → AlreadyEnded, anything else that is not running
(flushed, never issued, negative) → InvalidTaskID -/
theorem C06_classification (p : Pool) (id : Int) :
    p.lookupRunning id =
      if id < 0 then some .taskNotFound
      else if p.running.contains id.toNat then none
      else if p.cancelledR.contains id.toNat then some .alreadyCancelled
      else if p.ended.contains id.toNat then some .alreadyEnded
      else some .taskNotFound := by
  unfold lookupRunning; split <;> rfl

/-- what a pool-level cancellation does to one task record and nothing else -/
theorem cancelTask_frame (q : Pool) (t : Nat) :
    (q.cancelTask t).running = q.running ∧ (q.cancelTask t).cancelledR = q.cancelledR ∧
    (q.cancelTask t).ended = q.ended ∧ (q.cancelTask t).sem = q.sem ∧ (q.cancelTask t).reqs = q.reqs ∧
    (q.cancelTask t).groups = q.groups ∧ (q.cancelTask t).log = q.log ∧
    (∀ i, i ≠ t → (q.cancelTask t).tasks[i]? = q.tasks[i]?) := by
  unfold cancelTask
  split
  · exact ⟨rfl, rfl, rfl, rfl, rfl, rfl, rfl, fun _ _ => rfl⟩
  · split
    · refine ⟨rfl, rfl, rfl, rfl, rfl, rfl, rfl, ?_⟩
      intro i hi; simp [modTask, List.getElem?_modify, Ne.symm hi]
    · unfold taskCancel
      split
      · exact ⟨rfl, rfl, rfl, rfl, rfl, rfl, rfl, fun _ _ => rfl⟩
      · split
        · exact ⟨rfl, rfl, rfl, rfl, rfl, rfl, rfl, fun _ _ => rfl⟩
        · split
          · refine ⟨rfl, rfl, rfl, rfl, rfl, rfl, rfl, ?_⟩
            intro i hi; simp [schedTask, emitRef, modTask, List.getElem?_modify, Ne.symm hi]
          · refine ⟨rfl, rfl, rfl, rfl, rfl, rfl, rfl, ?_⟩
            intro i hi; simp [modTask, List.getElem?_modify, Ne.symm hi]

/-- **exact delivery, frame part**: on success the registries, the semaphore, every spawner, every group and the
event log are untouched, and so is the record of every task that was not named -/
theorem C06_success_frame (p : Pool) (ids : List Int) (h : p.firstErr ids = none) :
    (p.doCancel ids).2 = .none ∧ (p.doCancel ids).1.running = p.running ∧
    (p.doCancel ids).1.cancelledR = p.cancelledR ∧ (p.doCancel ids).1.ended = p.ended ∧
    (p.doCancel ids).1.sem = p.sem ∧ (p.doCancel ids).1.reqs = p.reqs ∧ (p.doCancel ids).1.groups = p.groups ∧
    (p.doCancel ids).1.log = p.log ∧
    (∀ i : Nat, (∀ id ∈ ids, id.toNat ≠ i) → (p.doCancel ids).1.tasks[i]? = p.tasks[i]?) := by
  unfold doCancel; rw [h]
  simp only [true_and]
  induction ids generalizing p with
  | nil => exact ⟨rfl, rfl, rfl, rfl, rfl, rfl, rfl, fun _ _ => rfl⟩
  | cons a as ih =>
    simp only [List.foldl_cons]
    obtain ⟨h1, h2, h3, h4, h5, h6, h7, h8⟩ := cancelTask_frame p a.toNat
    have hrest : (p.cancelTask a.toNat).firstErr as = none := by
      have : ∀ (l : List Int), (p.cancelTask a.toNat).firstErr l = p.firstErr l := by
        intro l
        induction l with
        | nil => rfl
        | cons x xs ihx => simp only [firstErr, lookupRunning, h1, h2, h3, ihx]
      rw [this]
      simp only [firstErr] at h
      split at h
      · simp at h
      · exact h
    obtain ⟨g1, g2, g3, g4, g5, g6, g7, g8⟩ := ih (p.cancelTask a.toNat) hrest
    refine ⟨g1.trans h1, g2.trans h2, g3.trans h3, g4.trans h4, g5.trans h5, g6.trans h6, g7.trans h7, ?_⟩
    intro i hi
    rw [g8 i (fun id hid => hi id (by simp [hid]))]
    exact h8 i (fun e => hi a (by simp) e.symm)

/-- **exact delivery, effect part**: cancelling a running task that is suspended on a pending future delivers
exactly one `CancelledError` there (the future is cancelled, one wake-up is queued); a task that has not begun is
marked and never starts its coroutine; otherwise the cancellation is pending for its next suspension point -/
theorem C06_delivery (p : Pool) (t : Nat) (tk : PTask) (h : p.tasks[t]? = some tk) (hd : tk.outcome = none) :
    ∃ tk', (p.cancelTask t).tasks[t]? = some tk' ∧
      (if tk.unstarted then tk'.cancelledEarly = true
       else if p.wakesOnCancel t then tk'.fut = .cancelled ∧ tk'.sched = true
       else tk'.mustCancel = true) := by
  unfold cancelTask
  simp only [h]
  split
  · rename_i hu
    exact ⟨_, by simp [modTask, List.getElem?_modify, h]; rfl, by simp [hu]⟩
  · rename_i hu
    unfold taskCancel
    simp only [h, hd, Option.isSome_none, Bool.false_eq_true, if_false]
    split
    · rename_i hw
      refine ⟨{ tk with fut := .cancelled, sched := true }, ?_, by simp [hu, hw]⟩
      simp [schedTask, emitRef, modTask, List.getElem?_modify, h]
    · rename_i hw
      exact ⟨_, by simp [modTask, List.getElem?_modify, h]; rfl, by simp [hu, hw]⟩

/-- **one CancelledError ends a worker, however often it is named.** In every pool after every history: at most one
`CancelledError` has been delivered into a worker *and let through or answered by returning* (`nSaw` is the ghost
counter incremented by the very step that delivers such an error and writes the log entry `X`), and none while the
task is still in its worker — however often its id was named in `cancel`, `stop`, `cancel_group` or `cancel_all`
calls, from wherever.  (A worker of the `resume` kind catches its first `CancelledError` and goes on awaiting: log
entry `Y`, not counted here — see `C06_survivor_still_running`.) -/
theorem C06_single_error (base : Nat) (h : History) (i : Nat) (c : Cfg) (p : Pool)
    (hc : ((World.init base).run h).cfgs[i]? = some c) (hp : ((World.init base).run h).pools[i]? = some p)
    (t : Nat) (tk : PTask) (ht : p.tasks[t]? = some tk) :
    tk.nSaw ≤ 1 ∧ ((tk.phase = .created ∨ tk.phase = .inWorker) → tk.nSaw = 0) :=
  ⟨(lifeAll base h i c p hc hp t tk ht).s1, (lifeAll base h i c p hc hp t tk ht).s0⟩

/-- **a worker that catches its `CancelledError` and goes on is a running task like any other**: the step that
delivers the error into such a worker (`resume` kind, first error) moves nothing between the registries, leaves the
task in its worker, awaiting a pending future, with no cancellation pending — so the next `cancel(id)` / `stop` /
`cancel_group` finds it running, accepts its id (`C06_all_or_nothing`) and delivers again (`C06_delivery`) -/
theorem C06_survivor_still_running (p : Pool) (t : Nat) (tk k : PTask) (hk : p.tasks[t]? = some k)
    (hr : (p.reqOf tk).wspec.resume = true) (hs : tk.sawCancel = false) (hm : k.mustCancel = false) :
    (p.workerCancelled t tk).running = p.running ∧ (p.workerCancelled t tk).cancelledR = p.cancelledR ∧
    (p.workerCancelled t tk).ended = p.ended ∧
    ∃ k', (p.workerCancelled t tk).tasks[t]? = some k' ∧ k'.phase = .inWorker ∧ k'.fut = .pending ∧
      k'.mustCancel = false ∧ k'.outcome = k.outcome ∧ k'.sawCancel = true := by
  unfold workerCancelled
  simp only [hr, hs, Bool.not_false, Bool.and_self, if_true]
  have h1 : ((p.logEv (.resumed t)).modTask t fun k => { k with sawCancel := true }).tasks[t]? = some { k with sawCancel := true } := by
    simp [modTask, logEv, List.getElem?_modify, hk]
  unfold suspendTask
  simp only [h1, hm, Bool.false_eq_true, if_false]
  refine ⟨rfl, rfl, rfl, { k with sawCancel := true, phase := .inWorker, fut := .pending }, ?_, rfl, rfl, hm, rfl, rfl⟩
  exact getElem?_modify_eq _ _ _ _ h1

/-! Non-vacuity -/
def C06_demo : History :=
  [.mkpool (some 2) none none, .on 0 [] (.apply 2 none Pool.gatedSpec), .run 0 [], .run 0 [], .run 0 []]

example : (((World.init 0).run C06_demo).pools.map fun p => (p.firstErr [0, 1], p.firstErr [0, 5])) =
    [(none, some .taskNotFound)] := by decide +kernel

end Taskpool
