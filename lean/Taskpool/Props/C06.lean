import Taskpool.Inv.GoodInv
/-! # C06 — cancel(ids) is exact and all-or-nothing -/
namespace Taskpool
open Pool

/-- if some id is not running, `cancel` returns the error of the FIRST such id (argument order) and the whole
pool state is unchanged: nothing at all is cancelled -/
theorem C06_all_or_nothing (p : Pool) (ids : List Int) (e : Err) (h : p.firstErr ids = some e) :
    p.doCancel ids = (p, .err e) := by
  unfold doCancel; rw [h]

/-- `firstErr` is the classification of the first id that is not running -/
theorem C06_first_error (p : Pool) (id : Int) (rest : List Int) :
    p.firstErr (id :: rest) = (match p.lookupRunning id with | some e => some e | none => p.firstErr rest) := rfl

/-- the classification: cancelled → AlreadyCancelled, ended → AlreadyEnded, anything else that is not running
(flushed, never issued, negative) → InvalidTaskID -/
theorem C06_classification (p : Pool) (id : Int) :
    p.lookupRunning id =
      if id < 0 then some .taskNotFound
      else if p.running.contains id.toNat then none
      else if p.cancelledR.contains id.toNat then some .alreadyCancelled
      else if p.ended.contains id.toNat then some .alreadyEnded
      else some .taskNotFound := by
  unfold lookupRunning; split <;> rfl

/-- what a pool-level cancellation does to one task record and nothing else -/
theorem cancelTask_frame (q : Pool) (t : Nat) :
    (q.cancelTask t).running = q.running ∧ (q.cancelTask t).cancelledR = q.cancelledR ∧
    (q.cancelTask t).ended = q.ended ∧ (q.cancelTask t).sem = q.sem ∧ (q.cancelTask t).reqs = q.reqs ∧
    (q.cancelTask t).groups = q.groups ∧ (q.cancelTask t).log = q.log ∧
    (∀ i, i ≠ t → (q.cancelTask t).tasks[i]? = q.tasks[i]?) := by
  unfold cancelTask
  split
  · exact ⟨rfl, rfl, rfl, rfl, rfl, rfl, rfl, fun _ _ => rfl⟩
  · split
    · refine ⟨rfl, rfl, rfl, rfl, rfl, rfl, rfl, ?_⟩
      intro i hi; simp [modTask, List.getElem?_modify, Ne.symm hi]
    · unfold taskCancel
      split
      · exact ⟨rfl, rfl, rfl, rfl, rfl, rfl, rfl, fun _ _ => rfl⟩
      · split
        · exact ⟨rfl, rfl, rfl, rfl, rfl, rfl, rfl, fun _ _ => rfl⟩
        · split
          · refine ⟨rfl, rfl, rfl, rfl, rfl, rfl, rfl, ?_⟩
            intro i hi; simp [schedTask, emitRef, modTask, List.getElem?_modify, Ne.symm hi]
          · refine ⟨rfl, rfl, rfl, rfl, rfl, rfl, rfl, ?_⟩
            intro i hi; simp [modTask, List.getElem?_modify, Ne.symm hi]

/-- **exact delivery, frame part**: on success the registries, the semaphore, every spawner, every group and the
event log are untouched, and so is the record of every task that was not named -/
theorem C06_success_frame (p : Pool) (ids : List Int) (h : p.firstErr ids = none) :
    (p.doCancel ids).2 = .none ∧ (p.doCancel ids).1.running = p.running ∧
    (p.doCancel ids).1.cancelledR = p.cancelledR ∧ (p.doCancel ids).1.ended = p.ended ∧
    (p.doCancel ids).1.sem = p.sem ∧ (p.doCancel ids).1.reqs = p.reqs ∧ (p.doCancel ids).1.groups = p.groups ∧
    (p.doCancel ids).1.log = p.log ∧
    (∀ i : Nat, (∀ id ∈ ids, id.toNat ≠ i) → (p.doCancel ids).1.tasks[i]? = p.tasks[i]?) := by
  unfold doCancel; rw [h]
  simp only [true_and]
  induction ids generalizing p with
  | nil => exact ⟨rfl, rfl, rfl, rfl, rfl, rfl, rfl, fun _ _ => rfl⟩
  | cons a as ih =>
    simp only [List.foldl_cons]
    obtain ⟨h1, h2, h3, h4, h5, h6, h7, h8⟩ := cancelTask_frame p a.toNat
    have hrest : (p.cancelTask a.toNat).firstErr as = none := by
      have : ∀ (l : List Int), (p.cancelTask a.toNat).firstErr l = p.firstErr l := by
        intro l
        induction l with
        | nil => rfl
        | cons x xs ihx => simp only [firstErr, lookupRunning, h1, h2, h3, ihx]
      rw [this]
      simp only [firstErr] at h
      split at h
      · simp at h
      · exact h
    obtain ⟨g1, g2, g3, g4, g5, g6, g7, g8⟩ := ih (p.cancelTask a.toNat) hrest
    refine ⟨g1.trans h1, g2.trans h2, g3.trans h3, g4.trans h4, g5.trans h5, g6.trans h6, g7.trans h7, ?_⟩
    intro i hi
    rw [g8 i (fun id hid => hi id (by simp [hid]))]
    exact h8 i (fun e => hi a (by simp) e.symm)

/-- **exact delivery, effect part**: cancelling a running task that is suspended on a pending future delivers
exactly one `CancelledError` there (the future is cancelled, one wake-up is queued); a task that has not begun is
marked and never starts its coroutine; otherwise the cancellation is pending for its next suspension point -/
theorem C06_delivery (p : Pool) (t : Nat) (tk : PTask) (h : p.tasks[t]? = some tk) (hd : tk.outcome = none) :
    ∃ tk', (p.cancelTask t).tasks[t]? = some tk' ∧
      (if tk.unstarted then tk'.cancelledEarly = true
       else if p.wakesOnCancel t then tk'.fut = .cancelled ∧ tk'.sched = true
       else tk'.mustCancel = true) := by
  unfold cancelTask
  simp only [h]
  split
  · rename_i hu
    exact ⟨_, by simp [modTask, List.getElem?_modify, h]; rfl, by simp [hu]⟩
  · rename_i hu
    unfold taskCancel
    simp only [h, hd, Option.isSome_none, Bool.false_eq_true, if_false]
    split
    · rename_i hw
      refine ⟨{ tk with fut := .cancelled, sched := true }, ?_, by simp [hu, hw]⟩
      simp [schedTask, emitRef, modTask, List.getElem?_modify, h]
    · rename_i hw
      exact ⟨_, by simp [modTask, List.getElem?_modify, h]; rfl, by simp [hu, hw]⟩

/-- **one CancelledError ends a worker, however often it is named.** In every pool after every history: at most one
`CancelledError` has been delivered into a worker *and let through or answered by returning* (`nSaw` is the ghost
counter incremented by the very step that delivers such an error and writes the log entry `X`), and none while the
task is still in its worker — however often its id was named in `cancel`, `stop`, `cancel_group` or `cancel_all`
calls, from wherever.  (A worker of the `resume` kind catches its first `CancelledError` and goes on awaiting: log
entry `Y`, not counted here — see `C06_survivor_still_running`.) -/
theorem C06_single_error (base : Nat) (h : History) (i : Nat) (c : Cfg) (p : Pool)
    (hc : ((World.init base).run h).cfgs[i]? = some c) (hp : ((World.init base).run h).pools[i]? = some p)
    (t : Nat) (tk : PTask) (ht : p.tasks[t]? = some tk) :
    tk.nSaw ≤ 1 ∧ ((tk.phase = .created ∨ tk.phase = .inWorker) → tk.nSaw = 0) :=
  ⟨(lifeAll base h i c p hc hp t tk ht).s1, (lifeAll base h i c p hc hp t tk ht).s0⟩

/-- **a worker that catches its `CancelledError` and goes on is a running task like any other**: the step that
delivers the error into such a worker (`resume` kind, first error) moves nothing between the registries, leaves the
task in its worker, awaiting a pending future, with no cancellation pending — so the next `cancel(id)` / `stop` /
`cancel_group` finds it running, accepts its id (`C06_all_or_nothing`) and delivers again (`C06_delivery`) -/
theorem C06_survivor_still_running (p : Pool) (t : Nat) (tk k : PTask) (hk : p.tasks[t]? = some k)
    (hr : (p.reqOf tk).wspec.resume = true) (hs : tk.sawCancel = false) (hm : k.mustCancel = false) :
    (p.workerCancelled t tk).running = p.running ∧ (p.workerCancelled t tk).cancelledR = p.cancelledR ∧
    (p.workerCancelled t tk).ended = p.ended ∧
    ∃ k', (p.workerCancelled t tk).tasks[t]? = some k' ∧ k'.phase = .inWorker ∧ k'.fut = .pending ∧
      k'.mustCancel = false ∧ k'.outcome = k.outcome ∧ k'.sawCancel = true := by
  unfold workerCancelled
  simp only [hr, hs, Bool.not_false, Bool.and_self, if_true]
  have h1 : ((p.logEv (.resumed t)).modTask t fun k => { k with sawCancel := true }).tasks[t]? = some { k with sawCancel := true } := by
    simp [modTask, logEv, List.getElem?_modify, hk]
  unfold suspendTask
  simp only [h1, hm, Bool.false_eq_true, if_false]
  refine ⟨rfl, rfl, rfl, { k with sawCancel := true, phase := .inWorker, fut := .pending }, ?_, rfl, rfl, hm, rfl, rfl⟩
  exact getElem?_modify_eq _ _ _ _ h1

/-- **a worker that has gone on to a later suspension point is, for the pool, the running task it was**: the step that
resumes a worker whose awaited future completed normally and that has further `await`s ahead (`awaitsLeft > 0`; log
entry `N`) moves nothing between the registries, leaves the semaphore, every spawner, every group, the lock, the
`closed` flag and every other task untouched, writes exactly the log entry `N t`, and leaves the task in its worker —
awaiting a fresh *pending* future with no cancellation pending (or, had a `must_cancel` been pending on the record, with
that future cancelled at once and a wake-up queued: the cancellation is delivered at the new suspension point). Its
asyncio Task is as undone as before. So the next `cancel(id)` / `stop` / `cancel_group` finds it running, accepts its
id (`C06_all_or_nothing`) and delivers the `CancelledError` at this later suspension point (`C06_delivery`:
`wakesOnCancel` holds for it, see `C06_later_await_cancellable`). `tk` is the record the step read, `k` the record as
filed while the step runs (as in `C06_survivor_still_running`). Stated for a worker that makes no pool call of its own
between the two awaits (`hooks.next = []`); what the step does when it makes some is `C06_later_await_with_calls`. -/
theorem C06_later_await_is_running (p : Pool) (t : Nat) (tk k : PTask) (hk : p.tasks[t]? = some k)
    (hc : (tk.fut == .cancelled || tk.mustCancel) = false) (hf : tk.fut = .ok) (ha : tk.awaitsLeft > 0)
    (hn : (p.reqOf tk).hooks.next = []) :
    (p.stepInWorker t tk).running = p.running ∧ (p.stepInWorker t tk).cancelledR = p.cancelledR ∧
    (p.stepInWorker t tk).ended = p.ended ∧ (p.stepInWorker t tk).counters = p.counters ∧
    (p.stepInWorker t tk).sem = p.sem ∧ (p.stepInWorker t tk).reqs = p.reqs ∧ (p.stepInWorker t tk).groups = p.groups ∧
    (p.stepInWorker t tk).locked = p.locked ∧ (p.stepInWorker t tk).closed = p.closed ∧
    (p.stepInWorker t tk).lost = p.lost ∧ (p.stepInWorker t tk).log = p.log ++ [.next t] ∧
    (∀ i, i ≠ t → (p.stepInWorker t tk).tasks[i]? = p.tasks[i]?) ∧
    ∃ k', (p.stepInWorker t tk).tasks[t]? = some k' ∧ k'.phase = .inWorker ∧ k'.mustCancel = false ∧
      k'.outcome = k.outcome ∧ k'.released = k.released ∧ k'.awaitsLeft = k.awaitsLeft - 1 ∧
      (if k.mustCancel then k'.fut = .cancelled ∧ k'.sched = true ∧ (p.stepInWorker t tk).emit = p.emit ++ [.task t]
       else k'.fut = .pending ∧ k'.sched = k.sched ∧ (p.stepInWorker t tk).emit = p.emit) := by
  have hstep : p.stepInWorker t tk = p.workerNext t tk := by
    unfold stepInWorker
    rw [if_neg (by rw [hc]; exact Bool.false_ne_true)]
    simp only [hf, ha, if_true]
  rw [hstep]
  unfold workerNext
  simp only [hn, runHooks, List.foldl_nil]
  have h1 : ((p.logEv (.next t)).modTask t fun k => { k with awaitsLeft := k.awaitsLeft - 1 }).tasks[t]? =
      some { k with awaitsLeft := k.awaitsLeft - 1 } := by
    simp [modTask, logEv, List.getElem?_modify, hk]
  unfold suspendTask
  simp only [h1]
  cases hm : k.mustCancel with
  | false =>
    simp only [Bool.false_eq_true, if_false]
    refine ⟨rfl, rfl, rfl, rfl, rfl, rfl, rfl, rfl, rfl, rfl, rfl, ?_,
      { k with awaitsLeft := k.awaitsLeft - 1, phase := .inWorker, fut := .pending }, ?_, rfl, hm, rfl, rfl, rfl, rfl, rfl, rfl⟩
    · intro i hi; simp [modTask, logEv, List.getElem?_modify, Ne.symm hi]
    · exact getElem?_modify_eq _ _ _ _ h1
  | true =>
    simp only [if_true]
    refine ⟨rfl, rfl, rfl, rfl, rfl, rfl, rfl, rfl, rfl, rfl, rfl, ?_,
      { k with awaitsLeft := k.awaitsLeft - 1, phase := .inWorker, fut := .cancelled, mustCancel := false, sched := true },
      ?_, rfl, rfl, rfl, rfl, rfl, rfl, rfl, rfl⟩
    · intro i hi; simp [schedTask, emitRef, modTask, logEv, List.getElem?_modify, Ne.symm hi]
    · simp [schedTask, emitRef, modTask, logEv, List.getElem?_modify, hk]

/-- the same at the level of the handle: running the wake-up handle of a task whose worker awaited a future that
completed normally, with further `await`s ahead and no cancellation pending, leaves the registries alone and the task
suspended on a pending future — so `Task.cancel()` on it cancels that future and queues a wake-up (`wakesOnCancel`, the
premise of the second branch of `C06_delivery`). For a worker without pool calls of its own between the two awaits, as
`C06_later_await_is_running` -/
theorem C06_later_await_cancellable (p : Pool) (t : Nat) (tk : PTask) (hk : p.tasks[t]? = some tk)
    (hs : tk.sched = true) (hph : tk.phase = .inWorker) (hf : tk.fut = .ok) (hm : tk.mustCancel = false)
    (ha : tk.awaitsLeft > 0) (ho : tk.outcome = none) (hn : (p.reqOf tk).hooks.next = []) :
    (p.stepTask t).running = p.running ∧ (p.stepTask t).cancelledR = p.cancelledR ∧ (p.stepTask t).ended = p.ended ∧
    (p.stepTask t).sem = p.sem ∧ (p.stepTask t).wakesOnCancel t = true ∧ (p.stepTask t).log = p.log ++ [.next t] := by
  unfold stepTask
  simp only [hk, hs, Bool.not_true, Bool.false_eq_true, if_false, hph]
  have h0 : (p.modTask t fun k => { k with sched := false }).tasks[t]? = some { tk with sched := false } := by
    simp [modTask, List.getElem?_modify, hk]
  obtain ⟨a1, a2, a3, _, a5, _, _, _, _, _, a11, _, k', b1, b2, _, b4, _, _, b7⟩ :=
    C06_later_await_is_running (p.modTask t fun k => { k with sched := false }) t tk _ h0 (by simp [hf, hm]) hf ha hn
  simp only [hm, Bool.false_eq_true, if_false] at b7
  refine ⟨a1, a2, a3, a5, ?_, a11⟩
  unfold wakesOnCancel
  rw [b1]
  have : k'.outcome = none := by rw [b4]; exact ho
  simp [this, b2, b7.1]

/-! ### pool calls the worker makes between two awaits (`hooks.next`) -/

theorem modify_congr_at {α} (l : List α) (i : Nat) (f g : α → α) (h : ∀ a, l[i]? = some a → f a = g a) :
    l.modify i f = l.modify i g := by
  apply List.ext_getElem?
  intro j
  simp only [List.getElem?_modify]
  split
  · rename_i hij
    subst hij
    cases hl : l[i]? with
    | none => rfl
    | some a => simp [h a hl]
  · rfl

/-- suspending a task in the phase it is in changes nothing a slot, a registry or a counter depends on -/
theorem tame_suspendTask_same (p : Pool) (t : Nat) (ph : Phase) (h : ∀ k, p.tasks[t]? = some k → k.phase = ph) :
    Tame p (p.suspendTask t ph) := by
  unfold suspendTask
  split
  · exact Tame.refl p
  · rename_i k hk
    have hph := h k hk
    split
    · have e : (p.modTask t fun k => { k with phase := ph, fut := .cancelled, mustCancel := false }) =
          p.modTask t fun k => { k with fut := .cancelled, mustCancel := false } := by
        unfold modTask
        rw [modify_congr_at p.tasks t _ (fun k => { k with fut := .cancelled, mustCancel := false })]
        intro a ha
        rw [hk] at ha; cases ha
        rw [← hph]
      rw [e]
      exact (tame_modTask p t _).trans (tame_schedTask _ t)
    · have e : (p.modTask t fun k => { k with phase := ph, fut := .pending }) =
          p.modTask t fun k => { k with fut := .pending } := by
        unfold modTask
        rw [modify_congr_at p.tasks t _ (fun k => { k with fut := .pending })]
        intro a ha
        rw [hk] at ha; cases ha
        rw [← hph]
      rw [e]
      exact tame_modTask p t _

/-- what `suspendTask` leaves of the record of the task it suspends -/
theorem suspendTask_at (q : Pool) (t : Nat) (ph : Phase) (k : PTask) (hk : q.tasks[t]? = some k) :
    ∃ k', (q.suspendTask t ph).tasks[t]? = some k' ∧ k'.phase = ph ∧ k'.mustCancel = false ∧
      k'.outcome = k.outcome ∧ k'.released = k.released ∧ k'.awaitsLeft = k.awaitsLeft ∧
      (if k.mustCancel then k'.fut = .cancelled ∧ k'.sched = true else k'.fut = .pending ∧ k'.sched = k.sched) := by
  unfold suspendTask
  simp only [hk]
  cases hm : k.mustCancel with
  | false =>
    simp only [Bool.false_eq_true, if_false]
    exact ⟨{ k with phase := ph, fut := .pending }, getElem?_modify_eq _ _ _ _ hk, rfl, hm, rfl, rfl, rfl, rfl, rfl⟩
  | true =>
    simp only [if_true]
    refine ⟨{ k with phase := ph, fut := .cancelled, mustCancel := false, sched := true }, ?_, rfl, rfl, rfl, rfl, rfl, rfl, rfl⟩
    simp [schedTask, emitRef, modTask, List.getElem?_modify, hk]

/-- the step to a later await, taken apart: the log entry `N t` and one await less (the step of a worker that makes no
pool call there, up to its suspension), then the pool calls of the user code between the two awaits, *then* the
suspension on a fresh future — so a `Task.cancel()` the worker's own calls aim at the worker itself finds it running
(not suspended), sets `must_cancel`, and is delivered by `suspendTask` at the await that follows -/
theorem C06_workerNext_eq (p : Pool) (t : Nat) (tk : PTask) :
    p.workerNext t tk =
      (((p.logEv (.next t)).modTask t fun k => { k with awaitsLeft := k.awaitsLeft - 1 }).runHooks tk.req
        (p.reqOf tk).hooks.next).suspendTask t .inWorker := rfl

/-- without pool calls between the two awaits the step is the one `C06_later_await_is_running` describes -/
theorem C06_workerNext_no_calls (p : Pool) (t : Nat) (tk : PTask) (hn : (p.reqOf tk).hooks.next = []) :
    p.workerNext t tk =
      ((p.logEv (.next t)).modTask t fun k => { k with awaitsLeft := k.awaitsLeft - 1 }).suspendTask t .inWorker := by
  unfold workerNext
  simp only [hn, runHooks, List.foldl_nil]

/-- **whatever the worker calls on the pool between two awaits, it is for the pool the running task it was**: the step
that resumes a worker (of a task filed in its worker, `k.phase = .inWorker`) and takes it to a later await is `Tame` —
user code never moves a slot: the semaphore's value, the three registries (so the counters), `lost`, the number of
tasks and every task's phase / `released` / callback counters / request / map slot are what they were —, and it leaves
the task in its worker, its asyncio Task as undone as before, no cancellation pending, awaiting a future that is either
pending (`wakesOnCancel` holds: the next `cancel(id)` is delivered there, `C06_delivery`) or already cancelled with the
wake-up queued (`sched`) — the case of a worker that cancelled itself, its group or everything from between the awaits:
that cancellation is delivered at the await that follows. -/
theorem C06_later_await_with_calls (p : Pool) (t : Nat) (tk k : PTask) (hk : p.tasks[t]? = some k)
    (hph : k.phase = .inWorker) :
    Tame p (p.workerNext t tk) ∧
    ∃ k', (p.workerNext t tk).tasks[t]? = some k' ∧ k'.phase = .inWorker ∧ k'.mustCancel = false ∧
      k'.outcome.isSome = k.outcome.isSome ∧ k'.released = k.released ∧
      ((k'.fut = .pending ∧ (k.outcome = none → (p.workerNext t tk).wakesOnCancel t = true)) ∨
       (k'.fut = .cancelled ∧ k'.sched = true)) := by
  have t1 : Tame p (((p.logEv (.next t)).modTask t fun k => { k with awaitsLeft := k.awaitsLeft - 1 }).runHooks tk.req
      (p.reqOf tk).hooks.next) :=
    ((tame_logEv p (.next t)).trans (tame_modTask _ t _)).trans (tame_runHooks _ _ _)
  -- the record of `t` after the user code: same soft part as `k`
  have hlt : t < p.tasks.length := by
    cases hlt : decide (t < p.tasks.length) with
    | true => exact of_decide_eq_true hlt
    | false =>
      have := of_decide_eq_false hlt
      rw [List.getElem?_eq_none (Nat.le_of_not_lt this)] at hk; cases hk
  obtain ⟨k1, hk1⟩ : ∃ k1, (((p.logEv (.next t)).modTask t fun k => { k with awaitsLeft := k.awaitsLeft - 1 }).runHooks tk.req
      (p.reqOf tk).hooks.next).tasks[t]? = some k1 := by
    have : t < (((p.logEv (.next t)).modTask t fun k => { k with awaitsLeft := k.awaitsLeft - 1 }).runHooks tk.req
      (p.reqOf tk).hooks.next).tasks.length := by rw [t1.len]; exact hlt
    exact ⟨_, List.getElem?_eq_getElem this⟩
  obtain ⟨k0, hk0, hsoft⟩ := t1.soft t k1 hk1
  rw [hk] at hk0; cases hk0
  have hph1 : k1.phase = .inWorker := by
    have := congrArg SoftP.phase hsoft
    exact this.trans hph
  have hout : k1.outcome.isSome = k.outcome.isSome := congrArg SoftP.hasOut hsoft
  have hrel : k1.released = k.released := congrArg SoftP.released hsoft
  refine ⟨?_, ?_⟩
  · rw [C06_workerNext_eq]
    refine t1.trans (tame_suspendTask_same _ t .inWorker ?_)
    intro a ha
    rw [hk1] at ha; cases ha
    exact hph1
  · rw [C06_workerNext_eq]
    obtain ⟨k', a1, a2, a3, a4, a5, _, a7⟩ := suspendTask_at _ t .inWorker k1 hk1
    refine ⟨k', a1, a2, a3, by rw [a4]; exact hout, by rw [a5]; exact hrel, ?_⟩
    cases hm : k1.mustCancel with
    | false =>
      simp only [hm, Bool.false_eq_true, if_false] at a7
      refine Or.inl ⟨a7.1, fun ho => ?_⟩
      unfold wakesOnCancel
      rw [a1]
      have : k'.outcome = none := by
        rw [a4]
        rw [ho] at hout
        cases hx : k1.outcome with
        | none => rfl
        | some o => rw [hx] at hout; cases hout
      simp [this, a2, a7.1]
    | true =>
      simp only [hm, if_true] at a7
      exact Or.inr a7

/-- the same for the handle's step itself: under the conditions that select the branch, `stepInWorker` *is* that step -/
theorem C06_later_await_step (p : Pool) (t : Nat) (tk : PTask)
    (hc : (tk.fut == .cancelled || tk.mustCancel) = false) (hf : tk.fut = .ok) (ha : tk.awaitsLeft > 0) :
    p.stepInWorker t tk = p.workerNext t tk := by
  unfold stepInWorker
  rw [if_neg (by rw [hc]; exact Bool.false_ne_true)]
  simp only [hf, ha, if_true]

/-! Non-vacuity -/
/-- a worker with two further suspension points: released once (`N`), cancelled at its second suspension point -/
def C06_demo_later : History :=
  [.mkpool (some 2) none none,
   .on 0 [] (.apply 1 none { Pool.gatedSpec with ws := { mode := .gated, swallow := false, awaits := 2 } }),
   .run 0 [], .run 0 [], .on 0 [] (.gate 0 .ok), .run 0 [], .on 0 [] (.cancel [0]), .run 0 []]

example : (((World.init 0).run C06_demo_later).pools.map fun p =>
      (p.log.map Ev.show, p.running ++ p.cancelledR, p.ended, p.tasks.map fun k => k.awaitsLeft)) =
    [(["S0(a)", "N0", "X0"], ([] : List Nat), [0], [1])] := by decide +kernel

def C06_demo : History :=
  [.mkpool (some 2) none none, .on 0 [] (.apply 2 none Pool.gatedSpec), .run 0 [], .run 0 [], .run 0 []]

example : (((World.init 0).run C06_demo).pools.map fun p => (p.firstErr [0, 1], p.firstErr [0, 5])) =
    [(none, some .taskNotFound)] := by decide +kernel

end Taskpool
