import Taskpool.Props.C09
import Taskpool.Props.C13
import Taskpool.Inv.GatherWorld
/-! # C08 — gather_and_close waits for everything, then closes for good

Step-level theorems about the stages of the call.  That an awaited gather completes only through its children's
completion callbacks is the (modelled) semantics of `asyncio.gather`; the theorems pin down what the collecting
gather of stage 1 needs in order to complete, and what the closing step does.

The last section is about whole histories: in every reachable world every gather's count of completed children is
exact (each callback slot is outstanding at most once — registered on its child, queued, or in the loop's ready
queue — or has been run), so a gather completes exactly when its last child has, and the model's defensive test
"complete normally only if every child task has finished" never fails. -/
namespace Taskpool
open Pool

/-- the stage-1 gather over the spawners collects exceptions; such a gather completes only with the completion of
its **last** child — a spawner that was cancelled before it ever ran cannot end the wait early -/
theorem C08_collecting_gather_waits_for_all (G : Gather) (co : Option Outcome) (o : Outcome) (h : G.retExc = true)
    (hv : gatherVerdict G co = some o) : o = .ok ∧ G.nfinished + 1 = G.children.length := by
  unfold gatherVerdict at hv
  simp only [h, Bool.not_true, Bool.false_and, Bool.false_eq_true, if_false] at hv
  split at hv
  · rename_i hc
    simp only [Option.some.injEq] at hv
    exact ⟨hv.symm, by simpa using hc⟩
  · simp at hv

theorem foldl_schedApi_frame (ws : List Nat) (q : Pool) :
    (ws.foldl (fun p w => p.schedApi w) q).closed = q.closed ∧ (ws.foldl (fun p w => p.schedApi w) q).running = q.running ∧
    (ws.foldl (fun p w => p.schedApi w) q).cancelledR = q.cancelledR ∧ (ws.foldl (fun p w => p.schedApi w) q).ended = q.ended ∧
    (ws.foldl (fun p w => p.schedApi w) q).closedWaiters = q.closedWaiters ∧
    (ws.foldl (fun p w => p.schedApi w) q).locked = q.locked := by
  induction ws generalizing q with
  | nil => exact ⟨rfl, rfl, rfl, rfl, rfl, rfl⟩
  | cons w ws ih =>
    simp only [List.foldl_cons]
    obtain ⟨a, b, c, d, e, f⟩ := ih (q.schedApi w)
    exact ⟨a, b, c, d, e, f⟩

/-- **the closing step**: when the second gather has completed normally the pool holds no task, is closed, and
hands a wake-up to every `until_closed()` waiter -/
theorem C08_close_effect (p : Pool) (a : Nat) :
    (p.gacAfter2 a .ok).closed = true ∧ (p.gacAfter2 a .ok).running = [] ∧ (p.gacAfter2 a .ok).cancelledR = [] ∧
    (p.gacAfter2 a .ok).ended = [] ∧ (p.gacAfter2 a .ok).closedWaiters = [] := by
  simp only [gacAfter2, finishApi, modApi]
  obtain ⟨h1, h2, h3, h4, h5, _⟩ := foldl_schedApi_frame p.closedWaiters
    ({ p with ended := [], cancelledR := [], running := [], closed := true, closedWaiters := [],
              lost := p.lost || (p.running ++ p.cancelledR).any p.heldB } : Pool)
  exact ⟨h1, h2, h3, h4, h5⟩

/-- every waiter of `until_closed()` is scheduled by the closing step -/
theorem foldl_schedApi_sched (ws : List Nat) (q : Pool) (w : Nat) (hw : w ∈ ws) (A : Api) (hA : q.apis[w]? = some A) :
    ∃ A', (ws.foldl (fun p w => p.schedApi w) q).apis[w]? = some A' ∧ A'.sched = true := by
  induction ws generalizing q A with
  | nil => simp at hw
  | cons x xs ih =>
    simp only [List.foldl_cons]
    by_cases hx : w ∈ xs
    · have : ∃ A1, (q.schedApi x).apis[w]? = some A1 := by
        simp only [schedApi, emitRef, modApi]
        by_cases e : x = w
        · subst e; exact ⟨_, getElem?_modify_eq _ _ _ _ hA⟩
        · exact ⟨A, by rw [getElem?_modify_ne _ _ _ _ e]; exact hA⟩
      obtain ⟨A1, h1⟩ := this
      exact ih (q.schedApi x) hx A1 h1
    · have e : w = x := by simpa [hx] using hw
      subst e
      have h1 : (q.schedApi w).apis[w]? = some { A with sched := true } := by
        simp only [schedApi, emitRef, modApi]; exact getElem?_modify_eq _ _ _ _ hA
      have keep : ∀ (l : List Nat) (r : Pool) (B : Api), r.apis[w]? = some B → B.sched = true →
          ∃ B', (l.foldl (fun p w => p.schedApi w) r).apis[w]? = some B' ∧ B'.sched = true := by
        intro l
        induction l with
        | nil => intro r B hB hs; exact ⟨B, hB, hs⟩
        | cons y ys ihy =>
          intro r B hB hs
          simp only [List.foldl_cons]
          by_cases e : y = w
          · subst e
            exact ihy _ { B with sched := true } (by simp only [schedApi, emitRef, modApi]; exact getElem?_modify_eq _ _ _ _ hB) rfl
          · exact ihy _ B (by simp only [schedApi, emitRef, modApi]; rw [getElem?_modify_ne _ _ _ _ e]; exact hB) hs
      exact keep xs _ _ h1 rfl

/-- a gather that failed closes nothing: the registries, the flag and the waiters stay as they are -/
theorem C08_failure_does_not_close (p : Pool) (a : Nat) (o : Outcome) (ho : o ≠ .ok) :
    (p.gacAfter2 a o).closed = p.closed ∧ (p.gacAfter2 a o).running = p.running ∧
    (p.gacAfter2 a o).closedWaiters = p.closedWaiters := by
  unfold gacAfter2
  split
  · exact absurd rfl ho
  · exact ⟨rfl, rfl, rfl⟩

/-- **`until_closed()` is released by the close and never earlier**: on an open pool the call only registers itself
as a waiter (it is not completed, nothing is scheduled); on a closed pool it returns at once -/
theorem C08_until_closed_waits (p : Pool) (a : Nat) (A : Api) (hA : p.apis[a]? = some A) (ho : p.closed = false) :
    (p.untilClosedStart a).closedWaiters = p.closedWaiters ++ [a] ∧
    (p.untilClosedStart a).apis[a]? = some { A with frame := .waitClosed } ∧ (p.untilClosedStart a).emit = p.emit := by
  unfold untilClosedStart
  simp only [ho, Bool.false_eq_true, if_false]
  exact ⟨rfl, by simp only [modApi]; exact getElem?_modify_eq _ _ _ _ hA, rfl⟩

theorem C08_until_closed_returns_when_closed (p : Pool) (a : Nat) (A : Api) (hA : p.apis[a]? = some A)
    (ho : p.closed = true) :
    (p.untilClosedStart a).apis[a]? = some { A with frame := .done, outcome := some .ok, sched := false } := by
  unfold untilClosedStart
  simp only [ho, if_true, finishApi, modApi]
  exact getElem?_modify_eq _ _ _ _ hA

/-- after the close every spawning call of a coroutine function raises PoolIsClosed (C09) -/
theorem C08_closed_for_good (p : Pool) (a : Nat) (num : Int) (group : Option String) (sp : SpawnSpec)
    (hc : sp.isCoro = true) :
    ((p.gacAfter2 a .ok).doApply num group sp).2 = .err .poolIsClosed :=
  by rw [C09_closed_rejects_apply _ num group sp hc (C08_close_effect p a).1]

/-! ### the count of a gather is exact (every history, every handle order) -/

/-- **a complete count means a completed gather whose child tasks have all finished** — in every pool of every
reachable world -/
theorem C08_gather_count_exact (base : Nat) (h : History) (n : Nat) (p : Pool) (g : Nat) (G : Gather)
    (hp : ((World.init base).run h).pools[n]? = some p) (hG : p.gathers[g]? = some G)
    (hn : G.children.length ≤ G.nfinished) :
    G.outer.isSome = true ∧ ∀ t, Child.task t ∈ G.children → TaskFin p t := by
  have hinv := (World.ginv_run base h).inv n p hp
  have hall := World.reachable baseC_invariant base h (fun x _ => admits_all x)
  have hlt : n < ((World.init base).run h).cfgs.length := by rw [hall.len]; exact (List.getElem?_eq_some_iff.mp hp).1
  obtain ⟨cap, hgood⟩ := hall.inv n ((World.init base).run h).cfgs[n] p (by simp [hlt]) hp
  refine ⟨hinv.fin g G hG hn, ?_⟩
  intro t ht
  obtain ⟨j, hj, hjc⟩ := List.getElem_of_mem ht
  obtain ⟨k, hk, hr⟩ := hinv.reg g G j t hG (by rw [List.getElem?_eq_getElem hj, hjc])
  refine ⟨k, hk, ?_⟩
  apply Classical.byContradiction
  intro hnf
  have hout : k.outcome = none := by
    cases hko : k.outcome with
    | none => rfl
    | some o => exact absurd (Pool.Good.outFin hgood t k hk (by simp [hko])) hnf
  have hpot := Pool.pot_ge_reg p t k hk hout (g, j) (hr hnf)
  have hcnt := hinv.cnt g G hG
  have h1 : Pool.W (((World.init base).run h).rdy n) p (g, j)
      ≤ rsum G.children.length (fun i => Pool.W (((World.init base).run h).rdy n) p (g, i)) :=
    rsum_ge_one G.children.length (fun i => Pool.W (((World.init base).run h).rdy n) p (g, i)) j hj
  have hw : Pool.W (((World.init base).run h).rdy n) p (g, j) = ((World.init base).run h).rdy n (g, j) + p.pot (g, j) := rfl
  omega

/-- **the defensive test of the model never fails**: whenever the loop is about to run a gather callback handle that
would complete the gather normally, every child task of that gather has finished — so "the outer future completes
only when every child has" is a theorem about the machine, not an assumption built into it -/
theorem C08_gather_completes_only_when_all_finished (base : Nat) (h : History) (k n g j : Nat) (p : Pool) (G : Gather)
    (co : Option Outcome)
    (hk : ((World.init base).run h).ready[k]? = some (n, .gchild g j))
    (hp : ((World.init base).run h).pools[n]? = some p) (hG : p.gathers[g]? = some G)
    (hv : gatherVerdict G co = some .ok) :
    G.children.all p.childFinished = true := by
  have hinv := (World.ginv_run base h).inv n p hp
  have hall := World.reachable baseC_invariant base h (fun x _ => admits_all x)
  have hlt : n < ((World.init base).run h).cfgs.length := by rw [hall.len]; exact (List.getElem?_eq_some_iff.mp hp).1
  obtain ⟨cap, hgood⟩ := hall.inv n ((World.init base).run h).cfgs[n] p (by simp [hlt]) hp
  have hpos : 0 < ((World.init base).run h).rdy n (g, j) := by
    simp only [World.rdy]
    apply List.countP_pos_iff.mpr
    refine ⟨(n, .gchild g j), List.mem_of_getElem? hk, ?_⟩
    simp [(isCb_gchild (g, j) g j).mpr rfl]
  have hc := Pool.verdict_ok_count G co hv
  exact Pool.all_childFinished p G (hinv.all_finished (Pool.Good.outFin hgood) g G hG j hpos (by omega))

/-! Non-vacuity: a pool with one running task; `gather_and_close` completes only after the task has ended, then
the pool is closed and the `until_closed()` waiter is released. -/
def C08_demo : History :=
  [.mkpool (some 1) none none, .on 0 [] (.apply 1 none Pool.gatedSpec), .on 0 [] .untilClosed,
   .run 0 [], .run 0 [], .run 0 [], .on 0 [] (.gac false), .run 0 [], .run 0 []]

example : (((World.init 0).run C08_demo).pools.map fun p => (p.closed, p.apis.map (·.outcome), p.running)) =
    [(false, [none, none], [0])] := by decide +kernel
example : (((World.init 0).run (C08_demo ++ [.on 0 [] (.gate 0 .ok), .run 0 [], .run 0 [], .run 0 [], .run 0 []])).pools.map
    fun p => (p.closed, p.apis.map (·.outcome), p.running)) = [(true, [some Outcome.ok, some Outcome.ok], [])] := by
  decide +kernel

-- both gathers (stage 1: the spawner, stage 2: the task) have one child, a complete count, and have completed normally
example : (((World.init 0).run (C08_demo ++ [.on 0 [] (.gate 0 .ok), .run 0 [], .run 0 [], .run 0 [], .run 0 []])).pools.map
    fun p => p.gathers.map fun G => (G.children.length, G.nfinished, G.outer)) = [[(1, 1, some Outcome.ok), (1, 1, some Outcome.ok)]] := by
  decide +kernel

end Taskpool
