import Taskpool.Inv.ControlServer
/-! C19 — life cycle of the control server (partial: the kernel's socket behaviour and timing are outside the model
and exercised by the check over real TCP and Unix sockets).  All statements are for every history of
connect / command line / client close / `exit` / stop inputs, both transports. -/
namespace Taskpool.Control

/-- `serve_forever()` hands back a live task of a listening server; until the stop request nothing changes that -/
theorem C19_serve_returns_task (unix : Bool) (ins : List SIn) (h : ((Srv.start unix).run ins).stopRequested = false) :
    ((Srv.start unix).run ins).listening = true ∧ ((Srv.start unix).run ins).serveDone = false
    ∧ ((Srv.start unix).run ins).socketFile = unix := by
  have := (srvInv_run ins (srvInv_start unix)).running h
  rw [run_unix] at this
  exact this

/-- once stopped and all clients gone: the task is done, the address refuses connections, `is_serving()` is false
and the Unix socket file is removed -/
theorem C19_stop_completes (unix : Bool) (ins : List SIn)
    (hs : ((Srv.start unix).run ins).stopRequested = true) (hg : ((Srv.start unix).run ins).allGone = true) :
    ((Srv.start unix).run ins).serveDone = true ∧ ((Srv.start unix).run ins).listening = false
    ∧ ((Srv.start unix).run ins).accepts = false ∧ ((Srv.start unix).run ins).socketFile = false := by
  have inv := srvInv_run ins (srvInv_start unix)
  have hd := inv.done_if hs hg
  exact ⟨hd, inv.stopped hs, inv.stopped hs, inv.file hd⟩

/-- the task is never done while a client is still connected, nor without a stop request -/
theorem C19_not_before_clients_gone (unix : Bool) (ins : List SIn) (hd : ((Srv.start unix).run ins).serveDone = true) :
    ((Srv.start unix).run ins).stopRequested = true ∧ ((Srv.start unix).run ins).allGone = true :=
  (srvInv_run ins (srvInv_start unix)).done_only hd

/-- after the stop request the address no longer accepts: a connect attempt changes nothing -/
theorem C19_refuses_after_stop (unix : Bool) (ins : List SIn) (hs : ((Srv.start unix).run ins).stopRequested = true) :
    ((Srv.start unix).run ins).step .connect = (Srv.start unix).run ins := by
  have := (srvInv_run ins (srvInv_start unix)).stopped hs
  simp [Srv.step, this]

/-- a client disconnecting (clean close, EOF or the `exit` command) touches only its own connection: every other
connection, the listening state and the count of executed commands stay as they were -/
theorem C19_disconnect_isolated (s : Srv) (i : Nat) :
    (s.step (.clientClose i)).conns = s.conns.set i false ∧ (s.step (.exitCmd i)).conns = s.conns.set i false
    ∧ (∀ j, j ≠ i → (s.step (.clientClose i)).isOpen j = s.isOpen j)
    ∧ (s.step (.clientClose i)).listening = s.listening ∧ (s.step (.clientClose i)).commands = s.commands
    ∧ (s.step (.clientClose i)).stopRequested = s.stopRequested := by
  have hs : ∀ t : Srv, t.settle.conns = t.conns ∧ t.settle.listening = t.listening ∧ t.settle.commands = t.commands
      ∧ t.settle.stopRequested = t.stopRequested := by
    intro t; unfold Srv.settle; split <;> simp
  refine ⟨?_, ?_, ?_, ?_, ?_, ?_⟩
  · simp [Srv.step, (hs _).1, Srv.drop]
  · simp [Srv.step, (hs _).1, Srv.drop]
  · intro j hj
    simp only [Srv.step, Srv.isOpen, (hs _).1, Srv.drop]
    simp [List.getD, Ne.symm hj]
  · simp [Srv.step, (hs _).2.1, Srv.drop]
  · simp [Srv.step, (hs _).2.2.1, Srv.drop]
  · simp [Srv.step, (hs _).2.2.2, Srv.drop]

/-- a client that connects and goes away before or during its handshake (a port probe, garbage, a client killed at
start-up) is a connection like any other — `connect` is the transport-level connection, the handshake is not part of
this machine: once it has left, the server holds nothing of it, so `C19_stop_completes` applies to histories with such
clients unchanged -/
theorem C19_early_leaver_leaves_nothing (s : Srv) (hs : s.stopRequested = false) (hl : s.listening = true) :
    (s.step .connect).step (.clientClose s.conns.length) = { s with conns := s.conns ++ [false] }
    ∧ ({ s with conns := s.conns ++ [false] } : Srv).allGone = s.allGone := by
  constructor
  · simp [Srv.step, hl, Srv.drop, Srv.settle, hs]
  · simp [Srv.allGone, List.all_append]

/-- the same server object can be started again once its serving task is done: `serve_forever()` again hands back
a live task of a listening server (socket file back for a Unix server), with no connection of the earlier cycle
attached; all theorems above quantify over histories with any number of such restarts -/
theorem C19_restart_serves_again (unix : Bool) (ins : List SIn) (hd : ((Srv.start unix).run ins).serveDone = true) :
    (((Srv.start unix).run ins).step .restart).listening = true
    ∧ (((Srv.start unix).run ins).step .restart).accepts = true
    ∧ (((Srv.start unix).run ins).step .restart).serveDone = false
    ∧ (((Srv.start unix).run ins).step .restart).stopRequested = false
    ∧ (((Srv.start unix).run ins).step .restart).socketFile = unix
    ∧ (((Srv.start unix).run ins).step .restart).allGone = true
    ∧ (((Srv.start unix).run ins).step .restart).conns = ((Srv.start unix).run ins).conns := by
  have inv := srvInv_run ins (srvInv_start unix)
  have hu := run_unix ins (Srv.start unix)
  have hg := (inv.done_only hd).2
  generalize (Srv.start unix).run ins = t at *
  have hs : t.step .restart = { t with listening := true, stopRequested := false, serveDone := false,
                                       socketFile := t.unix } := by
    simp only [Srv.step, hd, if_true]
  rw [hs]
  exact ⟨rfl, rfl, rfl, rfl, hu, hg, rfl⟩

/-! non-vacuity: two clients, stop while both are connected, one leaves by `exit`, the other by EOF -/

example : (Srv.start true).run [.connect, .connect, .line 0, .stop, .connect, .exitCmd 0]
    = { unix := true, listening := false, stopRequested := true, serveDone := false, socketFile := true,
        conns := [false, true], commands := 1 } := by decide +kernel

example : (Srv.start true).run [.connect, .connect, .line 0, .stop, .connect, .exitCmd 0, .clientClose 1]
    = { unix := true, listening := false, stopRequested := true, serveDone := true, socketFile := false,
        conns := [false, false], commands := 1 } := by decide +kernel

-- the last client before the stop never completed its handshake (connect, then gone)
example : (Srv.start true).run [.connect, .clientClose 0, .connect, .clientClose 1, .stop]
    = { unix := true, listening := false, stopRequested := true, serveDone := true, socketFile := false,
        conns := [false, false], commands := 0 } := by decide +kernel

example : (Srv.start false).run [.connect, .stop, .line 0]
    = { unix := false, listening := false, stopRequested := true, serveDone := true, socketFile := false,
        conns := [false], commands := 1 } := by decide +kernel

-- a second cycle on the same server object: stop, restart, a new client (index 1) is served, stop again
example : (Srv.start true).run [.connect, .stop, .clientClose 0, .restart, .connect, .line 1, .stop, .line 1]
    = { unix := true, listening := false, stopRequested := true, serveDone := true, socketFile := false,
        conns := [false, false], commands := 2 } := by decide +kernel

example : ((Srv.start true).run [.connect, .stop, .clientClose 0, .restart, .connect]).listening = true := by
  decide +kernel

end Taskpool.Control
