import Taskpool.Inv.NonIntColl
/-! # C12 — A failing task or callback harms only itself: two-run noninterference

Two histories that differ in ONE input — the future task `t` of pool `i` awaits completes with an exception in one
run and normally in the other, at the worker's last await or inside a coroutine callback — lead to worlds that are
equal except for what the erasure `Pool.er t` forgets of pool `i`: the awaited future, `pendingExc` and the value of
the outcome of task `t`, and which of `raised t` / `returned t` (`cancelCbRaised t` / `cancelCbDone t`,
`endCbRaised t` / `endCbDone t`) the log holds.  Every other task, every registry, semaphore, spawner, gather,
background call and every queued handle is the same — provided every `flush` / `gather_and_close` of the histories
collects exceptions (`return_exceptions=True`; otherwise the call itself raises what the task raised). -/
namespace Taskpool
open Pool

/-- pool `j` of the two worlds: equal up to the erasure for pool `i`, equal otherwise -/
def PR (i t j : Nat) (p p' : Pool) : Prop := if j = i then er t p' = er t p else p' = p

theorem PR.refl (i t j : Nat) (p : Pool) : PR i t j p p := by unfold PR; split <;> rfl

theorem PR.emit {i t j : Nat} {p p' : Pool} (h : PR i t j p p') : p'.emit = p.emit := by
  unfold PR at h
  split at h
  · have := congrArg Pool.emit h; exact this
  · rw [h]

theorem PR.drain {i t j : Nat} {p p' : Pool} (h : PR i t j p p') :
    PR i t j ({ p with emit := [] } : Pool) ({ p' with emit := [] } : Pool) := by
  unfold PR at h ⊢
  split
  · rw [if_pos (by assumption)] at h
    exact congrArg (fun x : Pool => ({ x with emit := [] } : Pool)) h
  · rw [if_neg (by assumption)] at h
    rw [h]

theorem PR.orders {i t j : Nat} {p p' : Pool} (h : PR i t j p p') (o : List (List Nat)) :
    PR i t j ({ p with orders := o } : Pool) ({ p' with orders := o } : Pool) := by
  unfold PR at h ⊢
  split
  · rw [if_pos (by assumption)] at h
    exact congrArg (fun x : Pool => ({ x with orders := o } : Pool)) h
  · rw [if_neg (by assumption)] at h
    rw [h]

/-- the same operation on both sides -/
theorem PR.applyOp {i t j : Nat} {p p' : Pool} (h : PR i t j p p') (op : Op) :
    PR i t j (p.applyOp op).1 (p'.applyOp op).1 := by
  unfold PR at h ⊢
  split
  · rw [if_pos (by assumption)] at h
    exact (applyOp_R h op).1
  · rw [if_neg (by assumption)] at h
    rw [h]

/-- the same handle on both sides -/
theorem PR.runRef {i t j : Nat} {p p' : Pool} (h : PR i t j p p') (hp : AllColl p) (hp' : AllColl p') (r : Ref) :
    PR i t j (p.runRef r) (p'.runRef r) := by
  unfold PR at h ⊢
  split
  · rw [if_pos (by assumption)] at h
    exact runRef_R h hp' hp r
  · rw [if_neg (by assumption)] at h
    rw [h]

/-- the pools at index `j` of two pool lists -/
def OR (i t j : Nat) : Option Pool → Option Pool → Prop
  | none, none => True
  | some p, some p' => PR i t j p p'
  | _, _ => False

/-- the two worlds agree up to the erasure of task `t` in pool `i` -/
structure WR (i t : Nat) (w w' : World) : Prop where
  ready : w'.ready = w.ready
  cfgs : w'.cfgs = w.cfgs
  counter : w'.counter = w.counter
  pools : ∀ j, OR i t j w.pools[j]? w'.pools[j]?

theorem WR.refl (i t : Nat) (w : World) : WR i t w w := by
  refine ⟨rfl, rfl, rfl, ?_⟩
  intro j
  cases h : w.pools[j]? with
  | none => trivial
  | some p => exact PR.refl i t j p

theorem WR.len {i t : Nat} {w w' : World} (h : WR i t w w') : w'.pools.length = w.pools.length := by
  rcases Nat.lt_trichotomy w'.pools.length w.pools.length with hl | hl | hl
  · have := h.pools w'.pools.length
    rw [List.getElem?_eq_none (Nat.le_refl _), List.getElem?_eq_getElem hl] at this
    exact this.elim
  · exact hl
  · have := h.pools w.pools.length
    rw [List.getElem?_eq_none (Nat.le_refl _), List.getElem?_eq_getElem hl] at this
    exact this.elim

/-- replacing pool `k` on both sides by related pools -/
theorem WR.set {i t : Nat} {w w' : World} (h : WR i t w w') (k : Nat) (q q' : Pool) (hq : PR i t k q q')
    (v v' : World) (hr : v'.ready = v.ready) (hc : v'.cfgs = v.cfgs) (hn : v'.counter = v.counter)
    (hv : v.pools = w.pools.set k q) (hv' : v'.pools = w'.pools.set k q') : WR i t v v' := by
  refine ⟨hr, hc, hn, ?_⟩
  intro j
  rw [hv, hv', List.getElem?_set, List.getElem?_set]
  have hj := h.pools j
  have hl := h.len
  by_cases e : k = j
  · subst e
    simp only [↓reduceIte, hl]
    split
    · exact hq
    · trivial
  · simp only [e, ↓reduceIte]
    exact hj

theorem World.All.get {I : Cfg → Pool → Prop} {w : World} (h : w.All I) {j : Nat} {p : Pool} (hp : w.pools[j]? = some p) :
    ∃ c, I c p := by
  have hlt : j < w.pools.length := by
    rcases Nat.lt_or_ge j w.pools.length with hl | hl
    · exact hl
    · rw [List.getElem?_eq_none hl] at hp; cases hp
  have hc : w.cfgs[j]? = some (w.cfgs[j]'(by rw [h.len]; exact hlt)) := List.getElem?_eq_getElem _
  exact ⟨_, h.inv j _ p hc hp⟩

abbrev CollW (w : World) : Prop := w.All (fun _ p => Pool.AllColl p)

/-- one input (the same in both runs) keeps the two worlds related -/
theorem WR.step {i t : Nat} {w w' : World} (h : WR i t w w') (hw : CollW w) (hw' : CollW w') (x : WOp) :
    WR i t (w.step x).1 (w'.step x).1 := by
  cases x with
  | mkpool size simple name =>
    simp only [World.step, World.mkpool]
    split
    · exact h
    · split
      · exact ⟨h.ready, h.cfgs, by simp only [h.counter], h.pools⟩
      · refine ⟨h.ready, by simp only [h.cfgs, h.counter], by simp only [h.counter], ?_⟩
        intro j
        simp only [List.getElem?_append, h.len]
        split
        · exact h.pools j
        · cases hj : j - w.pools.length with
          | zero => simp only [List.getElem?_cons_zero]; exact PR.refl i t j _
          | succ n => simp only [List.getElem?_cons_succ, List.getElem?_nil]; trivial
  | on k orders op =>
    simp only [World.step]
    have hk := h.pools k
    cases hp : w.pools[k]? with
    | none =>
      cases hp' : w'.pools[k]? with
      | none => exact h
      | some p' => rw [hp, hp'] at hk; exact hk.elim
    | some p =>
      cases hp' : w'.pools[k]? with
      | none => rw [hp, hp'] at hk; exact hk.elim
      | some p' =>
        rw [hp, hp'] at hk
        exact h.set k _ _ ((PR.orders hk orders).applyOp op) _ _ h.ready h.cfgs h.counter rfl rfl
  | run k orders =>
    simp only [World.step, h.ready]
    cases hk : w.ready[k]? with
    | none => exact h
    | some jr =>
      obtain ⟨j, r⟩ := jr
      simp only
      have hj := h.pools j
      cases hp : w.pools[j]? with
      | none =>
        cases hp' : w'.pools[j]? with
        | none => exact ⟨rfl, h.cfgs, h.counter, h.pools⟩
        | some p' => rw [hp, hp'] at hj; exact hj.elim
      | some p =>
        cases hp' : w'.pools[j]? with
        | none => rw [hp, hp'] at hj; exact hj.elim
        | some p' =>
          rw [hp, hp'] at hj
          obtain ⟨_, hc⟩ := hw.get hp
          obtain ⟨_, hc'⟩ := hw'.get hp'
          exact h.set j _ _ ((PR.orders hj orders).runRef (hc.of_eq rfl rfl) (hc'.of_eq rfl rfl) r) _ _
            rfl h.cfgs h.counter rfl rfl

theorem WR.drain {i t : Nat} {w w' : World} (h : WR i t w w') : WR i t w.drain w'.drain := by
  have hl := h.len
  refine ⟨?_, h.cfgs, h.counter, ?_⟩
  · simp only [World.drain, h.ready]
    congr 2
    apply List.ext_getElem?
    intro n
    simp only [List.getElem?_map, List.getElem?_zipIdx]
    have hn := h.pools n
    cases hp : w.pools[n]? with
    | none =>
      cases hp' : w'.pools[n]? with
      | none => rfl
      | some p' => rw [hp, hp'] at hn; exact hn.elim
    | some p =>
      cases hp' : w'.pools[n]? with
      | none => rw [hp, hp'] at hn; exact hn.elim
      | some p' =>
        rw [hp, hp'] at hn
        simp only [Option.map_some, hn.emit]
  · intro j
    simp only [World.drain, List.getElem?_map]
    have hj := h.pools j
    cases hp : w.pools[j]? with
    | none =>
      cases hp' : w'.pools[j]? with
      | none => trivial
      | some p' => rw [hp, hp'] at hj; exact hj.elim
    | some p =>
      cases hp' : w'.pools[j]? with
      | none => rw [hp, hp'] at hj; exact hj.elim
      | some p' =>
        rw [hp, hp'] at hj
        exact hj.drain

theorem WR.next {i t : Nat} {w w' : World} (h : WR i t w w') (hw : CollW w) (hw' : CollW w') (x : WOp) :
    WR i t (w.next x) (w'.next x) := (h.step hw hw' x).drain

theorem WR.run {i t : Nat} (hs : History) (hc : ∀ x ∈ hs, x.admits Op.collecting = true) :
    ∀ {w w' : World}, WR i t w w' → CollW w → CollW w' → WR i t (w.run hs) (w'.run hs) := by
  induction hs with
  | nil => intro w w' h _ _; exact h
  | cons x xs ih =>
    intro w w' h hw hw'
    simp only [World.run, List.foldl_cons]
    have hx := hc x (by simp)
    exact ih (fun y hy => hc y (by simp [hy])) (h.next hw hw' x) (World.all_next allCollInvariant w x hx hw)
      (World.all_next allCollInvariant w' x hx hw')

/-- **the differing input**: on pool `i`, the future of task `t` completes with `e` in one run, normally in the other -/
theorem WR.diff (i t : Nat) (w : World) (ords : List (List Nat)) (e : Err)
    (hlast : ∀ p tk, w.pools[i]? = some p → p.tasks[t]? = some tk → tk.phase = .inWorker → tk.awaitsLeft = 0) :
    WR i t (w.next (.on i ords (.gate t (.exc e)))) (w.next (.on i ords (.gate t .ok))) := by
  refine WR.drain ?_
  simp only [World.step]
  cases hp : w.pools[i]? with
  | none => exact WR.refl i t w
  | some p =>
    refine (WR.refl i t w).set i _ _ ?_ _ _ rfl rfl rfl rfl rfl
    unfold PR
    rw [if_pos rfl]
    exact (doGate_diff (p := { p with orders := ords }) rfl e (fun tk htk => hlast p tk hp htk)).symm

/-- **C12, two-run noninterference.**  The two runs differ in one input: the future task `t` of pool `i` awaits
completes with the exception `e` in `w` and normally in `w'`.  Then the ready queues, the configurations, the pool
counter and every pool other than `i` are equal, and pool `i` is the same up to `Pool.er t`. -/
theorem C12_noninterference (base : Nat) (h1 h2 : History) (i : Nat) (ords : List (List Nat)) (t : Nat) (e : Err)
    (hc1 : ∀ x ∈ h1, x.admits Op.collecting = true) (hc2 : ∀ x ∈ h2, x.admits Op.collecting = true)
    (hlast : ∀ p tk, ((World.init base).run h1).pools[i]? = some p → p.tasks[t]? = some tk →
      tk.phase = .inWorker → tk.awaitsLeft = 0) :
    let w  := (World.init base).run (h1 ++ [WOp.on i ords (.gate t (.exc e))] ++ h2)
    let w' := (World.init base).run (h1 ++ [WOp.on i ords (.gate t .ok)] ++ h2)
    w'.ready = w.ready ∧ w'.cfgs = w.cfgs ∧ w'.counter = w.counter ∧ w'.pools.length = w.pools.length ∧
    ∀ j p p', w.pools[j]? = some p → w'.pools[j]? = some p' → (if j = i then p'.er t = p.er t else p' = p) := by
  intro w w'
  have hw1 : CollW ((World.init base).run h1) := World.reachable allCollInvariant base h1 hc1
  have hR : WR i t w w' := by
    simp only [w, w', World.run, List.foldl_append, List.foldl_cons, List.foldl_nil]
    exact WR.run h2 hc2 (WR.diff i t _ ords e hlast) (World.all_next allCollInvariant _ _ rfl hw1)
      (World.all_next allCollInvariant _ _ rfl hw1)
  refine ⟨hR.ready, hR.cfgs, hR.counter, hR.len, ?_⟩
  intro j p p' hp hp'
  have := hR.pools j
  rw [hp, hp'] at this
  exact this

/-! ### the hypothesis, as a check on a concrete world -/

/-- task `t` of pool `i` is suspended on a pending future, inside a coroutine callback or at its worker's last await -/
def World.lastAwait (w : World) (i t : Nat) : Bool :=
  match w.pools[i]? with
  | none => false
  | some p =>
    match p.tasks[t]? with
    | none => false
    | some tk =>
      p.wakesOnCancel t && (tk.phase != .inWorker || tk.awaitsLeft == 0)

theorem World.lastAwait_spec {w : World} {i t : Nat} (h : w.lastAwait i t = true) :
    ∀ p tk, w.pools[i]? = some p → p.tasks[t]? = some tk → tk.phase = .inWorker → tk.awaitsLeft = 0 := by
  intro p tk hp htk hph
  simp only [World.lastAwait, hp, htk, hph, bne_self_eq_false, Bool.false_or, Bool.and_eq_true, beq_iff_eq] at h
  exact h.2

/-- the statement with the hypothesis in its checkable form: task `t` is suspended on a pending future (the differing
input does complete it), in a callback or at its last await -/
theorem C12_noninterference' (base : Nat) (h1 h2 : History) (i : Nat) (ords : List (List Nat)) (t : Nat) (e : Err)
    (hc1 : ∀ x ∈ h1, x.admits Op.collecting = true) (hc2 : ∀ x ∈ h2, x.admits Op.collecting = true)
    (hlast : ((World.init base).run h1).lastAwait i t = true) :
    let w  := (World.init base).run (h1 ++ [WOp.on i ords (.gate t (.exc e))] ++ h2)
    let w' := (World.init base).run (h1 ++ [WOp.on i ords (.gate t .ok)] ++ h2)
    w'.ready = w.ready ∧ w'.cfgs = w.cfgs ∧ w'.counter = w.counter ∧ w'.pools.length = w.pools.length ∧
    ∀ j p p', w.pools[j]? = some p → w'.pools[j]? = some p' → (if j = i then p'.er t = p.er t else p' = p) :=
  C12_noninterference base h1 h2 i ords t e hc1 hc2 (World.lastAwait_spec hlast)

/-! ### the coarser erasure of DESIGN §5 -/

/-- forget how task `t` ended, the state of the future it awaits included (and the bookkeeping flag `ambiguous`) -/
def Pool.erCoarse (t : Nat) (p : Pool) : Pool :=
  { p with tasks := p.tasks.modify t (fun k => { k with fut := .ok, pendingExc := none, outcome := k.outcome.map fun _ => Outcome.ok }),
           log := p.log.map (erEv t), ambiguous := false }

theorem Pool.erCoarse_er (t : Nat) (p : Pool) : (er t p).erCoarse t = p.erCoarse t := by
  simp only [Pool.erCoarse, er, modify_modify_same, List.map_map]
  congr 1
  · apply modify_congr
    intro k
    cases k
    simp [erTask, Function.comp_def]
  · apply List.map_congr_left; intro e _; simp

/-- equal up to `er` implies equal up to the coarser erasure -/
theorem Pool.erCoarse_of_er {t : Nat} {p p' : Pool} (h : er t p' = er t p) : p'.erCoarse t = p.erCoarse t := by
  rw [← Pool.erCoarse_er t p', ← Pool.erCoarse_er t p, h]

/-! ### non-vacuity -/

/-- two gated workers are started and reach their (only) suspension point -/
def C12_demo_before : History :=
  [.mkpool (some 2) none none, .on 0 [] (.apply 2 none Pool.gatedSpec), .run 0 [], .run 0 [], .run 0 []]

/-- task 0 ends, a collecting `flush`, the second task is released and ends, another collecting `flush` -/
def C12_demo_after : History :=
  [.run 0 [], .on 0 [] (.flush true), .run 0 [], .on 0 [] (.gate 1 .ok), .run 0 [], .on 0 [] (.flush true), .run 0 []]

def C12_demo_raises : World :=
  (World.init 0).run (C12_demo_before ++ [WOp.on 0 [] (.gate 0 (.exc (.user 1)))] ++ C12_demo_after)
def C12_demo_returns : World :=
  (World.init 0).run (C12_demo_before ++ [WOp.on 0 [] (.gate 0 .ok)] ++ C12_demo_after)

/-- the premises hold: every `flush` collects, task 0 is suspended at its last await -/
example : (∀ x ∈ C12_demo_before, x.admits Op.collecting = true) ∧ (∀ x ∈ C12_demo_after, x.admits Op.collecting = true) ∧
    ((World.init 0).run C12_demo_before).lastAwait 0 0 = true := by decide +kernel

/-- the two runs do differ — in task 0's own record and log entry; both background calls return normally in both -/
example : (C12_demo_raises.pools.map fun p => p.log.map Ev.show) = [["S0(a)", "S1(a)", "E0", "R1"]] ∧
    (C12_demo_raises.pools.map fun p => p.tasks.map fun k => (k.outcome, k.pendingExc)) =
      [[(some (.exc (.user 1)), some (.user 1)), (some .ok, none)]] ∧
    (C12_demo_raises.pools.map fun p => p.apis.map fun a => a.outcome) = [[some .ok, some .ok]] := by
  decide +kernel

example : (C12_demo_returns.pools.map fun p => p.log.map Ev.show) = [["S0(a)", "S1(a)", "R0", "R1"]] ∧
    (C12_demo_returns.pools.map fun p => p.tasks.map fun k => (k.outcome, k.pendingExc)) =
      [[(some .ok, none), (some .ok, none)]] ∧
    (C12_demo_returns.pools.map fun p => p.apis.map fun a => a.outcome) = [[some .ok, some .ok]] := by
  decide +kernel

/-- the theorem applied to the demonstration -/
example : C12_demo_returns.ready = C12_demo_raises.ready ∧
    ∀ p p', C12_demo_raises.pools[0]? = some p → C12_demo_returns.pools[0]? = some p' → p'.er 0 = p.er 0 := by
  have h := C12_noninterference' 0 C12_demo_before C12_demo_after 0 [] 0 (.user 1) (by decide) (by decide) (by decide +kernel)
  exact ⟨h.1, fun p p' hp hp' => h.2.2.2.2 0 p p' hp hp'⟩

end Taskpool
