import Taskpool.Inv.GoodInv
/-! # C15 — pool_size reports and enforces the configured maximum when changed

The unchanged code violates three of the four clauses (known findings R5-getter, R5-shrink, R5-grow:
`test_pool_size` pins the getter to the semaphore counter, so no repair passes the unedited suite).
This file proves the clause that holds, states exactly what the code does instead (so that any *other* deviation
is still caught by the correspondence), and refutes the other three clauses on the model with closed witnesses
that are replayed on the real code on every run. -/
namespace Taskpool
open Pool

/-- what `pool.pool_size` evaluates to -/
def Pool.poolSize (p : Pool) : Cap := p.sem.value

/-- **the clause that holds**: a negative value raises ValueError and changes nothing (full state equality) -/
theorem C15_negative_rejected (p : Pool) (v : Int) (h : v < 0) : p.doSetSize v = (p, .err .valueError) := by
  unfold doSetSize; simp [h]

/-- as-is semantics of the assignment: the *free-slot counter* is overwritten, nothing else is touched (but the ghost
bit that records the assignment) — no waiter is woken, no task is disturbed -/
theorem C15_as_is_setter (p : Pool) (v : Int) (h : 0 ≤ v) :
    p.doSetSize v = ({ p with sem := { p.sem with value := .fin v.toNat }, resized := true }, .none) := by
  unfold doSetSize; simp [Int.not_lt.mpr h]

/-- "a lower value disturbs no running task" does hold: task records, registries, groups and spawners are unchanged -/
theorem C15_partial_assignment_disturbs_no_task (p : Pool) (v : Int) :
    (p.doSetSize v).1.tasks = p.tasks ∧ (p.doSetSize v).1.running = p.running ∧
    (p.doSetSize v).1.cancelledR = p.cancelledR ∧ (p.doSetSize v).1.ended = p.ended ∧
    (p.doSetSize v).1.reqs = p.reqs ∧ (p.doSetSize v).1.groups = p.groups := by
  unfold doSetSize; split <;> exact ⟨rfl, rfl, rfl, rfl, rfl, rfl⟩

/-- as-is semantics of the getter, for a pool whose size was never assigned: it reports the configured size
*minus* the slots in use — the statement "always reports the configured maximum" is false whenever a task runs -/
theorem C15_as_is_getter (base : Nat) (h : History) (hn : ∀ x ∈ h, x.admits noSetSize = true)
    (i : Nat) (c : Cfg) (p : Pool) (n : Nat)
    (hc : ((World.init base).run h).cfgs[i]? = some c) (hp : ((World.init base).run h).pools[i]? = some p)
    (hsz : c.size0 = .fin n) :
    ∃ v, p.poolSize = .fin v ∧ v + heldL p.tasks + grantsL p.sem.waiters = n := by
  have hg := goodFin base h hn i c p n hc hp hsz
  exact hg.slot

/-! ### refutations (closed terms; the same histories are the witnesses in `known_findings.json`) -/

/-- R5-getter: a size-2 pool with one running task reports `pool_size = 1` -/
def C15_witness_getter : History :=
  [.mkpool (some 2) none none, .on 0 [] (.apply 1 none Pool.gatedSpec), .run 0 [], .run 0 []]

theorem C15_refuted_getter :
    ((World.init 0).run C15_witness_getter).pools.map (fun p => (p.poolSize, p.running.length)) = [(.fin 1, 1)] := by
  decide +kernel

/-- R5-shrink: unbounded pool, two running tasks of a map; `pool_size = 0` is assigned; one task ends and the
next element is admitted at once although 1 task is running and the limit is 0 -/
def C15_witness_shrink : History :=
  [.mkpool none none none,
   .on 0 [] (.map 0 [{ bad := false }, { bad := false }, { bad := false }] 2 none Pool.gatedSpec),
   .run 0 [], .on 0 [] (.setSize 0), .run 0 [], .run 0 [], .on 0 [] (.gate 0 .ok), .run 0 [], .run 0 [], .run 0 []]

theorem C15_refuted_shrink :
    ((World.init 0).run C15_witness_shrink).pools.map (fun p => (p.running.length, p.tasks.length)) = [(2, 3)] := by
  decide +kernel

/-- R5-grow: size-1 pool, `apply num=3`: one task runs, the spawner waits; `pool_size = 3` is assigned; at idle
still only one task runs and the pool reports itself full -/
def C15_witness_grow : History :=
  [.mkpool (some 1) none none, .on 0 [] (.apply 3 none Pool.gatedSpec), .run 0 [], .run 0 [],
   .on 0 [] (.setSize 3), .run 0 [], .run 0 []]

theorem C15_refuted_grow :
    ((World.init 0).run C15_witness_grow).pools.map (fun p => (p.running.length, p.isFull)) = [(1, true)] ∧
    ((World.init 0).run C15_witness_grow).ready = [] := by
  decide +kernel

end Taskpool
