import Taskpool.Props.C07
import Taskpool.Inv.GoodInv
/-! # C04 — apply/start run exactly the requested invocations

The spawner loop of `apply`/`start` (`_apply_spawner`, `_start_num`): progress accounting for every `num`, every
pool state, every point at which the loop has to wait. -/
namespace Taskpool
open Pool

theorem waitRoom_req (p : Pool) (m : Nat) (r : Req) (h : p.reqs[m]? = some r) :
    ∃ r', (p.waitRoom m).reqs[m]? = some r' ∧ r'.ctr = r.ctr ∧ r'.frame = .waitRoom ∧ r'.outcome = r.outcome ∧
      (p.waitRoom m).tasks = p.tasks := by
  unfold waitRoom
  simp only
  split
  · refine ⟨{ r with frame := .waitRoom, mustCancel := false, sched := true }, ?_, rfl, rfl, rfl, rfl⟩
    simp only [schedMeta, emitRef, modReq]
    rw [getElem?_modify_eq _ _ _ _ (getElem?_modify_eq _ _ _ _ h)]
  · refine ⟨{ r with frame := .waitRoom, mustCancel := false }, ?_, rfl, rfl, rfl, rfl⟩
    simp only [modReq]
    rw [getElem?_modify_eq _ _ _ _ h]

theorem takeSlotAndCreate_req (p : Pool) (m : Nat) (isMap : Bool) (r : Req) (h : p.reqs[m]? = some r) :
    (p.takeSlotAndCreate m isMap).reqs[m]? = some { r with created := r.created + 1 } ∧
    (p.takeSlotAndCreate m isMap).tasks.length = p.tasks.length + 1 := by
  unfold takeSlotAndCreate createTask
  simp only [emitRef, modReq]
  exact ⟨getElem?_modify_eq _ _ _ _ h, by simp⟩

/-- the result of running the apply/start loop for `n` more invocations -/
inductive LoopEnd (r' : Req) : Prop
  | done (h1 : r'.remaining = 0) (h2 : r'.frame = .done) (h3 : r'.outcome = some .ok ∨ r'.outcome = some .cancelled)
  | waiting (h : r'.frame = .waitRoom) (h2 : r'.outcome = none) (h3 : 0 < r'.remaining)
  | failed (e : Err) (h : r'.outcome = some (.exc e))

/-- **progress accounting.** Starting the loop with `n` invocations to go: whatever the pool size and state, when
the loop next suspends or ends, `created + skipped + remaining` has not changed — no invocation is lost or
duplicated — and the loop has either finished with nothing remaining, or waits for pool room with the current
invocation still counted as remaining, or died of an exception raised by `_start_task` (closed pool; locked pool
only for a spawner that is no longer filed as running). -/
theorem C04_loop_accounting (m n : Nat) (p : Pool) (r : Req) (h : p.reqs[m]? = some r) (ho : r.outcome = none) :
    ∃ r', (applyLoop m n p).reqs[m]? = some r' ∧
      r'.created + r'.skipped + r'.remaining = r.created + r.skipped + n ∧ LoopEnd r' ∧
      (applyLoop m n p).tasks.length = p.tasks.length + (r'.created - r.created) ∧ r.created ≤ r'.created := by
  induction n generalizing p r with
  | zero =>
    unfold applyLoop
    have h1 : (p.modReq m fun x => { x with remaining := 0 }).reqs[m]? = some { r with remaining := 0 } := by
      simp only [modReq]; exact getElem?_modify_eq _ _ _ _ h
    obtain ⟨a, b⟩ := finishMeta_req _ m .ok _ h1
    refine ⟨_, a, by simp [Req.finished], LoopEnd.done rfl rfl ?_, by rw [b]; simp [Req.finished], by simp [Req.finished]⟩
    simp only [Req.finished]
    by_cases hm : r.mustCancel = true <;> simp [hm]
  | succ n ih =>
    unfold applyLoop
    simp only
    have h1 : (p.modReq m fun x => { x with remaining := n + 1 }).reqs[m]? = some { r with remaining := n + 1 } := by
      simp only [modReq]; exact getElem?_modify_eq _ _ _ _ h
    split
    · -- the call `func(*args, **kwargs)` raises: skipped, continue
      have h2 : ((p.modReq m fun x => { x with remaining := n + 1 }).modReq m fun x => { x with skipped := x.skipped + 1 }).reqs[m]?
          = some { r with remaining := n + 1, skipped := r.skipped + 1 } := by
        simp only [modReq]; exact getElem?_modify_eq _ _ _ _ h1
      obtain ⟨r', a, b, c, d, e⟩ := ih _ _ h2 ho
      exact ⟨r', a, by simp only at b; omega, c, by simpa using d, by simpa using e⟩
    · split
      · obtain ⟨a, b⟩ := finishMeta_req _ m (.exc .poolIsClosed) _ h1
        exact ⟨_, a, by simp [Req.finished], LoopEnd.failed .poolIsClosed (by simp [Req.finished]),
          by rw [b]; simp [Req.finished], by simp [Req.finished]⟩
      · split
        · obtain ⟨a, b⟩ := finishMeta_req _ m (.exc .poolIsLocked) _ h1
          exact ⟨_, a, by simp [Req.finished], LoopEnd.failed .poolIsLocked (by simp [Req.finished]),
            by rw [b]; simp [Req.finished], by simp [Req.finished]⟩
        · split
          · obtain ⟨r', a, b, c, d, e⟩ := waitRoom_req _ m _ h1
            refine ⟨r', a, ?_, LoopEnd.waiting c (by rw [d]; exact ho) ?_, ?_, ?_⟩
            · simp only [Req.ctr, Prod.mk.injEq] at b; omega
            · simp only [Req.ctr, Prod.mk.injEq] at b; omega
            · rw [e]; simp only [Req.ctr, Prod.mk.injEq] at b; simp [b.2.1]
            · simp only [Req.ctr, Prod.mk.injEq] at b; omega
          · obtain ⟨a, b⟩ := takeSlotAndCreate_req _ m false _ h1
            obtain ⟨r', a', b', c', d', e'⟩ := ih _ _ a ho
            refine ⟨r', a', by simp only at b'; omega, c', ?_, by simp only at e'; omega⟩
            rw [d', b]; simp only [modReq_tasks] at e' ⊢; omega

/-- **done means all.** If the loop is entered for a request of `num` invocations and ends normally, exactly `num`
invocations were started or skipped (skipped = the call raised synchronously) -/
theorem C04_done_means_all (m num : Nat) (p : Pool) (r : Req) (h : p.reqs[m]? = some r) (ho : r.outcome = none)
    (hc : r.created = 0) (hs : r.skipped = 0) (r' : Req) (hr' : (applyLoop m num p).reqs[m]? = some r')
    (hd : r'.frame = .done) (hok : r'.outcome = some .ok) : r'.created + r'.skipped = num := by
  obtain ⟨r2, a, b, c, _⟩ := C04_loop_accounting m num p r h ho
  rw [a] at hr'; cases hr'
  cases c with
  | done h1 _ _ => omega
  | waiting hw => rw [hd] at hw; cases hw
  | failed e he => rw [hok] at he; cases he

/-- **exactly the requested invocations, for every history.** In every pool of every reachable world (any sizes,
resizes, competing requests, waits for room, `lock()`, `gather_and_close()`, cancellations, failures, user code), for
every `apply`/`start` request: the tasks that name it are exactly the `created` ones, and
`tasks created + invocations skipped (the call raised) + invocations still to start = the number requested` — no
invocation is lost or duplicated while the spawner lives, and never more than `num` tasks exist. -/
theorem C04_exact_invocations (base : Nat) (h : History) (i : Nat) (c : Cfg) (p : Pool)
    (hc : ((World.init base).run h).cfgs[i]? = some c) (hp : ((World.init base).run h).pools[i]? = some p)
    (m : Nat) (r : Req) (hr : p.reqs[m]? = some r) (hk : r.kind = .apply) :
    tasksOf p.tasks m = r.created ∧ r.created + r.skipped + r.remaining = r.n0 ∧ tasksOf p.tasks m + r.skipped ≤ r.n0 := by
  have ha := accAll base h i c p hc hp
  have h1 := ha.tk m r hr
  have h2 := ((ha.rq m r hr).1 hk).1
  have h2' : ((r.created + r.skipped + r.remaining : Nat) : Int) = r.n0 + 0 := h2
  exact ⟨h1, by omega, by omega⟩

/-- the number requested is what the call was given: `apply(num)` / `start(num)` register a request with
`n0 = remaining = num` -/
theorem C04_requested_is_num (stars : Nat) (g : String) (sp : SpawnSpec) (num nc : Nat) :
    (newReq .apply stars g sp num [] nc).n0 = num ∧ (newReq .apply stars g sp num [] nc).remaining = num := ⟨rfl, rfl⟩

/-- every task belongs to an existing request of its pool -/
theorem C04_task_has_request (base : Nat) (h : History) (i : Nat) (c : Cfg) (p : Pool)
    (hc : ((World.init base).run h).cfgs[i]? = some c) (hp : ((World.init base).run h).pools[i]? = some p)
    (t : Nat) (tk : PTask) (ht : p.tasks[t]? = some tk) : tk.req < p.reqs.length :=
  (accAll base h i c p hc hp).ref t tk ht

/-! Non-vacuity: `apply num=3` on a size-1 pool: one task created, the spawner waits with 2 remaining. -/
example : ((applyLoop 0 3 ((Pool.init (.fin 1) none).doApply 3 none gatedSpec).1).reqs.map fun r =>
    (r.created, r.skipped, r.remaining, r.frame)) = [(1, 0, 2, MFrame.waitRoom)] := by decide +kernel

end Taskpool
