import Taskpool.Props.C06
/-! # C07 — Group and global cancellation are complete and contained

Step-level theorems: what one `cancel_group`/`cancel_all` call does to the pool (frame and effect), and what a
spawner does at its next step once a cancellation is pending for it, in each of the placements the property
quantifies over (not started / waiting for pool room / waiting for its own concurrency slot / slot just handed
over).  The temporal glue "nothing un-cancels a spawner before its next step" is carried by the correspondence
check, not by a theorem (DESIGN §5 C07). -/
namespace Taskpool
open Pool

/-- an unknown group name raises InvalidGroupName and changes nothing -/
theorem C07_unknown_name_no_change (p : Pool) (g : String) (h : p.groupIds g = none) :
    p.doCancelGroup g = (p, .err .groupNotFound) := by
  unfold doCancelGroup; simp [h]

theorem metaCancel_frame (q : Pool) (m : Nat) :
    (q.metaCancel m).groups = q.groups ∧ (q.metaCancel m).tasks = q.tasks ∧ (q.metaCancel m).running = q.running ∧
    (q.metaCancel m).reqs.length = q.reqs.length := by
  unfold metaCancel
  repeat' (first | exact ⟨rfl, rfl, rfl, rfl⟩ | split)
  all_goals simp [schedMeta, emitRef, modReq]

theorem foldl_frame {α} (l : List α) (f : Pool → α → Pool) (P : Pool → Pool → Prop) (hrefl : ∀ p, P p p)
    (htrans : ∀ a b c, P a b → P b c → P a c) (h : ∀ p a, P p (f p a)) (p : Pool) : P p (l.foldl f p) := by
  induction l generalizing p with
  | nil => exact hrefl p
  | cons a as ih => exact htrans _ _ _ (h p a) (ih (f p a))

theorem cancelGroupBody_groups (p p' : Pool) (g ids order) (h : p.cancelGroupBody g ids order = some p') :
    p'.groups = p.groups ∧ p'.running = p.running ∧ p'.tasks.length = p.tasks.length := by
  unfold cancelGroupBody at h
  simp only at h
  split at h
  · simp at h
  · simp only [Option.some.injEq] at h
    subst h
    have h1 : (p.cancelGroupMetas g).groups = p.groups ∧ (p.cancelGroupMetas g).running = p.running ∧
        (p.cancelGroupMetas g).tasks.length = p.tasks.length := by
      unfold cancelGroupMetas
      simp only
      have := foldl_frame (indicesWhere p.reqs fun r => r.inRunning && r.group == g) (fun p m => p.metaCancel m)
        (fun a b => b.groups = a.groups ∧ b.running = a.running ∧ b.tasks.length = a.tasks.length)
        (fun _ => ⟨rfl, rfl, rfl⟩) (fun a b c h1 h2 => ⟨h2.1.trans h1.1, h2.2.1.trans h1.2.1, h2.2.2.trans h1.2.2⟩)
        (fun q m => by
          obtain ⟨a, b, c, _⟩ := metaCancel_frame q m
          exact ⟨a, c, by rw [b]⟩) p
      exact this
    have h2 : ∀ (l : List Nat) (q : Pool), (l.foldl (fun p t => p.cancelTask t) q).groups = q.groups ∧
        (l.foldl (fun p t => p.cancelTask t) q).running = q.running ∧
        (l.foldl (fun p t => p.cancelTask t) q).tasks.length = q.tasks.length := fun l q =>
      foldl_frame l (fun p t => p.cancelTask t)
        (fun a b => b.groups = a.groups ∧ b.running = a.running ∧ b.tasks.length = a.tasks.length)
        (fun _ => ⟨rfl, rfl, rfl⟩) (fun a b c h1 h2 => ⟨h2.1.trans h1.1, h2.2.1.trans h1.2.1, h2.2.2.trans h1.2.2⟩)
        (fun q t => by
          obtain ⟨a, _, _, _, _, f, _, _⟩ := cancelTask_frame q t
          exact ⟨f, a, (tame_cancelTask q t).len⟩) q
    obtain ⟨a1, a2, a3⟩ := h1
    refine ⟨(h2 _ _).1.trans a1, (h2 _ _).2.1.trans a2, (h2 _ _).2.2.trans a3⟩

/-- **forgotten**: after a successful `cancel_group(g)` the pool no longer knows `g` (its ids are no longer
reported, the name is free for a new request), every other group is reported exactly as before, and no task was
created or removed by the call -/
theorem C07_forgotten (p : Pool) (g : String) (h : (p.doCancelGroup g).2 = .none) :
    (p.doCancelGroup g).1.groupIds g = none ∧
    (∀ g', g' ≠ g → (p.doCancelGroup g).1.groupIds g' = p.groupIds g') ∧
    (p.doCancelGroup g).1.tasks.length = p.tasks.length ∧ (p.doCancelGroup g).1.running = p.running := by
  unfold doCancelGroup at h ⊢
  split at h
  · simp at h
  · rename_i ids hids
    simp only at h ⊢
    split at h
    · simp at h
    · rename_i p2 hp2
      simp only [hp2]
      obtain ⟨hg, hr, hl⟩ := cancelGroupBody_groups _ _ _ _ _ hp2
      have hpo : p.popOrder.1.groups = p.groups ∧ p.popOrder.1.tasks = p.tasks ∧ p.popOrder.1.running = p.running := by
        unfold popOrder; split <;> exact ⟨rfl, rfl, rfl⟩
      refine ⟨?_, ?_, by rw [hl]; simp [hpo.2.1], by rw [hr]; exact hpo.2.2⟩
      · unfold groupIds
        rw [hg]
        simp only [hpo.1]
        have : (p.groups.filter (fun x => x.1 != g)).find? (fun x => x.1 == g) = none := by
          rw [List.find?_eq_none]
          intro x hx
          have := (List.mem_filter.mp hx).2
          simp at this ⊢
          exact this
        simp [this]
      · intro g' hne
        unfold groupIds
        rw [hg]
        simp only [hpo.1]
        congr 1
        induction p.groups with
        | nil => rfl
        | cons x xs ih =>
          simp only [List.filter_cons, List.find?_cons]
          by_cases hx : x.1 = g
          · have : (x.1 != g) = false := by simp [hx]
            have h2 : (x.1 == g') = false := by simp [hx]; exact fun e => hne e.symm
            simp only [this, h2]
            exact ih
          · have : (x.1 != g) = true := by simp [hx]
            simp only [this, if_true, List.find?_cons]
            split
            · rfl
            · exact ih

/-! ### what a spawner does once its cancellation is pending -/

/-- a cancellation is pending for spawner `m`: `must_cancel` is set (not started, running, or its slot was just
handed over), or the future it waits on — pool room or its own concurrency slot — was cancelled -/
def CancelPending (p : Pool) (m : Nat) : Prop :=
  ∃ r : Req, p.reqs[m]? = some r ∧ r.sched = true ∧ r.outcome = none ∧
    (r.mustCancel = true ∨
     (r.frame = .waitRoom ∧ (removeWaiterL m p.sem.waiters).1 = some .cancelled) ∨
     (r.frame = .waitMapSem ∧ (removeWaiterL m r.mapSem.waiters).1 = some .cancelled))

theorem releasePool_tasks (p : Pool) : p.releasePool.tasks = p.tasks := by
  unfold releasePool; simp

theorem emitChildren_reqs (cbs : List (Nat × Nat)) (q : Pool) : (q.emitChildren cbs).reqs = q.reqs := by
  induction cbs generalizing q with
  | nil => rfl
  | cons c cs ih => simp only [emitChildren, List.foldl_cons] at ih ⊢; rw [ih]; rfl

theorem emitChildren_tasks (cbs : List (Nat × Nat)) (q : Pool) : (q.emitChildren cbs).tasks = q.tasks := by
  induction cbs generalizing q with
  | nil => rfl
  | cons c cs ih => simp only [emitChildren, List.foldl_cons] at ih ⊢; rw [ih]; rfl

/-- the record of a spawner whose task is over -/
def Req.finished (r : Req) (o : Outcome) : Req :=
  { r with frame := .done, sched := false, mustCancel := false,
           outcome := (some (if o == .ok && r.mustCancel then Outcome.cancelled else o)) }

/-- the spawner task is over: its record keeps every counter, the outcome is set; no task is touched -/
theorem finishMeta_req (p : Pool) (m : Nat) (o : Outcome) (r : Req) (h : p.reqs[m]? = some r) :
    (p.finishMeta m o).reqs[m]? = some (r.finished o) ∧ (p.finishMeta m o).tasks = p.tasks := by
  unfold finishMeta
  simp only [h]
  rw [emitChildren_reqs, emitChildren_tasks]
  exact ⟨by simp only [modReq]; rw [getElem?_modify_eq _ _ _ _ h]; rfl, rfl⟩

/-- **not started**: a spawner cancelled before its first step never runs its body — no pull, no task -/
theorem C07_stops_before_start (p : Pool) (m : Nat) (r : Req) (h : p.reqs[m]? = some r) (hs : r.sched = true)
    (hf : r.frame = .notStarted) (hc : r.mustCancel = true) :
    (p.stepMeta m).tasks = p.tasks ∧
    ∃ r', (p.stepMeta m).reqs[m]? = some r' ∧ r'.outcome.isSome = true ∧ r'.pulled = r.pulled ∧
      r'.created = r.created ∧ r'.items = r.items := by
  unfold stepMeta
  simp only [h, hs, hf]
  unfold stepMetaNotStarted
  simp only [hc]
  have h' : (p.modReq m fun x => { x with sched := false }).reqs[m]? = some { r with sched := false } := by
    simp only [modReq]; rw [getElem?_modify_eq _ _ _ _ h]
  have hfm := finishMeta_req (p.modReq m fun x => { x with sched := false }) m .cancelled _ h'
  exact ⟨hfm.2, _, hfm.1, rfl, rfl, rfl, rfl⟩

/-- the progress counters of a request: what was pulled, created, skipped and what is left -/
def Req.ctr (r : Req) : Nat × Nat × Nat × List Item × Nat := (r.pulled, r.created, r.skipped, r.items, r.remaining)

/-- `q` has the same tasks and the same progress counters in every request as `p` -/
structure Quiet (p q : Pool) : Prop where
  tasks : q.tasks = p.tasks
  reqs : ∀ (m : Nat) (r : Req), p.reqs[m]? = some r → ∃ r', q.reqs[m]? = some r' ∧ r'.ctr = r.ctr

theorem Quiet.refl (p : Pool) : Quiet p p := ⟨rfl, fun _ r h => ⟨r, h, rfl⟩⟩
theorem Quiet.trans {p q s : Pool} (a : Quiet p q) (b : Quiet q s) : Quiet p s :=
  ⟨b.tasks.trans a.tasks, fun m r h => by
    obtain ⟨r1, h1, e1⟩ := a.reqs m r h
    obtain ⟨r2, h2, e2⟩ := b.reqs m r1 h1
    exact ⟨r2, h2, e2.trans e1⟩⟩

theorem quiet_modReq (p : Pool) (m : Nat) (f : Req → Req) (hf : ∀ x, (f x).ctr = x.ctr) : Quiet p (p.modReq m f) := by
  refine ⟨rfl, fun i r h => ?_⟩
  by_cases e : m = i
  · subst e; exact ⟨f r, by simp only [modReq]; rw [getElem?_modify_eq _ _ _ _ h], hf r⟩
  · exact ⟨r, by simp only [modReq]; rw [getElem?_modify_ne _ _ _ _ e]; exact h, rfl⟩

theorem quiet_of_eq (p q : Pool) (ht : q.tasks = p.tasks) (hr : q.reqs = p.reqs) : Quiet p q :=
  ⟨ht, fun m r h => ⟨r, by rw [hr]; exact h, rfl⟩⟩

theorem quiet_schedOpt (p : Pool) (o : Option Nat) : Quiet p (p.schedOpt o) := by
  cases o with
  | none => exact Quiet.refl p
  | some n =>
    exact Quiet.trans (q := p.modReq n fun x => { x with sched := true }) (quiet_modReq p n _ (fun _ => rfl))
      (quiet_of_eq _ _ rfl rfl)

theorem quiet_releasePool (p : Pool) : Quiet p p.releasePool := by
  unfold releasePool
  refine Quiet.trans ?_ (quiet_schedOpt _ _)
  exact quiet_of_eq _ _ rfl rfl

theorem quiet_releaseMap (p : Pool) (m : Nat) : Quiet p (p.releaseMap m) := by
  unfold releaseMap
  split
  · exact Quiet.refl p
  · refine Quiet.trans ?_ (quiet_schedOpt _ _)
    exact quiet_modReq p m _ (fun _ => rfl)

theorem quiet_emitChildren (p : Pool) (cbs : List (Nat × Nat)) : Quiet p (p.emitChildren cbs) :=
  quiet_of_eq _ _ (emitChildren_tasks cbs p) (emitChildren_reqs cbs p)

theorem quiet_finishMeta (p : Pool) (m : Nat) (o : Outcome) : Quiet p (p.finishMeta m o) := by
  unfold finishMeta
  split
  · exact Quiet.refl p
  · refine Quiet.trans ?_ (quiet_emitChildren _ _)
    exact quiet_modReq p m _ (fun _ => rfl)

theorem finishMeta_done (p : Pool) (m : Nat) (o : Outcome) (r : Req) (h : p.reqs[m]? = some r) :
    ∃ r', (p.finishMeta m o).reqs[m]? = some r' ∧ r'.outcome.isSome = true := by
  obtain ⟨a, _⟩ := finishMeta_req p m o r h
  exact ⟨_, a, rfl⟩

/-- **waiting for pool room / slot just handed over**: once the cancellation is pending (the waiter future was
cancelled, or `must_cancel` was set because the slot had already been granted), the spawner's next step creates
no task and pulls nothing; a slot that had been handed to it is given back (that is slot conservation, C02) -/
theorem C07_stops_waiting_for_room (p : Pool) (m : Nat) (r : Req) (h : p.reqs[m]? = some r) (hs : r.sched = true)
    (hf : r.frame = .waitRoom)
    (hc : r.mustCancel = true ∨ (removeWaiterL m p.sem.waiters).1 = some .cancelled) :
    Quiet p (p.stepMeta m) ∧ ∃ r', (p.stepMeta m).reqs[m]? = some r' ∧ r'.outcome.isSome = true := by
  unfold stepMeta
  simp only [h, hs, hf]
  have hcond : ((removeWaiterL m (p.modReq m fun x => { x with sched := false }).sem.waiters).1 == some WaitSt.cancelled ||
      r.mustCancel) = true := by
    rcases hc with hc | hc
    · simp [hc]
    · simp [modReq, hc]
  unfold wakeWaitRoom
  simp only [hcond, Bool.true_or, if_true]
  unfold wakeWaitRoomCore
  simp only [hcond, if_true]
  unfold roomWaitCancelled
  simp only
  have q0 : Quiet p (({ (p.modReq m fun x => { x with sched := false }) with
      sem := { (p.modReq m fun x => { x with sched := false }).sem with
        waiters := (removeWaiterL m (p.modReq m fun x => { x with sched := false }).sem.waiters).2 } } : Pool).modReq m
      fun x => { x with mustCancel := false }) := by
    refine Quiet.trans ?_ (quiet_modReq _ m _ (fun _ => rfl))
    refine Quiet.trans (q := p.modReq m fun x => { x with sched := false }) (quiet_modReq p m _ (fun _ => rfl)) ?_
    exact quiet_of_eq _ _ rfl rfl
  refine ⟨?_, ?_⟩
  · refine Quiet.trans ?_ (quiet_finishMeta _ m _)
    refine q0.trans ?_
    split <;> split <;>
      first
        | exact (quiet_releasePool _).trans (quiet_releaseMap _ _)
        | exact quiet_releasePool _
        | exact quiet_releaseMap _ _
        | exact Quiet.refl _
  · obtain ⟨r0, h0, _⟩ := q0.reqs m r h
    generalize hq : (if (r.kind == ReqKind.map && r.acquired) = true then _ else _ : Pool) = Q
    have : ∃ r1, Q.reqs[m]? = some r1 := by
      subst hq
      split <;> split
      all_goals
        first
          | (obtain ⟨r1, h1, _⟩ := ((quiet_releasePool _).trans (quiet_releaseMap _ m)).reqs m r0 h0; exact ⟨r1, h1⟩)
          | (obtain ⟨r1, h1, _⟩ := (quiet_releasePool _).reqs m r0 h0; exact ⟨r1, h1⟩)
          | (obtain ⟨r1, h1, _⟩ := (quiet_releaseMap _ m).reqs m r0 h0; exact ⟨r1, h1⟩)
          | exact ⟨r0, h0⟩
    obtain ⟨r1, h1⟩ := this
    exact finishMeta_done Q m .ok r1 h1

/-- **waiting for its own concurrency slot** (map family): likewise -/
theorem C07_stops_waiting_for_map_slot (p : Pool) (m : Nat) (r : Req) (h : p.reqs[m]? = some r) (hs : r.sched = true)
    (hf : r.frame = .waitMapSem)
    (hc : r.mustCancel = true ∨ (removeWaiterL m r.mapSem.waiters).1 = some .cancelled) :
    Quiet p (p.stepMeta m) ∧ ∃ r', (p.stepMeta m).reqs[m]? = some r' ∧ r'.outcome.isSome = true := by
  unfold stepMeta
  simp only [h, hs, hf]
  have hcond : ((removeWaiterL m r.mapSem.waiters).1 == some WaitSt.cancelled || r.mustCancel) = true := by
    rcases hc with hc | hc
    · simp [hc]
    · simp [hc]
  unfold wakeWaitMapSem
  simp only [hcond, Bool.true_or, if_true]
  unfold wakeWaitMapSemCore
  simp only [hcond, if_true]
  generalize (if ((removeWaiterL m r.mapSem.waiters).1 == some WaitSt.granted) = true then _ else _ : Sem × Option Nat) = s2
  have q0 : Quiet p (((p.modReq m fun x => { x with sched := false }).modReq m fun x =>
      { x with mapSem := s2.1, mustCancel := false }).schedOpt s2.2) := by
    refine Quiet.trans ?_ (quiet_schedOpt _ _)
    refine Quiet.trans ?_ (quiet_modReq _ m _ (fun _ => rfl))
    exact quiet_modReq p m _ (fun _ => rfl)
  refine ⟨q0.trans (quiet_finishMeta _ m _), ?_⟩
  obtain ⟨r0, h0, _⟩ := q0.reqs m r h
  exact finishMeta_done _ m .ok r0 h0

theorem snapReq_sets (y : Req) (h1 : y.frame ≠ .running) (h2 : y.frame ≠ .done) :
    (snapReq y).cancelSnap.isSome = true ∧ (y.cancelSnap = none → (snapReq y).cancelSnap = some (y.created, y.pulled)) := by
  unfold snapReq
  have a : (y.frame != MFrame.running) = true := by simpa using h1
  have b : (y.frame != MFrame.done) = true := by simpa using h2
  cases hs : y.cancelSnap with
  | none => simp [a, b, hs]
  | some s => simp [hs]

/-- **the cancellation of a spawner is recorded.** `Task.cancel()` on a live spawner that is not inside its own handle
(it has not begun, or is suspended waiting for pool room or for its own concurrency slot — with the slot possibly
already handed to it) records the ghost snapshot `(created, pulled)` of that moment, unless one was recorded earlier -/
theorem C07_metaCancel_snapshot (p : Pool) (m : Nat) (r : Req) (h : p.reqs[m]? = some r) (ho : r.outcome = none)
    (hnr : r.frame ≠ .running) (hnd : r.frame ≠ .done) :
    ∃ r', (p.metaCancel m).reqs[m]? = some r' ∧ r'.cancelSnap.isSome = true ∧
      (r.cancelSnap = none → r'.cancelSnap = some (r.created, r.pulled)) := by
  unfold metaCancel
  simp only [h, ho, Option.isSome_none, Bool.false_eq_true, if_false]
  split
  · obtain ⟨a, b⟩ := snapReq_sets r hnr hnd
    refine ⟨{ snapReq r with sched := true }, ?_, a, b⟩
    simp only [schedMeta, emitRef, modReq]
    rw [getElem?_modify_eq _ _ _ _ (getElem?_modify_eq _ _ _ _ h)]
  · split
    · obtain ⟨a, b⟩ := snapReq_sets { r with mapSem := { r.mapSem with waiters := cancelWaiterL m r.mapSem.waiters } } hnr hnd
      refine ⟨{ snapReq { r with mapSem := { r.mapSem with waiters := cancelWaiterL m r.mapSem.waiters } } with sched := true }, ?_, a, b⟩
      simp only [schedMeta, emitRef, modReq]
      rw [getElem?_modify_eq _ _ _ _ (getElem?_modify_eq _ _ _ _ h)]
    · obtain ⟨a, b⟩ := snapReq_sets { r with mustCancel := true } hnr hnd
      exact ⟨snapReq { r with mustCancel := true }, by simp only [modReq]; rw [getElem?_modify_eq _ _ _ _ h], a, b⟩

/-- **a cancelled spawner stays stopped — for every history.** In every pool of every reachable world (any sizes,
resizes, cancellations from the caller, from other tasks or from workers and callbacks of the group itself, failures,
flushes, sibling groups): a spawner whose cancellation was recorded has, ever since, **created no task and pulled no
element** (its counters still equal the snapshot), and it is over or its cancellation is still pending in a form its
next step cannot miss: `must_cancel` is set, or the future it is suspended on (its entry in the pool semaphore's, resp.
its own semaphore's, waiter queue) is cancelled — in which case `C07_stops_before_start`,
`C07_stops_waiting_for_room`, `C07_stops_waiting_for_map_slot` say that this very step ends it without creating or
pulling anything -/
theorem C07_cancelled_stays_stopped (base : Nat) (h : History) (i : Nat) (c : Cfg) (p : Pool)
    (hc : ((World.init base).run h).cfgs[i]? = some c) (hp : ((World.init base).run h).pools[i]? = some p)
    (m : Nat) (r : Req) (hr : p.reqs[m]? = some r) (cr pu : Nat) (hs : r.cancelSnap = some (cr, pu)) :
    r.created = cr ∧ r.pulled = pu ∧ (r.frame = .done ∨ DoomedAt p m r) := by
  obtain ⟨a, b, d⟩ := cancAll base h i c p hc hp m r cr pu hr hs
  exact ⟨a, b, d.elim False.elim id⟩

/-- **… and its next step ends it.** A doomed spawner that is due to run (not started, or suspended in either of the two
waits) finishes at that step: the step creates no task and changes no request's progress counters -/
theorem C07_doomed_next_step (p : Pool) (m : Nat) (r : Req) (h : p.reqs[m]? = some r) (hs : r.sched = true)
    (hd : DoomedAt p m r) (hf : r.frame = .notStarted ∨ r.frame = .waitRoom ∨ r.frame = .waitMapSem) :
    (p.stepMeta m).tasks = p.tasks ∧
    ∃ r', (p.stepMeta m).reqs[m]? = some r' ∧ r'.outcome.isSome = true ∧ r'.created = r.created ∧ r'.pulled = r.pulled := by
  have fromQuiet : (Quiet p (p.stepMeta m) ∧ ∃ r', (p.stepMeta m).reqs[m]? = some r' ∧ r'.outcome.isSome = true) →
      (p.stepMeta m).tasks = p.tasks ∧
      ∃ r', (p.stepMeta m).reqs[m]? = some r' ∧ r'.outcome.isSome = true ∧ r'.created = r.created ∧ r'.pulled = r.pulled := by
    intro ⟨q, r', a, b⟩
    obtain ⟨r2, a2, e⟩ := q.reqs m r h
    rw [a] at a2; cases a2
    simp only [Req.ctr, Prod.mk.injEq] at e
    exact ⟨q.tasks, r', a, b, e.2.1, e.1⟩
  rcases hf with hf | hf | hf
  · have hm : r.mustCancel = true := by
      rcases hd with d | ⟨d, _⟩ | ⟨d, _⟩
      · exact d
      · rw [hf] at d; cases d
      · rw [hf] at d; cases d
    obtain ⟨a, r', b, c, d, e, _⟩ := C07_stops_before_start p m r h hs hf hm
    exact ⟨a, r', b, c, e, d⟩
  · refine fromQuiet (C07_stops_waiting_for_room p m r h hs hf ?_)
    rcases hd with d | ⟨_, d⟩ | ⟨d, _⟩
    · exact Or.inl d
    · exact Or.inr d
    · rw [hf] at d; cases d
  · refine fromQuiet (C07_stops_waiting_for_map_slot p m r h hs hf ?_)
    rcases hd with d | ⟨d, _⟩ | ⟨_, d⟩
    · exact Or.inl d
    · rw [hf] at d; cases d
    · exact Or.inr d

/-- `cancel_all()` forgets every group -/
theorem C07_cancel_all_forgets (p : Pool) (h : p.doCancelAll.2 = .none) : p.doCancelAll.1.groups = [] := by
  unfold doCancelAll at h ⊢
  simp only at h ⊢
  split at h
  · simp at h
  · rename_i p2 hp2
    simp only [hp2]
    have key : ∀ (gs : List (String × List Nat)) (order : List Nat) (q q' : Pool),
        cancelAllLoop gs order q = some q' → q'.groups = q.groups := by
      intro gs
      induction gs with
      | nil => intro order q q' hq; simp [cancelAllLoop] at hq; subst hq; rfl
      | cons x xs ih =>
        intro order q q' hq
        obtain ⟨g, ids⟩ := x
        unfold cancelAllLoop at hq
        split at hq
        · simp at hq
        · rename_i q1 hq1
          rw [ih order q1 q' hq, (cancelGroupBody_groups _ _ _ _ _ hq1).1]
    rw [key _ _ _ _ hp2]

/-! Non-vacuity: a size-1 pool, a map over three elements whose spawner waits for room behind an `apply` task;
`cancel_group` of the map makes its cancellation pending, the name is forgotten, the sibling keeps its task. -/
def C07_demo : History :=
  [.mkpool (some 1) none none,
   .on 0 [] (.apply 1 (some "A") Pool.gatedSpec),
   .on 0 [] (.map 0 [{ bad := false }, { bad := false }, { bad := false }] 1 (some "M") Pool.gatedSpec),
   .run 0 [], .run 0 [], .run 0 [],
   .on 0 [[]] (.cancelGroup "M")]

example : (((World.init 0).run C07_demo).pools.map fun p => (p.groupIds "M", p.groupIds "A", p.running)) =
    [(none, some [0], [0])] := by decide +kernel
example : (((World.init 0).run C07_demo).pools.map fun p => p.reqs.map fun r => (r.frame, r.pulled)) =
    [[(MFrame.done, 0), (MFrame.waitRoom, 1)]] := by decide +kernel
example : (((World.init 0).run (C07_demo ++ [.run 0 [], .run 0 []])).pools.map fun p =>
    (p.tasks.length, p.reqs.map fun r => (r.frame, r.pulled))) = [(1, [(MFrame.done, 0), (MFrame.done, 1)])] := by
  decide +kernel

end Taskpool
