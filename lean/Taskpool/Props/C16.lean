import Taskpool.Inv.ControlParse
import Taskpool.Model.Control.Session
/-! C16 — any pool can be served: the handshake succeeds, the command surface is exactly the public members.
(partial: the help *text* and argparse's formatter are outside the model; they are sampled by the check at the
terminal widths of the property's quantifier.)  All statements are for an arbitrary member table.

Hypothesis of every theorem that mentions a table: `wellFormed ms` (Model/Control.lean) — member names are distinct
ASCII identifiers and, for every exposed member, `paramsOk`: parameter names are distinct identifiers, no option is
called `help` (F1), no option starts with `_` (F2), no parameter is called `command` (F4).  Python itself guarantees
everything but the three exclusions (and ASCII), so F1, F2, F4 are exactly the ways a subclass adding public members can
leave the theorems' scope; run at those points the real code fails (known findings, witnessed on every run).  Running
out of flag letters is NOT such a way: `assignFlags` falls back to the long form and `C16_parser_builds` covers it.
The check evaluates `wellFormed` on the table extracted from the served classes on every run. -/
namespace Taskpool.Control

/-- a command exists exactly for the public functions and properties of the class, under the dashed name -/
theorem C16_exposes_exactly_public (ms : List Member) (n : Str) :
    n ∈ (commandTable ms).map (·.name) ↔ ∃ m ∈ ms, isPublic m.name = true ∧ m.isCommand = true ∧ n = dash m.name := by
  simp only [List.mem_map]
  constructor
  · rintro ⟨c, hc, rfl⟩
    obtain ⟨m, hm, he, rfl⟩ := mem_commandTable.mp hc
    simp only [Member.exposed, Bool.and_eq_true] at he
    exact ⟨m, hm, he.1, he.2, rfl⟩
  · rintro ⟨m, hm, hp, hk, rfl⟩
    exact ⟨toCmd m, mem_commandTable.mpr ⟨m, hm, by simp [Member.exposed, hp, hk], rfl⟩, rfl⟩

/-- no command leads to a member whose name starts with an underscore, or that is neither function nor property -/
theorem C16_nonpublic_not_exposed (ms : List Member) (c : Cmd) (h : c ∈ commandTable ms) :
    c.member ∈ ms ∧ c.member.name.head? ≠ some '_' ∧ c.member.kind ≠ .other := by
  obtain ⟨m, hm, he, rfl⟩ := mem_commandTable.mp h
  simp only [Member.exposed, Bool.and_eq_true, isPublic, bne_iff_ne, ne_eq] at he
  refine ⟨hm, he.1, ?_⟩
  intro hk
  have := he.2
  have hk' : m.kind = .other := hk
  simp [Member.isCommand, hk'] at this

/-- identifiers contain no dash, so distinct members never share a command name -/
theorem C16_dash_injective {a b : Str} (ha : isIdent a = true) (hb : isIdent b = true) (h : dash a = dash b) : a = b :=
  dash_inj ha hb h

/-- the command named after a public member is that member -/
theorem C16_command_resolves (ms : List Member) (hwf : wellFormed ms = true) (m : Member) (hm : m ∈ ms)
    (he : m.exposed = true) : lookupCmd (commandTable ms) (dash m.name) = some { name := dash m.name, member := m } :=
  lookupCmd_exposed hwf hm he

/-- no parameter is ever handed `-h` -/
theorem C16_flags_avoid_help (ps : List Param) (used : List Char) (pf : Param × Option Char)
    (h : pf ∈ assignFlags ps used) : pf.2 ≠ some 'h' := by
  intro hh
  have : 'h' ∈ flagsOf (assignFlags ps used) := List.mem_filterMap.mpr ⟨pf, h, hh⟩
  exact ((assignFlags_spec ps used).1 'h' this).1 rfl

/-- the parser of the handshake can be built for every well-formed class: no two sub-commands share a name, no two
options of a sub-command share an option string (the `-h` / `--help` of every parser included) -/
theorem C16_parser_builds (ms : List Member) (hwf : wellFormed ms = true) : buildOk (commandTable ms) = true :=
  buildOk_of_wf hwf

/-- after a handshake line with any integer width the one reply is the pool's name and the session is ready -/
theorem C16_handshake_reply (ms : List Member) (hwf : wellFormed ms = true) (name : Str) (width : Int) :
    handshake (commandTable ms) name (.valid width) {} = { ready := true, replies := [name] } := by
  simp [handshake, buildOk_of_wf hwf]

/-- a long option string that resolves to the help action, written alone behind the command word, is a help request -/
theorem parseCmd_help_long (m : Member) {n : Str} (hn : n ≠ []) (hres : resolveLong (optTable m.params) n = .one helpOpt) :
    parseCmd (toCmd m) [.long n] = some (.help (some m.name)) := by
  have hamb : [Tok.long n].any (ambiguousTok (optTable m.params)) = false := by
    simp [ambiguousTok, hres, Resolved.isAmbiguous]
  have hsep : sepOk [Tok.long n] = true := rfl
  simp only [parseCmd, toCmd, hamb, hsep]
  rw [scanOpts_long_cons hn, hres]
  simp [helpOpt]

/-- every command and the top level answer `-h` and `--help` with help (whatever follows) -/
theorem C16_help_everywhere (ms : List Member) (hwf : wellFormed ms = true) (m : Member) (hm : m ∈ ms)
    (he : m.exposed = true) (w : Word) (hw : w.text = dash m.name) :
    parseLine (commandTable ms) [.word w, .short 'h'] = some (.help (some m.name))
    ∧ parseLine (commandTable ms) [.word w, .long helpName] = some (.help (some m.name))
    ∧ (∀ rest, rest.any Tok.isOther = false → parseLine (commandTable ms) (.short 'h' :: rest) = some (.help none))
    ∧ (∀ rest, rest.any Tok.isOther = false → parseLine (commandTable ms) (.long helpName :: rest) = some (.help none)) := by
  have hl := lookupCmd_exposed hwf hm he
  refine ⟨?_, ?_, ?_, ?_⟩
  · simp [parseLine, Tok.isOther, hw, hl, parseCmd, toCmd, ambiguousTok, sepOk, scanOpts, findShort, optTable, helpOpt]
  · have hres : resolveLong (optTable m.params) helpName = .one helpOpt := by
      simp [resolveLong, findLong, optTable, helpOpt]
    have hnot : Tok.isOther (.long helpName) = false := rfl
    have hw0 : Tok.isOther (.word w) = false := rfl
    have : parseLine (commandTable ms) [.word w, .long helpName] = parseCmd (toCmd m) [.long helpName] := by
      simp [parseLine, hnot, hw0, hw, hl]
    rw [this]
    exact parseCmd_help_long m (by decide) hres
  · intro rest hr; simp [parseLine, Tok.isOther, hr]
  · intro rest hr; simp [parseLine, Tok.isOther, hr, helpName]

/-- abbreviations of `--help` (argparse's `allow_abbrev`): at the top level `--h`, `--he`, `--hel` are help requests
like `--help` itself (the top-level parser has no other long option); behind a command word every non-empty prefix
of `help` that is a prefix of no other long option of that command is the command's help request -/
theorem C16_help_abbreviated (ms : List Member) (hwf : wellFormed ms = true) (m : Member) (hm : m ∈ ms)
    (he : m.exposed = true) (w : Word) (hw : w.text = dash m.name) (n : Str) (hn : n ≠ []) (hp : n <+: helpName) :
    (∀ rest, rest.any Tok.isOther = false → parseLine (commandTable ms) (.long n :: rest) = some (.help none))
    ∧ ((∀ o ∈ optTable m.params, n <+: o.long → o.long = helpName) →
        parseLine (commandTable ms) [.word w, .long n] = some (.help (some m.name))) := by
  have hnot : Tok.isOther (.long n) = false := by
    cases n with
    | nil => exact absurd rfl hn
    | cons a l => rfl
  constructor
  · intro rest hr
    simp [parseLine, hnot, hr, List.isPrefixOf_iff_prefix.mpr hp]
  · intro hu
    have hl := lookupCmd_exposed hwf hm he
    have hres : resolveLong (optTable m.params) n = .one helpOpt :=
      resolveLong_of_abbrev (optsOk_optTable (wf_params hwf hm he)) (by simp [optTable]) (by simpa [helpOpt] using hp)
        (by simpa [helpOpt] using hu)
    have hw0 : Tok.isOther (.word w) = false := rfl
    have : parseLine (commandTable ms) [.word w, .long n] = parseCmd (toCmd m) [.long n] := by
      simp [parseLine, hnot, hw0, hw, hl]
    rw [this]
    exact parseCmd_help_long m hn hres

/-! non-vacuity: a three-member class (one public method with an `h…` option, one private method, one attribute) -/

def exHow : Param := { name := ['h', 'o', 'w'], kind := .optional, pass := .byPosition, conv := .int }
def exX : Param := { name := ['x'], kind := .positional, pass := .byPosition, conv := .int }
def exMembers : List Member :=
  [ { name := ['L', 'I', 'M'], kind := .other, params := [] },
    { name := ['_', 's'], kind := .function, params := [] },
    { name := ['s', 'a', 'y', '_', 'h', 'i'], kind := .function, params := [exX, exHow] } ]

example : wellFormed exMembers = true := by decide +kernel
example : (commandTable exMembers).map (·.name) = [['s', 'a', 'y', '-', 'h', 'i']] := by decide +kernel
example : assignFlags [exX, exHow] [] = [(exX, none), (exHow, some 'H')] := by decide +kernel
example : buildOk (commandTable exMembers) = true := by decide +kernel
def exSayWord : Word := { text := ['s', 'a', 'y', '-', 'h', 'i'], int? := none, floatOk := false, litOk := false, dotOk := false }
-- `--he` at the top level and behind `say-hi` is help; `--h` behind `say-hi` could be `--help` or `--how`
example : parseLine (commandTable exMembers) [.long ['h', 'e']] = some (.help none) := by decide +kernel
example : parseLine (commandTable exMembers) [.word exSayWord, .long ['h', 'e']]
    = some (.help (some ['s', 'a', 'y', '_', 'h', 'i'])) := by decide +kernel
example : parseLine (commandTable exMembers) [.word exSayWord, .long ['h']] = some (.error .ambiguous) := by decide +kernel

end Taskpool.Control
