import Taskpool.Props.Idle
import Taskpool.Props.C04
import Taskpool.Inv.MapHeldWalk
import Taskpool.Inv.FinWalk
import Taskpool.Inv.ApiWantWalk
import Taskpool.Inv.GatherCount
/-! # Quiescence: nothing is ever left waiting for the pool itself

The properties say "eventually" (C02: every task is *eventually* accounted for; C04: *no invocation is lost*; C05:
*nothing skipped*).  In a model without a notion of fairness, "eventually" means: **whenever the loop has nothing left
to run and user code holds nothing back** (every future the pool's tasks were suspended on has been completed by the
environment, i.e. every asyncio Task of the pool is done), **all the work is done** — no spawner is left suspended on
a semaphore, every request that was never cancelled has started every one of its invocations / consumed its whole
iterable, and the pool's capacity is back.  A lost wake-up, a leaked slot, a spawner forgotten in a queue would each
leave such a state with work undone; the theorems below exclude all of them at once, for every history (without
`pool_size` assignment and without `gather_and_close`, the side conditions of the slot books). -/
namespace Taskpool

open Pool

theorem World.mh_run (base : Nat) (h : History) (i : Nat) (c : Cfg) (p : Pool)
    (hc : ((World.init base).run h).cfgs[i]? = some c) (hp : ((World.init base).run h).pools[i]? = some p) : MHOK p :=
  (World.reachable mhInvariant base h (fun x _ => admits_all x)).inv i c p hc hp

theorem World.fin_run (base : Nat) (h : History) (hg : ∀ x ∈ h, x.admits noGac = true) (i : Nat) (c : Cfg) (p : Pool)
    (hc : ((World.init base).run h).cfgs[i]? = some c) (hp : ((World.init base).run h).pools[i]? = some p) : FinOK p :=
  ((World.reachable finInvariant base h hg).inv i c p hc hp).2

/-- user code holds nothing back: the asyncio Task of every task of the pool is done -/
def Pool.AllTasksDone (p : Pool) : Prop := ∀ (t : Nat) (k : PTask), p.tasks[t]? = some k → k.outcome.isSome = true

theorem heldL_zero (ts : List PTask) (h : ∀ k ∈ ts, k.released = true) : heldL ts = 0 := by
  unfold heldL
  rw [List.countP_eq_zero]
  intro k hk
  simp [h k hk]

theorem heldM_zero (ts : List PTask) (m : Nat) (h : ∀ k ∈ ts, k.mapHeld = false) : heldM ts m = 0 := by
  unfold heldM
  rw [List.countP_eq_zero]
  intro k hk
  simp [h k hk]

/-- the state of a pool at quiescence: every task has released its slot and its map slot -/
theorem quiescent_tasks_core (base : Nat) (h : History) (i : Nat) (c : Cfg) (p : Pool)
    (hc : ((World.init base).run h).cfgs[i]? = some c) (hp : ((World.init base).run h).pools[i]? = some p)
    (hall : p.AllTasksDone) (hl : p.lost = false) :
    ∀ k ∈ p.tasks, k.phase = .finished ∧ k.released = true ∧ k.mapHeld = false := by
  have hlife := lifeAll base h i c p hc hp
  have hmh := World.mh_run base h i c p hc hp
  intro k hk
  obtain ⟨t, ht⟩ := List.getElem?_of_mem hk
  have ho := hall t k ht
  have hf : k.phase = .finished := (hlife t k ht).out (by simpa [PTask.soft] using ho)
  have hr := ((hlife t k ht).fin (by simpa [PTask.soft] using hf) hl).1
  exact ⟨hf, by simpa [PTask.soft] using hr, hmh.fin t k ht hf hl⟩

theorem quiescent_tasks (base : Nat) (h : History) (hg : ∀ x ∈ h, x.admits noGac = true) (i : Nat) (c : Cfg) (p : Pool)
    (hc : ((World.init base).run h).cfgs[i]? = some c) (hp : ((World.init base).run h).pools[i]? = some p)
    (hall : p.AllTasksDone) :
    p.lost = false ∧ ∀ k ∈ p.tasks, k.phase = .finished ∧ k.released = true ∧ k.mapHeld = false :=
  ⟨(strictAll base h hg i c p hc hp).1, quiescent_tasks_core base h i c p hc hp hall (strictAll base h hg i c p hc hp).1⟩

/-- the argument of `C02_capacity_back_at_quiescence`, for any state in which no task was lost -/
theorem capacity_back_core (base : Nat) (h : History) (hn : h.NoSetSize)
    (hidle : ((World.init base).run h).ready = []) (i : Nat) (c : Cfg) (p : Pool) (n : Nat)
    (hc : ((World.init base).run h).cfgs[i]? = some c) (hp : ((World.init base).run h).pools[i]? = some p)
    (hsz : c.size0 = .fin n) (hpos : 0 < n) (hall : p.AllTasksDone) (hl : p.lost = false) :
    p.sem.value = .fin n ∧ p.sem.waiters = [] := by
  have hi := World.idle_pool base h hidle i c p hc hp
  have hq := quiescent_tasks_core base h i c p hc hp hall hl
  have hgood := goodFin base h hn i c p n hc hp hsz
  obtain ⟨v, hv, hs⟩ := hgood.slot
  have h0 : heldL p.tasks = 0 := heldL_zero _ (fun k hk => (hq k hk).2.1)
  have hgr := grantsL_zero_of_pending _ hi.pend
  have hvn : v = n := by omega
  subst hvn
  refine ⟨hv, ?_⟩
  have hnp := hgood.wk (hgood.rz rfl) v hv hpos hgr
  cases hw : p.sem.waiters with
  | nil => rfl
  | cons w ws =>
    have hm : w ∈ p.sem.waiters := by rw [hw]; simp
    exact absurd (hi.pend w hm) (hnp w hm)

/-- **C02: once all work is finished an N-sized pool can again run N tasks at once — and nobody is left waiting.**
After every history without `pool_size` assignment and without `gather_and_close`: whenever the loop is idle and every
asyncio Task of the pool is done, the semaphore of a pool of size `n` is back at `n` with an empty waiter queue. -/
theorem C02_capacity_back_at_quiescence (base : Nat) (h : History) (hn : h.NoSetSize) (hg : ∀ x ∈ h, x.admits noGac = true)
    (hidle : ((World.init base).run h).ready = []) (i : Nat) (c : Cfg) (p : Pool) (n : Nat)
    (hc : ((World.init base).run h).cfgs[i]? = some c) (hp : ((World.init base).run h).pools[i]? = some p)
    (hsz : c.size0 = .fin n) (hpos : 0 < n) (hall : p.AllTasksDone) :
    p.sem.value = .fin n ∧ p.sem.waiters = [] := by
  have hi := World.idle_pool base h hidle i c p hc hp
  obtain ⟨_, hq⟩ := quiescent_tasks base h hg i c p hc hp hall
  have hgood := goodFin base h hn i c p n hc hp hsz
  obtain ⟨v, hv, hs⟩ := hgood.slot
  have h0 : heldL p.tasks = 0 := heldL_zero _ (fun k hk => (hq k hk).2.1)
  have hgr := grantsL_zero_of_pending _ hi.pend
  have hvn : v = n := by omega
  subst hvn
  refine ⟨hv, ?_⟩
  have hnp := hgood.wk (hgood.rz rfl) v hv hpos hgr
  cases hw : p.sem.waiters with
  | nil => rfl
  | cons w ws =>
    have hm : w ∈ p.sem.waiters := by rw [hw]; simp
    exact absurd (hi.pend w hm) (hnp w hm)

/-- **no spawner is left behind (deadlock freedom).** After every history without `pool_size` assignment and without
`gather_and_close`, in every pool of positive size (or unbounded): whenever the loop is idle and every asyncio Task of the
pool is done, **every spawner has finished** — none is suspended waiting for room or for a slot of its own call. -/
theorem C02_no_spawner_left_waiting (base : Nat) (h : History) (hn : h.NoSetSize) (hg : ∀ x ∈ h, x.admits noGac = true)
    (hidle : ((World.init base).run h).ready = []) (i : Nat) (c : Cfg) (p : Pool)
    (hc : ((World.init base).run h).cfgs[i]? = some c) (hp : ((World.init base).run h).pools[i]? = some p)
    (hsz : c.size0 = .inf ∨ ∃ n, c.size0 = .fin n ∧ 0 < n) (hall : p.AllTasksDone)
    (m : Nat) (r : Req) (hr : p.reqs[m]? = some r) : r.outcome.isSome = true := by
  have hi := World.idle_pool base h hidle i c p hc hp
  obtain ⟨_, hq⟩ := quiescent_tasks base h hg i c p hc hp hall
  have hfin := World.fin_run base h hg i c p hc hp
  have hwn : p.sem.waiters = [] := by
    rcases hsz with e | ⟨n, e, hpos⟩
    · exact (C01_unbounded_never_full base h hn i c p hc hp e).2
    · exact (C02_capacity_back_at_quiescence base h hn hg hidle i c p n hc hp e hpos hall).2
  cases ho : r.outcome with
  | some o => rfl
  | none =>
    exfalso
    rcases hi.spawners m r hr ho with ⟨_, hm⟩ | ⟨hfr, hne⟩
    · rw [hwn] at hm; simp [owners] at hm
    · -- suspended on its own semaphore: but all `num_concurrent ≥ 1` slots are free and nothing is on its way
      have hmap := mapAll base h i c p hc hp
      obtain ⟨v, hv, _, hge⟩ := hmap.le m r hr
      have hacc := ((accAll base h i c p hc hp).rq m r hr)
      have hk : r.kind = .map := by
        cases hkk : r.kind with
        | map => rfl
        | apply => exact absurd hfr ((hacc.1 hkk).2.2)
      have h1 := hfin.nc1 m r hr hk
      have hM : heldM p.tasks m = 0 := heldM_zero _ m (fun k hk => (hq k hk).2.2)
      have hG := grantsL_zero_of_pending _ (hi.mpend m r hr)
      have hP : r.pend = 0 := by simp [Req.pend, hfr]
      have hvpos : 0 < v := by have := hge ho; omega
      obtain ⟨w, hw⟩ := List.exists_mem_of_ne_nil _ hne
      exact absurd (hi.mpend m r hr w hw) (hmap.wk m r hr v hv hvpos hG w hw)

/-- what the two theorems below share: at quiescence a request that was never cancelled has an outcome, and it is the
normal one with nothing left — or the request is map-style and its argument iterator raised -/
theorem quiescent_request (base : Nat) (h : History) (hn : h.NoSetSize) (hg : ∀ x ∈ h, x.admits noGac = true)
    (hidle : ((World.init base).run h).ready = []) (i : Nat) (c : Cfg) (p : Pool)
    (hc : ((World.init base).run h).cfgs[i]? = some c) (hp : ((World.init base).run h).pools[i]? = some p)
    (hsz : c.size0 = .inf ∨ ∃ n, c.size0 = .fin n ∧ 0 < n) (hall : p.AllTasksDone)
    (m : Nat) (r : Req) (hr : p.reqs[m]? = some r) (hnc : r.everCancelled = false) :
    (r.outcome = some .ok ∧ r.remaining = 0 ∧ r.items = [] ∧ (r.kind = .map → r.pulled = r.created + r.skipped)) ∨
      (r.kind = .map ∧ r.outcome = some (.exc (.user 4))) := by
  have hfin := World.fin_run base h hg i c p hc hp
  have hsome := C02_no_spawner_left_waiting base h hn hg hidle i c p hc hp hsz hall m r hr
  obtain ⟨o, ho⟩ := Option.isSome_iff_exists.mp hsome
  rcases hfin.ok m r hr hnc o ho with ⟨e, a, b, d⟩ | ⟨a, e⟩
  · exact Or.inl ⟨by rw [ho, e], a, b, d⟩
  · exact Or.inr ⟨a, by rw [ho, e]⟩

/-- **C04: no invocation is lost.** After every history without `pool_size` assignment and without `gather_and_close`, in
every pool of positive size (or unbounded): whenever the loop is idle and user code holds nothing back, an `apply` /
`start` request that was never cancelled has finished normally and **has started (or skipped, where the call raised) every
one of its `num` invocations** — however long it had to wait for room, whatever else was requested, cancelled or locked
in between. -/
theorem C04_all_invocations_at_quiescence (base : Nat) (h : History) (hn : h.NoSetSize) (hg : ∀ x ∈ h, x.admits noGac = true)
    (hidle : ((World.init base).run h).ready = []) (i : Nat) (c : Cfg) (p : Pool)
    (hc : ((World.init base).run h).cfgs[i]? = some c) (hp : ((World.init base).run h).pools[i]? = some p)
    (hsz : c.size0 = .inf ∨ ∃ n, c.size0 = .fin n ∧ 0 < n) (hall : p.AllTasksDone)
    (m : Nat) (r : Req) (hr : p.reqs[m]? = some r) (hnc : r.everCancelled = false) (hk : r.kind = .apply) :
    r.outcome = some .ok ∧ tasksOf p.tasks m + r.skipped = r.n0 := by
  have hacc := accAll base h i c p hc hp
  have htk := hacc.tk m r hr
  rcases quiescent_request base h hn hg hidle i c p hc hp hsz hall m r hr hnc with ⟨e, hrem, _, _⟩ | ⟨hk2, _⟩
  · have h2 : ((r.created + r.skipped + r.remaining : Nat) : Int) = r.n0 + 0 := ((hacc.rq m r hr).1 hk).1
    exact ⟨e, by rw [htk]; omega⟩
  · rw [hk] at hk2; cases hk2

/-- **C05: element-wise with nothing skipped, to the end.** Under the same conditions a map-style request that was never
cancelled has finished normally with **its whole iterable pulled and every element turned into a task of the call or
skipped because its call raised** — `tasks + skipped = length of the iterable`, nothing in hand, nothing dropped —
unless the argument iterator itself raised, which ends the request with that exception. -/
theorem C05_every_element_at_quiescence (base : Nat) (h : History) (hn : h.NoSetSize)
    (hg : ∀ x ∈ h, x.admits noGac = true)
    (hidle : ((World.init base).run h).ready = []) (i : Nat) (c : Cfg) (p : Pool)
    (hc : ((World.init base).run h).cfgs[i]? = some c) (hp : ((World.init base).run h).pools[i]? = some p)
    (hsz : c.size0 = .inf ∨ ∃ n, c.size0 = .fin n ∧ 0 < n) (hall : p.AllTasksDone)
    (m : Nat) (r : Req) (hr : p.reqs[m]? = some r) (hnc : r.everCancelled = false) (hk : r.kind = .map) :
    (r.outcome = some .ok ∧ r.items = [] ∧ r.pulled = r.n0 ∧ tasksOf p.tasks m + r.skipped = r.n0) ∨
    r.outcome = some (.exc (.user 4)) := by
  have hacc := accAll base h i c p hc hp
  have htk := hacc.tk m r hr
  rcases quiescent_request base h hn hg hidle i c p hc hp hsz hall m r hr hnc with ⟨e, _, hit, hpe⟩ | ⟨_, e⟩
  · left
    have a1 := ((hacc.rq m r hr).2 hk).1
    simp only [Req.cnt] at a1
    rw [hit] at a1
    have hpl : r.pulled = r.n0 := by simpa using a1
    have := hpe hk
    exact ⟨e, hit, hpl, by rw [htk]; omega⟩
  · exact Or.inr e

theorem World.api_run (base : Nat) (h : History) (i : Nat) (c : Cfg) (p : Pool)
    (hc : ((World.init base).run h).cfgs[i]? = some c) (hp : ((World.init base).run h).pools[i]? = some p) : ApiWant p :=
  (World.reachable apiInvariant base h (fun x _ => admits_all x)).inv i c p hc hp

/-- **C08 / C13: the calls that wait do return.** After *every* history (resizes, `gather_and_close`, failures,
cancellations included): whenever the loop is idle, every asyncio Task of the pool is done and every spawner has
finished, **every `flush()` and every `gather_and_close()` call has returned** (normally or with an exception), and an
call still suspended in `until_closed()` means that the pool is not closed — nobody is left hanging on a gather whose
children have all completed (the count of a gather is exact, §4.5: every callback slot is counted, queued or registered
on an uncompleted child), and the closing step wakes every waiter of the closing event. -/
theorem C08_calls_return_at_quiescence (base : Nat) (h : History)
    (hidle : ((World.init base).run h).ready = []) (i : Nat) (c : Cfg) (p : Pool)
    (hc : ((World.init base).run h).cfgs[i]? = some c) (hp : ((World.init base).run h).pools[i]? = some p)
    (hall : p.AllTasksDone) (hsp : ∀ (m : Nat) (r : Req), p.reqs[m]? = some r → r.outcome.isSome = true)
    (a : Nat) (A : Api) (hA : p.apis[a]? = some A) :
    A.outcome.isSome = true ∨ (A.frame = .waitClosed ∧ p.closed = false) := by
  have hapi := World.api_run base h i c p hc hp
  have hf : A.sched = false := by
    have := World.idle_no_flag base h hidle i p hp (.api a)
    simpa [Pool.flag, hA] using this
  have nE : ¬ False := fun x => x
  cases ho : A.outcome with
  | some o => exact Or.inl rfl
  | none =>
    right
    have hnd : A.frame ≠ .done := fun e => by
      have := (hapi.dn a A hA nE).2 e
      rw [ho] at this; cases this
    have hgath : ∀ g, (A.frame = .gather1 g ∨ A.frame = .gather2 g) → False := by
      intro g hg
      obtain ⟨G, hG, _, hs⟩ := hapi.gw a A g hA nE hg
      have hch := hapi.ch g G hG
      have hdone : G.outer.isSome = true := by
        refine World.gather_done_when_idle base h hidle i p hp g G hG ?_
        intro ch hmem
        have hex := hch ch hmem
        cases ch with
        | task t =>
          simp only [Pool.childExists] at hex
          obtain ⟨k, hk⟩ : ∃ k, p.tasks[t]? = some k := ⟨p.tasks[t], by simp [hex]⟩
          simpa [Pool.childOutcome, hk] using hall t k hk
        | spawner m =>
          simp only [Pool.childExists] at hex
          obtain ⟨r, hr⟩ : ∃ r, p.reqs[m]? = some r := ⟨p.reqs[m], by simp [hex]⟩
          simpa [Pool.childOutcome, hr] using hsp m r hr
      have := hs hdone
      rw [hf] at this; cases this
    cases hfr : A.frame with
    | notStarted =>
      have := hapi.ns a A hA nE hfr
      rw [hf] at this; cases this
    | done => exact absurd hfr hnd
    | gather1 g => exact (hgath g (Or.inl hfr)).elim
    | gather2 g => exact (hgath g (Or.inr hfr)).elim
    | waitClosed =>
      have hcw : a ∈ p.closedWaiters := by
        rcases hapi.cw a A hA nE hfr with x | x
        · exact x
        · rw [hf] at x; cases x
      have hncl : p.closed = false := by
        cases hcl : p.closed with
        | false => rfl
        | true => rw [hapi.cl hcl] at hcw; cases hcw
      exact ⟨rfl, hncl⟩

/-- **C13: every `flush()` returns.** The same for histories without `pool_size` assignment and `gather_and_close`, with the
premise about the spawners discharged by `C02_no_spawner_left_waiting`: whenever the loop is idle and user code holds
nothing back, every `flush()` call — however many overlap — has returned, and a call suspended in `until_closed()` is
waiting for a pool that is not closed. -/
theorem C13_flush_returns_at_quiescence (base : Nat) (h : History) (hn : h.NoSetSize) (hg : ∀ x ∈ h, x.admits noGac = true)
    (hidle : ((World.init base).run h).ready = []) (i : Nat) (c : Cfg) (p : Pool)
    (hc : ((World.init base).run h).cfgs[i]? = some c) (hp : ((World.init base).run h).pools[i]? = some p)
    (hsz : c.size0 = .inf ∨ ∃ n, c.size0 = .fin n ∧ 0 < n) (hall : p.AllTasksDone)
    (a : Nat) (A : Api) (hA : p.apis[a]? = some A) :
    A.outcome.isSome = true ∨ (A.frame = .waitClosed ∧ p.closed = false) :=
  C08_calls_return_at_quiescence base h hidle i c p hc hp hall
    (fun m r hr => C02_no_spawner_left_waiting base h hn hg hidle i c p hc hp hsz hall m r hr) a A hA

/-! Non-vacuity: `apply num=2` on a pool of size 1, both workers released one after the other, the loop run until nothing
is left: the premises of the quiescence theorems hold (idle, every asyncio Task done, request never cancelled), and so
do their conclusions; and an intermediate idle state (first worker suspended on its gate, spawner waiting for room)
meets the premises of the idle theorems. -/
def exRuns (n : Nat) : History := List.replicate n (WOp.run 0 [])
def exQuiet : History :=
  [WOp.mkpool (some 1) none none, WOp.on 0 [] (.apply 2 none Pool.gatedSpec)] ++ exRuns 3 ++
  [WOp.on 0 [] (.gate 0 .ok)] ++ exRuns 4 ++ [WOp.on 0 [] (.gate 1 .ok)] ++ exRuns 3
def exIdle : History :=
  [WOp.mkpool (some 1) none none, WOp.on 0 [] (.apply 2 none Pool.gatedSpec)] ++ exRuns 3

example : ((World.init 0).run exQuiet).ready = [] := List.eq_nil_of_length_eq_zero (by decide +kernel)
example : (((World.init 0).run exQuiet).pools.map fun p => p.tasks.map fun k => k.outcome.isSome) = [[true, true]] := by
  decide +kernel
example : (((World.init 0).run exQuiet).pools.map fun p => p.reqs.map fun r => (r.outcome, r.created, r.everCancelled)) =
    [[(some .ok, 2, false)]] := by decide +kernel
example : (((World.init 0).run exQuiet).pools.map fun p => (p.sem.value, p.sem.waiters.length)) = [(.fin 1, 0)] := by
  decide +kernel
example : ((World.init 0).run exIdle).ready = [] := List.eq_nil_of_length_eq_zero (by decide +kernel)
example : (((World.init 0).run exIdle).pools.map fun p => p.tasks.map fun k => (k.phase, k.fut, k.outcome.isSome)) =
    [[(.inWorker, .pending, false)]] := by decide +kernel
example : (((World.init 0).run exIdle).pools.map fun p =>
    (p.reqs.map fun r => (r.outcome, r.frame), p.sem.waiters.map fun w => (w.owner, w.st), p.isFull, p.running.length)) =
    [([(none, .waitRoom)], [(0, .pending)], true, 1)] := by decide +kernel

end Taskpool
