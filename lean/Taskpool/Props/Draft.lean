import Taskpool.Inv.Steps
/-! Draft property theorems (decision logic): C06, C09, C14 shapes, stated as in DESIGN §5. -/
namespace Taskpool
open Pool

/-! ### C06 — cancel(ids) is all-or-nothing and classifies correctly -/

/-- if some id is not running, `cancel` returns the error of the FIRST such id and the state is unchanged -/
theorem C06_all_or_nothing (p : Pool) (ids : List Int) (e : Err) (h : p.firstErr ids = some e) :
    p.doCancel ids = (p, .err e) := by
  unfold doCancel; rw [h]

theorem C06_classification (p : Pool) (id : Int) :
    p.lookupRunning id =
      if id < 0 then some .taskNotFound
      else if p.running.contains id.toNat then none
      else if p.cancelledR.contains id.toNat then some .alreadyCancelled
      else if p.ended.contains id.toNat then some .alreadyEnded
      else some .taskNotFound := by
  unfold lookupRunning; split <;> rfl

/-- on success nothing but the named tasks' cancellation state changes: registries, semaphore, spawners untouched -/
theorem C06_success_frame (p : Pool) (ids : List Int) (h : p.firstErr ids = none) :
    (p.doCancel ids).2 = .none ∧ (p.doCancel ids).1.running = p.running ∧ (p.doCancel ids).1.sem = p.sem ∧
    (p.doCancel ids).1.reqs = p.reqs ∧ (p.doCancel ids).1.groups = p.groups := by
  unfold doCancel; rw [h]
  simp only [true_and]
  have key : ∀ (l : List Int) (q : Pool),
      (l.foldl (fun p id => p.taskCancel id.toNat) q).running = q.running ∧
      (l.foldl (fun p id => p.taskCancel id.toNat) q).sem = q.sem ∧
      (l.foldl (fun p id => p.taskCancel id.toNat) q).reqs = q.reqs ∧
      (l.foldl (fun p id => p.taskCancel id.toNat) q).groups = q.groups := by
    intro l
    induction l with
    | nil => intro q; exact ⟨rfl, rfl, rfl, rfl⟩
    | cons a as ih =>
      intro q
      simp only [List.foldl_cons]
      have h1 : (q.taskCancel a.toNat).running = q.running ∧ (q.taskCancel a.toNat).sem = q.sem ∧
          (q.taskCancel a.toNat).reqs = q.reqs ∧ (q.taskCancel a.toNat).groups = q.groups := by
        unfold taskCancel
        repeat' (first | exact ⟨rfl, rfl, rfl, rfl⟩ | split)
      obtain ⟨a1, a2, a3, a4⟩ := ih (q.taskCancel a.toNat)
      exact ⟨a1.trans h1.1, a2.trans h1.2.1, a3.trans h1.2.2.1, a4.trans h1.2.2.2⟩
  exact key ids p

/-! ### C09 — a rejected request leaves no trace -/

/-- every rejection of `apply` returns the pool unchanged (full state equality) -/
theorem C09_apply_reject_no_change (p : Pool) (num : Int) (group : Option String) (sp : SpawnSpec) (e : Err)
    (h : (p.doApply num group sp).2 = .err e) : (p.doApply num group sp).1 = p := by
  unfold doApply at h ⊢
  repeat' (first | rfl | (simp at h; done) | split | dsimp only at h ⊢)
  all_goals simp_all

theorem C09_map_reject_no_change (p : Pool) (stars : Nat) (items : List Item) (nc : Int) (group : Option String)
    (sp : SpawnSpec) (e : Err) (h : (p.doMap stars items nc group sp).2 = .err e) :
    (p.doMap stars items nc group sp).1 = p := by
  unfold doMap at h ⊢
  repeat' (first | rfl | (simp at h; done) | split | dsimp only at h ⊢)
  all_goals simp_all

theorem C09_start_reject_no_change (p : Pool) (num : Int) (e : Err) (h : (p.doStart num).2 = .err e) :
    (p.doStart num).1 = p := by
  unfold doStart at h ⊢
  repeat' (first | rfl | (simp at h; done) | split | dsimp only at h ⊢)
  all_goals simp_all

/-- the documented order of the checks: not-a-coroutine-function, closed, locked -/
theorem C09_check_order (p : Pool) (isCoro : Bool) :
    p.checkStart isCoro =
      if !isCoro then some .notCoroutineFunction else if p.closed then some .poolIsClosed
      else if p.locked then some .poolIsLocked else none := rfl

/-- while locked (and open, with a coroutine function) every spawning call is refused with PoolIsLocked -/
theorem C09_locked_rejects (p : Pool) (num : Int) (group : Option String) (sp : SpawnSpec)
    (hc : sp.isCoro = true) (ho : p.closed = false) (hl : p.locked = true) :
    p.doApply num group sp = (p, .err .poolIsLocked) := by
  unfold doApply checkStart; simp [hc, ho, hl]

theorem C09_negative_size_rejected (p : Pool) (v : Int) (h : v < 0) : p.doSetSize v = (p, .err .valueError) := by
  unfold doSetSize; simp [h]

/-! ### C14 — stop(n) is `cancel` of the last `n` running ids, newest first -/

theorem C14_stop_shape (p : Pool) (n : Int) (hs : p.simple.isSome = true) :
    (p.doStop n).2 = .ids (p.running.reverse.take n.toNat) ∧
    (p.doStop n).1 = (p.doCancel ((p.running.reverse.take n.toNat).map Int.ofNat)).1 := by
  unfold doStop
  have : p.simple.isNone = false := by cases h : p.simple <;> simp_all
  simp [this]

theorem C14_nonpositive (p : Pool) (n : Int) (hs : p.simple.isSome = true) (hn : n ≤ 0) : (p.doStop n).2 = .ids [] := by
  have := (C14_stop_shape p n hs).1
  rw [this]
  have : n.toNat = 0 := by omega
  simp [this]

end Taskpool
