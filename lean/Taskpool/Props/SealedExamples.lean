import Taskpool.Props.Sealed2
/-! Non-vacuity of the theorems of `Props/Sealed2.lean`: one history — two tasks with a *coroutine* end callback in a pool
of size 2, a `flush()` and a `gather_and_close()` issued while the first task sits in that callback — passes through
states that meet the premises of each theorem, and ends closed and empty. -/
namespace Taskpool
open Pool

def coroEndSpec : SpawnSpec := { gatedSpec with endCb := .coro }

def Sealed2_demo : History :=
  [.mkpool (some 2) none none,
   .on 0 [] (.apply 2 none coroEndSpec),
   .run 0 [], .run 0 [], .run 0 [],
   .on 0 [] (.gate 0 .ok), .run 0 [],          -- task 0 returns and enters its end callback
   .on 0 [] (.flush true), .run 0 [],           -- a flush snapshots it …
   .on 0 [] (.gac true), .run 0 [], .run 0 [],  -- … and a gather_and_close reaches its second gather
   .on 0 [] (.gate 1 .ok), .run 0 [], .on 0 [] (.gate 1 .ok), .run 0 [],
   .on 0 [] (.gate 0 .ok), .run 0 [], .run 0 [], .run 0 [], .run 0 [], .run 0 [], .run 0 [], .run 0 []]

example : ∀ x ∈ Sealed2_demo, x.sealOk = true := by decide +kernel

/-- both tasks inside their end callback, filed as ended, while a flush and a gather_and_close wait in their second
gathers (`C13_task_in_end_callback_stays_filed`, `C08_second_gather_awaits_everything`) -/
example : (((World.init 0).run (Sealed2_demo.take 14)).pools.map fun p =>
    (p.tasks.map (·.phase), p.ended, p.running, p.apis.map (·.frame))) =
    [([Phase.inEndCb, Phase.inEndCb], [0, 1], [], [AFrame.gather2 1, AFrame.gather2 3])] := by decide +kernel

/-- the second gather of the gather_and_close has completed normally, its handle has not run yet: every task has finished
(`C08_every_task_finished_when_closing`, `C08_all_finished_when_closing`) -/
example : (((World.init 0).run (Sealed2_demo.take 21)).pools.map fun p =>
    (p.tasks.map (·.phase), p.apis.map (·.frame), (p.gathers.map (·.outer)).drop 3, p.closed)) =
    [([Phase.finished, Phase.finished], [AFrame.gather2 1, AFrame.gather2 3], [some Outcome.ok], false)] := by
  decide +kernel

/-- the end: closed, empty, both calls returned, idle (`C08_closed_pool_holds_no_tasks`, `C08_closed_at_quiescence_sealed`,
`C08_calls_return_at_quiescence_sealed`) -/
example : (((World.init 0).run Sealed2_demo).pools.map fun p => (p.closed, p.lost, p.running, p.cancelledR, p.ended)) =
    [(true, false, [], [], [])] := by decide +kernel

example : (((World.init 0).run Sealed2_demo).pools.map fun p => (p.apis.map (·.outcome), p.sem.value)) =
    [([some Outcome.ok, some Outcome.ok], Cap.fin 2)] := by decide +kernel

example : ((World.init 0).run Sealed2_demo).ready = [] := List.eq_nil_of_length_eq_zero (by decide +kernel)

end Taskpool
