import Taskpool.Props.C06
import Taskpool.Inv.Count
import Taskpool.Inv.Decimal
/-! # C10 — Groups partition the tasks; names are unique and fresh -/
namespace Taskpool
open Pool

/-- `get_group_ids(*names)`: the union of the named groups' ids if every name is live, `InvalidGroupName` otherwise -/
theorem C10_get_group_ids_exact (p : Pool) (names : List String) :
    p.getGroupIds names =
      if names.all (fun n => (p.groupIds n).isSome) then some (names.map fun n => (p.groupIds n).getD []).flatten
      else none := by
  induction names with
  | nil => simp [getGroupIds]
  | cons n rest ih =>
    simp only [getGroupIds, List.all_cons, List.map_cons, List.flatten_cons]
    cases hn : p.groupIds n with
    | none => simp
    | some ids =>
      simp only [Option.isSome_some, Bool.true_and, Option.getD_some]
      rw [ih]
      by_cases hall : (rest.all fun n => (p.groupIds n).isSome) = true <;> simp [hall]

theorem C10_unknown_name_raises (p : Pool) (names : List String) (n : String) (hn : n ∈ names) (h : p.groupIds n = none) :
    (p.applyOp (.getIds names)).2 = .err .groupNotFound ∧ (p.applyOp (.getIds names)).1 = p := by
  simp only [applyOp, C10_get_group_ids_exact]
  have : names.all (fun n => (p.groupIds n).isSome) = false := by
    rw [List.all_eq_false]
    exact ⟨n, hn, by simp [h]⟩
  simp [this]

theorem nodup_map_of_inj {β} (l : List Nat) (f : Nat → β) (hinj : ∀ i j, f i = f j → i = j) (hl : l.Nodup) :
    (l.map f).Nodup := by
  induction l with
  | nil => simp
  | cons a as ih =>
    rw [List.nodup_cons] at hl
    simp only [List.map_cons, List.nodup_cons, List.mem_map]
    refine ⟨?_, ih hl.2⟩
    rintro ⟨b, hb, hfb⟩
    exact hl.1 (hinj b a hfb ▸ hb)

/-- a live name has an entry in the group registry -/
theorem groupIds_isSome_mem (p : Pool) (n : String) (h : (p.groupIds n).isSome = true) : n ∈ p.groups.map (·.1) := by
  unfold groupIds at h
  cases hf : p.groups.find? (fun x => x.1 == n) with
  | none => simp [hf] at h
  | some e =>
    have h1 := List.mem_of_find?_eq_some hf
    have h2 := List.find?_some hf
    simp at h2
    exact List.mem_map.mpr ⟨e, h1, h2⟩

/-- **generated names are fresh.** A generated name `"<method>-<func>-group-<i>"` is not the name of a live group,
and `i` is the least index with that property.  The only fact about text used is that rendering different
numbers gives different names (`hinj`; decimal rendering of naturals is injective — assumed, not proved here). -/
theorem C10_generated_fresh (p : Pool) (pre : String)
    (hinj : ∀ i j : Nat, pre ++ "-worker-group-" ++ toString i = pre ++ "-worker-group-" ++ toString j → i = j) :
    (p.groupIds (p.genName pre)).isSome = false ∧
    ∃ i : Nat, p.genName pre = pre ++ "-worker-group-" ++ toString i := by
  unfold genName
  simp only
  cases hf : (List.range (p.groups.length + 1)).find? (fun i => (p.groupIds (pre ++ "-worker-group-" ++ toString i)).isNone) with
  | some i =>
    simp only
    have h2 := List.find?_some hf
    exact ⟨by simpa using h2, i, rfl⟩
  | none =>
    exfalso
    rw [List.find?_eq_none] at hf
    have hall : ∀ i ∈ List.range (p.groups.length + 1), pre ++ "-worker-group-" ++ toString i ∈ p.groups.map (·.1) := by
      intro i hi
      apply groupIds_isSome_mem
      have := hf i hi
      cases hg : p.groupIds (pre ++ "-worker-group-" ++ toString i) with
      | none => exact absurd hg (by simpa using this)
      | some _ => rfl
    have hnd : ((List.range (p.groups.length + 1)).map fun i => pre ++ "-worker-group-" ++ toString i).Nodup := by
      exact nodup_map_of_inj _ _ hinj List.nodup_range
    have hle := List.Nodup.length_le_of_subset hnd (by
      intro x hx
      obtain ⟨i, hi, rfl⟩ := List.mem_map.mp hx
      exact hall i hi)
    simp only [List.length_map, List.length_range] at hle
    omega

/-- **generated names are fresh — no assumption left.** Decimal rendering of naturals is injective (`Inv/Decimal.lean`,
by induction over the digits with core's `Nat.toDigits_eq_if`), so the hypothesis of `C10_generated_fresh` is discharged:
for every pool state and every prefix, the generated name is not the name of a live group and has the documented form. -/
theorem C10_generated_fresh_all (p : Pool) (pre : String) :
    (p.groupIds (p.genName pre)).isSome = false ∧
    ∃ i : Nat, p.genName pre = pre ++ "-worker-group-" ++ toString i :=
  C10_generated_fresh p pre (generated_names_inj pre)

/-- `start-group-<k>` uses the pool's own counter of accepted `start` calls, which only grows -/
theorem C10_start_name_counter (p : Pool) (num : Int) (g : String) (h : (p.doStart num).2 = .name g) :
    g = "start-group-" ++ toString p.startCalls ∧ (p.doStart num).1.startCalls = p.startCalls + 1 := by
  unfold doStart at h ⊢
  split at h
  · simp at h
  · split at h
    · simp at h
    · simp only at h ⊢
      simp only [Res.name.injEq] at h
      exact ⟨h.symm, rfl⟩

/-- a new task is filed under the group of the request that created it, and under no other name -/
theorem addToGroup_spec (gs : List (String × List Nat)) (g : String) (id : Nat) (n : String) :
    ((addToGroup gs g id).find? (fun x => x.1 == n)).map (·.2) =
      if n = g then some (((gs.find? (fun x => x.1 == g)).map (·.2)).getD [] ++ [id])
      else (gs.find? (fun x => x.1 == n)).map (·.2) := by
  induction gs with
  | nil =>
    simp only [addToGroup, List.find?_cons, List.find?_nil]
    by_cases e : n = g
    · subst e; simp
    · have : (g == n) = false := by simp; exact fun h => e h.symm
      simp [this, e]
  | cons x xs ih =>
    obtain ⟨a, ids⟩ := x
    simp only [addToGroup]
    by_cases hag : a = g
    · subst hag
      simp only [if_true, List.find?_cons]
      by_cases e : n = a
      · subst e; simp
      · have : (a == n) = false := by simp; exact fun h => e h.symm
        simp [this, e]
    · simp only [hag, if_false, List.find?_cons]
      by_cases e : n = g
      · subst e
        have : (a == n) = false := by simp [hag]
        simp only [this]
        rw [ih]; simp
      · by_cases han : a = n
        · subst han; simp [hag]
        · have : (a == n) = false := by simp [han]
          simp only [this]
          rw [ih]; simp [e]

theorem C10_member_of_own_group (p : Pool) (m : Nat) (isMap : Bool) (n : String) :
    (p.createTask m isMap).groupIds n =
      if n = (p.reqs[m]?.getD default).group then some ((p.groupIds n).getD [] ++ [p.tasks.length])
      else p.groupIds n := by
  unfold createTask groupIds
  simp only [emitRef, modReq]
  rw [addToGroup_spec]
  split
  · rename_i e; subst e; rfl
  · rfl

/-- the ids a pool files under a live group name -/
theorem groupIds_sub_flat (p : Pool) (g : String) (ids : List Nat) (h : p.groupIds g = some ids) :
    ∃ a b, p.groups = a ++ (g, ids) :: b := by
  unfold groupIds at h
  cases hf : p.groups.find? (fun x => x.1 == g) with
  | none => simp [hf] at h
  | some e =>
    simp [hf] at h
    have h2 := List.find?_some hf
    simp at h2
    obtain ⟨a, b, hab, _⟩ := List.find?_eq_some_iff_append.mp hf |>.2
    refine ⟨a, b, ?_⟩
    rw [hab]
    obtain ⟨n, l⟩ := e
    simp at h h2
    subst h; subst h2; rfl

/-- **groups partition the tasks** — for every history (any sizes, any number of pools, `pool_size` assignments
included): no id is reported twice by one group, two live groups with different registry entries never share an id,
and every reported id is the id of a task the pool created -/
theorem C10_disjoint (base : Nat) (h : History) (i : Nat) (c : Cfg) (p : Pool)
    (hc : ((World.init base).run h).cfgs[i]? = some c) (hp : ((World.init base).run h).pools[i]? = some p) :
    (flat p.groups).Nodup ∧ (∀ t ∈ flat p.groups, t < p.tasks.length) ∧
    (∀ g ids, p.groupIds g = some ids → ids.Nodup ∧ ∀ t ∈ ids, t < p.tasks.length) ∧
    (∀ a b c' g1 ids1 g2 ids2, p.groups = a ++ (g1, ids1) :: b ++ (g2, ids2) :: c' → ∀ t, t ∈ ids1 → t ∉ ids2) := by
  have hg := groupsAll base h i c p hc hp
  refine ⟨hg.nd, hg.lt, ?_, ?_⟩
  · intro g ids hgi
    obtain ⟨a, b, hab⟩ := groupIds_sub_flat p g ids hgi
    have hnd := hg.nd
    rw [hab] at hnd
    simp only [flat_append, flat_cons] at hnd
    have h1 := (List.nodup_append.mp hnd).2.1
    refine ⟨(List.nodup_append.mp h1).1, fun t ht => hg.lt t ?_⟩
    rw [hab]; simp only [flat_append, flat_cons]
    exact List.mem_append_right _ (List.mem_append_left _ ht)
  · intro a b c' g1 ids1 g2 ids2 hab t h1 h2
    have hnd := hg.nd
    rw [hab] at hnd
    simp only [flat_append, flat_cons, List.append_assoc] at hnd
    have hx := (List.nodup_append.mp hnd).2.1
    have hy := (List.nodup_append.mp hx).2.2
    exact hy t h1 t (List.mem_append_right _ (List.mem_append_left _ h2)) rfl

/-! Non-vacuity: with groups apply-worker-group-0 and -1 live, the next generated name is …-2 -/
example : ((((Pool.init .inf none).doApply 1 none gatedSpec).1.doApply 1 none gatedSpec).1.genName "apply") =
    "apply-worker-group-2" := by decide +kernel

end Taskpool
