import Taskpool.Inv.GoodInv
import Taskpool.Inv.RunSortedWalk
/-! # C14 — SimpleTaskPool.stop is LIFO and exact -/
namespace Taskpool
open Pool

/-- `stop(n)` returns the last `n` entries of the running registry, newest first, and is exactly `cancel` of those -/
theorem C14_stop_shape (p : Pool) (n : Int) (hs : p.simple.isSome = true) :
    (p.doStop n).2 = .ids (p.running.reverse.take n.toNat) ∧
    (p.doStop n).1 = (p.doCancel ((p.running.reverse.take n.toNat).map Int.ofNat)).1 := by
  unfold doStop
  have : p.simple.isNone = false := by cases h : p.simple <;> simp_all
  simp [this]

/-- the number of ids returned is `min(n, num_running)` (0 for `n ≤ 0`) -/
theorem C14_stop_count (p : Pool) (n : Int) (hs : p.simple.isSome = true) :
    ∃ ids, (p.doStop n).2 = .ids ids ∧ ids.length = min n.toNat p.running.length := by
  refine ⟨_, (C14_stop_shape p n hs).1, ?_⟩
  simp [List.length_take]

theorem C14_nonpositive (p : Pool) (n : Int) (hs : p.simple.isSome = true) (hn : n ≤ 0) :
    (p.doStop n).2 = .ids [] ∧ (p.doStop n).1 = p := by
  have h := C14_stop_shape p n hs
  have h0 : n.toNat = 0 := by omega
  rw [h0] at h
  simp only [List.take_zero, List.map_nil] at h
  exact ⟨h.1, by rw [h.2]; simp [doCancel, firstErr]⟩

/-- `stop_all()` names every running task, newest first -/
theorem C14_stop_all (p : Pool) (hs : p.simple.isSome = true) :
    (p.applyOp .stopAll).2 = .ids p.running.reverse := by
  simp only [applyOp]
  rw [(C14_stop_shape p _ hs).1]
  congr 1
  apply List.take_of_length_le
  simp

/-- ids taken from the running registry are all running: the `cancel` inside `stop` never raises -/
theorem firstErr_of_running (p : Pool) (l : List Nat) (h : ∀ t ∈ l, p.running.contains t = true) :
    p.firstErr (l.map Int.ofNat) = none := by
  induction l with
  | nil => rfl
  | cons a as ih =>
    simp only [List.map_cons, firstErr, lookupRunning]
    have ha : p.running.contains a = true := h a (by simp)
    have hneg : ¬ ((a : Int) < 0) := by omega
    have hcast : (Int.ofNat a).toNat = a := rfl
    simp only [Int.ofNat_eq_natCast] at hcast ⊢
    simp only [hneg, if_false, Int.toNat_natCast, ha, if_true]
    exact ih (fun t ht => h t (by simp [ht]))

theorem C14_stop_never_raises (p : Pool) (n : Int) :
    p.firstErr ((p.running.reverse.take n.toNat).map Int.ofNat) = none := by
  apply firstErr_of_running
  intro t ht
  have := List.mem_of_mem_take ht
  simpa using this

/-- tasks not in the returned list are unaffected (their records are unchanged) — via C06's frame theorem -/
theorem C14_others_unaffected (p : Pool) (n : Int) (hs : p.simple.isSome = true) (i : Nat)
    (hi : i ∉ p.running.reverse.take n.toNat) : (p.doStop n).1.tasks[i]? = p.tasks[i]? := by
  rw [(C14_stop_shape p n hs).2]
  have hf := C14_stop_never_raises p n
  unfold doCancel; rw [hf]
  simp only
  have key : ∀ (l : List Nat) (q : Pool), i ∉ l →
      ((l.map Int.ofNat).foldl (fun p id => p.cancelTask id.toNat) q).tasks[i]? = q.tasks[i]? := by
    intro l
    induction l with
    | nil => intro q _; rfl
    | cons a as ih =>
      intro q hq
      simp only [List.map_cons, List.foldl_cons, Int.toNat_natCast]
      rw [ih _ (fun h => hq (by simp [h]))]
      unfold cancelTask
      split
      · rfl
      · have hne : a ≠ i := fun e => hq (by simp [e])
        split
        · simp [modTask, List.getElem?_modify, hne]
        · unfold taskCancel
          repeat' (first | rfl | split)
          all_goals simp [schedTask, emitRef, modTask, List.getElem?_modify, hne]
  exact key _ p hi

/-! Non-vacuity: three started tasks, `stop 2` names ids 2 and 1 in that order. -/
def C14_demo : History :=
  [.mkpool none (some Pool.gatedSpec) none, .on 0 [] (.start 3), .run 0 [], .run 0 [], .run 0 [], .run 0 []]

example : (((World.init 0).run C14_demo).pools.map fun p => (p.doStop 2).2) = [.ids [2, 1]] := by decide +kernel

/-! ## Newest first, for every reachable state (the running registry is ascending: `Inv/RunSortedWalk.lean`) -/

/-- with an ascending registry, what `stop(n)` names is strictly descending, and every running task it does not name has
a smaller id than each task it names -/
theorem C14_stop_newest_of_sorted (p : Pool) (n : Int) (h : p.RunSorted) :
    (p.running.reverse.take n.toNat).Pairwise (· > ·) ∧
    ∀ a ∈ p.running.reverse.take n.toNat, ∀ b ∈ p.running, b ∉ p.running.reverse.take n.toNat → b < a := by
  rw [List.take_reverse]
  have hsplit := List.take_append_drop (p.running.length - n.toNat) p.running
  have hasc := h.asc
  rw [← hsplit, List.pairwise_append] at hasc
  refine ⟨?_, ?_⟩
  · rw [List.pairwise_reverse]; exact hasc.2.1
  · intro a ha b hb hnb
    rw [List.mem_reverse] at ha
    rw [List.mem_reverse] at hnb
    rw [← hsplit, List.mem_append] at hb
    rcases hb with hb | hb
    · exact hasc.2.2 b hb a ha
    · exact absurd hb hnb

/-- **`stop(n)` takes the most recently started running tasks**, in every pool of every reachable world, whatever the
history (ids are handed out in start order, C11): the ids it returns are `min(n, num_running)` many, all running,
strictly descending (newest first), and every running task it leaves alone was started before each task it names;
its effect is `cancel` of exactly those ids, which does not raise -/
theorem C14_stop_takes_the_newest (base : Nat) (h : History) (i : Nat) (c : Cfg) (p : Pool)
    (hc : ((World.init base).run h).cfgs[i]? = some c) (hp : ((World.init base).run h).pools[i]? = some p)
    (hs : p.simple.isSome = true) (n : Int) :
    ∃ ids, (p.doStop n).2 = .ids ids ∧ ids.length = min n.toNat p.running.length ∧
      (∀ a ∈ ids, a ∈ p.running ∧ a < p.tasks.length) ∧ ids.Pairwise (· > ·) ∧
      (∀ a ∈ ids, ∀ b ∈ p.running, b ∉ ids → b < a) ∧
      (p.doStop n).1 = (p.doCancel (ids.map Int.ofNat)).1 ∧ p.firstErr (ids.map Int.ofNat) = none := by
  have hr := World.runSorted_run base h i c p hc hp
  have hn := C14_stop_newest_of_sorted p n hr
  refine ⟨_, (C14_stop_shape p n hs).1, by simp [List.length_take], ?_, hn.1, hn.2, (C14_stop_shape p n hs).2,
    C14_stop_never_raises p n⟩
  intro a ha
  have : a ∈ p.running := by simpa using List.mem_of_mem_take ha
  exact ⟨this, hr.bnd a this⟩

/-- `stop_all()` names every running task, newest first, in every reachable state -/
theorem C14_stop_all_descending (base : Nat) (h : History) (i : Nat) (c : Cfg) (p : Pool)
    (hc : ((World.init base).run h).cfgs[i]? = some c) (hp : ((World.init base).run h).pools[i]? = some p) :
    p.running.reverse.Pairwise (· > ·) := by
  rw [List.pairwise_reverse]; exact (World.runSorted_run base h i c p hc hp).asc

/-- a task that has just been created is the newest: it is filed at the end of the running registry under the id
`len(tasks)` (greater than every id in the registry, `C11_running_ids_ascending`), so a `stop(1)` at that moment names it -/
theorem C14_new_task_is_newest (p : Pool) (m : Nat) (isMap : Bool) :
    (p.createTask m isMap).running = p.running ++ [p.tasks.length] ∧
    (p.createTask m isMap).running.reverse.take 1 = [p.tasks.length] := by
  have h : (p.createTask m isMap).running = p.running ++ [p.tasks.length] := by
    simp [createTask, emitRef, modReq]
  exact ⟨h, by rw [h]; simp⟩

/-- `stop(n)` with `n ≥ num_running` is `stop_all()`: it names every running task, newest first -/
theorem C14_large_n_is_stop_all (p : Pool) (n : Int) (hs : p.simple.isSome = true) (hn : p.running.length ≤ n.toNat) :
    (p.doStop n).2 = .ids p.running.reverse := by
  rw [(C14_stop_shape p n hs).1]
  congr 1
  apply List.take_of_length_le
  simpa using hn

/-! Non-vacuity with a gap: four started tasks, task 2 cancelled individually, `stop 2` names 3 and 1 (not 2), 0 is left. -/
def C14_demo_gap : History :=
  [.mkpool none (some Pool.gatedSpec) none, .on 0 [] (.start 4), .run 0 [], .run 0 [], .run 0 [], .run 0 [], .run 0 [],
   .on 0 [] (.cancel [2]), .run 0 []]

example : (((World.init 0).run C14_demo_gap).pools.map fun p => ((p.doStop 2).2, p.running)) = [(.ids [3, 1], [0, 1, 3])] := by
  decide +kernel


end Taskpool
