import Taskpool.Inv.ControlSession
/-! C18 — a session survives any input and answers each line once (partial).

The session loop is modelled for an arbitrary pool semantics `Sem σ` and an arbitrary runtime `Rt` (the text argparse
writes; its verdict on lines outside the canonical fragment).  What is *assumed* and only sampled by the check:
for every string argparse returns a verdict — it neither raises something the session does not catch, nor prints,
nor exits.  Everything below holds for all histories: any number of sessions on one pool, lines, completions of
awaited commands and the pool's own progress interleaved in any order.

The table-level hypothesis `wellFormed` (see Props/C16.lean) is not needed here: these theorems hold for every table.
Where the real session nevertheless dies — a subclass with an optional parameter starting with `_` (F2) or a parameter
called `command` (F4): `KeyError` out of `listen()` — the table is outside `wellFormed`, i.e. outside the scope in which
the model's `parseLine` stands for the real parser; both are known findings, witnessed on every run. -/
namespace Taskpool.Control

/-- Ledger of one session over any history: replies written + (1 if a command is being awaited) + lines still
unread = 1 (the handshake reply) + the number of non-blank lines sent before the first blank one.  So once nothing
is pending, every such line has been answered exactly once. -/
theorem C18_one_reply_per_nonblank_line {σ} (cfg : Cfg σ) (w0 : World σ) (i : Nat) (name : Str)
    (h0 : w0.sess i = readySess name) (ins : List In) :
    ((run cfg w0 ins).sess i).replies.length + wcount ((run cfg w0 ins).sess i)
        + unread ((run cfg w0 ins).sess i).inbox ((run cfg w0 ins).sess i) = 1 + answerable (sentTo i ins)
    ∧ (((run cfg w0 ins).sess i).waiting = none →
        (((run cfg w0 ins).sess i).ended = true ∨ ((run cfg w0 ins).sess i).inbox = []) →
        ((run cfg w0 ins).sess i).replies.length = 1 + answerable (sentTo i ins)) := by
  have hb : Booked i 1 w0 [] := by
    constructor <;> simp [h0, readySess, ledger, wcount, unread, answerable, blankSeen, hasBlank]
  have h := (booked_run cfg i 1 ins w0 [] hb).count
  simp only [List.nil_append, ledger] at h
  refine ⟨h, ?_⟩
  intro hw hq
  rw [wcount_none hw] at h
  rcases hq with he | hi
  · rw [unread_ended he] at h; omega
  · rw [hi] at h
    have : unread [] ((run cfg w0 ins).sess i) = 0 := by
      simp [unread, answerable]
    omega

/-- an idle session answers a non-blank line at once with exactly one reply, or starts waiting for its method -/
theorem C18_line_answered_once {σ} (cfg : Cfg σ) (w : World σ) (i : Nat) (toks : List Tok)
    (hidle : (w.sess i).waiting = none ∧ (w.sess i).ended = false ∧ (w.sess i).inbox = []) :
    ((step cfg w (.line i (some toks))).sess i).replies.length + wcount ((step cfg w (.line i (some toks))).sess i)
      = (w.sess i).replies.length + 1 := by
  obtain ⟨hw, he, hi⟩ := hidle
  have := (handle_spec cfg w.pool (w.sess i) toks hw).1
  simp only [step, hi, List.nil_append, upd_same, pump, he, hw, Option.isSome_none, Bool.or_self, Bool.false_eq_true, if_false]
  simpa [wcount] using this

/-- … and when the wait is over the reply is written: exactly one, and the session reads on -/
theorem C18_waiting_replies_when_over {σ} (cfg : Cfg σ) (w : World σ) (i : Nat) (a : Action) (o : Outcome)
    (hw : (w.sess i).waiting = some a) (hi : (w.sess i).inbox = []) :
    ((step cfg w (.done i o)).sess i).replies = (w.sess i).replies ++ [(w.sess i).buf ++ replyText a o]
    ∧ ((step cfg w (.done i o)).sess i).waiting = none := by
  simp [step, hw, respond, hi, pump]

/-- the response buffer is empty whenever a session is between two commands, in every reachable state -/
theorem C18_buffer_empty_between_commands {σ} (cfg : Cfg σ) (w0 : World σ) (h0 : ∀ i, (w0.sess i).buf = [])
    (ins : List In) (i : Nat) : ((run cfg w0 ins).sess i).buf = [] :=
  buf_run cfg ins w0 h0 i

/-- hence a reply consists of its own command's output and nothing else -/
theorem C18_reply_is_own_output {σ} (cfg : Cfg σ) (pool : σ) (s : Sess) (toks : List Tok) (hb : s.buf = []) :
    ((∀ a, resolve cfg.rt cfg.table toks ≠ .act a) →
        (handle cfg pool s toks).2.replies = s.replies ++ [cfg.rt.message toks])
    ∧ (∀ a o p', resolve cfg.rt cfg.table toks = .act a → cfg.sem.invoke a pool = (p', .done o) →
        (handle cfg pool s toks).2.replies = s.replies ++ [replyText a o]) := by
  constructor
  · intro h
    simp only [handle]
    split
    · simp [respond, hb]
    · simp [respond, hb]
    · rename_i a ha; exact absurd ha (h a)
  · intro a o p' hr hi
    simp [handle, hr, hi, respond, hb]

/-- an unknown command, bad or missing arguments, a conversion failure or a help request never alters the pool -/
theorem C18_errors_change_nothing {σ} (cfg : Cfg σ) (w : World σ) (i : Nat) (toks : List Tok)
    (hidle : (w.sess i).waiting = none ∧ (w.sess i).ended = false ∧ (w.sess i).inbox = [])
    (hv : ∀ a, resolve cfg.rt cfg.table toks ≠ .act a) :
    (step cfg w (.line i (some toks))).pool = w.pool := by
  obtain ⟨hw, he, hi⟩ := hidle
  simp only [step, hi, List.nil_append, pump, he, hw, Option.isSome_none, Bool.or_self, Bool.false_eq_true, if_false]
  exact handle_pool_of_no_act cfg w.pool (w.sess i) toks hv

/-- inside the canonical fragment this is decided by the model's own parse -/
theorem C18_rejected_lines_change_nothing {σ} (cfg : Cfg σ) (w : World σ) (i : Nat) (toks : List Tok)
    (hidle : (w.sess i).waiting = none ∧ (w.sess i).ended = false ∧ (w.sess i).inbox = [])
    (hv : (∃ k, parseLine cfg.table toks = some (.error k)) ∨ (∃ h, parseLine cfg.table toks = some (.help h))) :
    (step cfg w (.line i (some toks))).pool = w.pool := by
  apply C18_errors_change_nothing cfg w i toks hidle
  intro a ha
  rcases hv with ⟨k, hk⟩ | ⟨h, hh⟩
  · simp [resolve, hk] at ha
  · simp [resolve, hh] at ha

/-- whatever one session receives or completes, every other session (buffer, inbox, replies) is untouched -/
theorem C18_sessions_independent {σ} (cfg : Cfg σ) (w : World σ) (i j : Nat) (hij : j ≠ i) (l : Line) (o : Outcome) :
    (step cfg w (.line i l)).sess j = w.sess j ∧ (step cfg w (.done i o)).sess j = w.sess j :=
  ⟨step_other cfg w _ j hij, step_other cfg w _ j hij⟩

/-! non-vacuity: a long reply followed by a short one (the stale-buffer case), and a waiting command -/

def e18Word (t : Str) : Word := { text := t, int? := none, floatOk := false, litOk := false, dotOk := false }
def e18Table : Table := commandTable [{ name := ['a'], kind := .function, params := [] }, { name := ['b'], kind := .function, params := [] }]
def e18Cfg : Cfg Nat :=
  { table := e18Table,
    rt := { message := fun _ => ['u', 's', 'a', 'g', 'e'], beyond := fun _ => .error .unrecognized },
    sem := { invoke := fun a p => match a with
               | .call ['a'] _ => (p + 1, .done (.value ['l', 'o', 'n', 'g', 'e', 'r']))
               | .call ['b'] _ => (p, .pending)
               | _ => (p, .done .none),
             complete := fun _ p => p + 10, env := fun _ p => p },
    name := ['P'] }
def e18World : World Nat := { pool := 0, sess := fun _ => readySess ['P'] }

example : ((run e18Cfg e18World [.line 0 (some [.word (e18Word ['a'])]), .line 0 (some [.word (e18Word ['x'])]),
      .line 0 (some [.word (e18Word ['b'])]), .line 0 (some [.word (e18Word ['a'])]), .line 1 (some [.short 'h']),
      .done 0 .none]).sess 0).replies
    = [['P'], ['l', 'o', 'n', 'g', 'e', 'r'], ['u', 's', 'a', 'g', 'e'], ['o', 'k'], ['l', 'o', 'n', 'g', 'e', 'r']] := by
  decide +kernel

example : (run e18Cfg e18World [.line 0 (some [.word (e18Word ['a'])]), .line 0 (some [.word (e18Word ['x'])]),
      .line 0 (some [.word (e18Word ['b'])]), .line 0 (some [.word (e18Word ['a'])]), .line 1 (some [.short 'h']),
      .done 0 .none]).pool = 12 := by
  decide +kernel

end Taskpool.Control
