import Taskpool.Props.C06
import Taskpool.Inv.RunSortedWalk
/-! # C11 — Task ids are dense, ordered, never reused, visible in task names

In the model a task's id *is* its index in the pool's task list (the counter `_num_started` of the code is the
length of that list), so density and order are statements about how that list evolves. -/
namespace Taskpool
open Pool

/-- creating a task appends exactly one record: the new id is the number of tasks created before, every earlier
task keeps its id and its record -/
theorem C11_new_id_is_count (p : Pool) (m : Nat) (isMap : Bool) :
    (p.createTask m isMap).tasks.length = p.tasks.length + 1 ∧
    (∀ i, i < p.tasks.length → (p.createTask m isMap).tasks[i]? = p.tasks[i]?) ∧
    (p.createTask m isMap).running = p.running ++ [p.tasks.length] ∧
    (∃ nt : PTask, (p.createTask m isMap).tasks[p.tasks.length]? = some nt ∧ nt.phase = .created ∧ nt.req = m) := by
  unfold createTask
  simp only [emitRef_tasks, modReq_tasks]
  refine ⟨by simp, fun i hi => by simp [List.getElem?_append_left hi], rfl, ?_⟩
  exact ⟨(p.tasks ++ [newTask m isMap (if isMap = true then ArgD.elem (p.reqs[m]?.getD default).stars
      ((p.reqs[m]?.getD default).pulled - 1) else ArgD.apply) (p.reqs[m]?.getD default).endCb
      (p.reqs[m]?.getD default).cancelCb])[p.tasks.length]'(by simp), by simp, by simp [newTask],
    by simp [newTask]⟩

/-- **never reused, never reordered**: every tame step keeps the number of tasks (Inv/Tame.lean), and the only
other step that changes the list appends (above); the list never shrinks — also not by `flush` or
`gather_and_close`, which only edit the registries -/
theorem C11_flush_keeps_ids (p : Pool) (a : Nat) (o : Outcome) :
    (p.flushAfter2 a o).tasks = p.tasks ∧ (p.gacAfter2 a o).tasks.length = p.tasks.length := by
  constructor
  · unfold flushAfter2; split <;> rfl
  · unfold gacAfter2
    split
    · simp only [finishApi, modApi_tasks]
      have : ∀ (ws : List Nat) (q : Pool), (ws.foldl (fun p w => p.schedApi w) q).tasks = q.tasks := by
        intro ws
        induction ws with
        | nil => intro q; rfl
        | cons w ws ih => intro q; simp only [List.foldl_cons]; rw [ih]; rfl
      rw [this]
    · rfl

/-- **pools number their tasks independently**: an operation on pool `i` or a handle of pool `i` leaves every
other pool of the loop exactly as it was -/
theorem C11_pools_independent (w : World) (i j : Nat) (orders : List (List Nat)) (op : Op) (hne : j ≠ i) :
    (w.step (.on i orders op)).1.pools[j]? = w.pools[j]? := by
  simp only [World.step]
  split
  · rfl
  · simp [List.getElem?_set, Ne.symm hne]

theorem C11_handles_independent (w : World) (k : Nat) (orders : List (List Nat)) (i j : Nat) (r : Ref)
    (hk : w.ready[k]? = some (i, r)) (hne : j ≠ i) : (w.step (.run k orders)).1.pools[j]? = w.pools[j]? := by
  simp only [World.step, hk]
  split
  · rfl
  · simp [List.getElem?_set, Ne.symm hne]

/-- **unnamed pools get distinct names**: the class-level index handed to a new pool is the current counter, the
counter only grows, so two pools of one world never share an index -/
theorem C11_fresh_index (w : World) (size : Option Int) (simple : Option SpawnSpec) (name : Option String)
    (h : ∀ c ∈ w.cfgs, c.idx < w.counter) :
    (∀ c ∈ (w.mkpool size simple name).1.cfgs, c.idx < (w.mkpool size simple name).1.counter) ∧
    w.counter ≤ (w.mkpool size simple name).1.counter := by
  unfold World.mkpool
  split
  · exact ⟨h, Nat.le_refl _⟩
  · split
    · exact ⟨fun c hc => Nat.lt_succ_of_lt (h c hc), Nat.le_succ _⟩
    · refine ⟨fun c hc => ?_, Nat.le_succ _⟩
      simp only [List.mem_append, List.mem_singleton] at hc
      rcases hc with hc | rfl
      · exact Nat.lt_succ_of_lt (h c hc)
      · exact Nat.lt_succ_self _

/-- the invariant behind it, for every history: indices of existing pools are below the counter and pairwise distinct -/
theorem C11_indices_distinct (base : Nat) (h : History) :
    let w := (World.init base).run h
    (∀ c ∈ w.cfgs, c.idx < w.counter) ∧ (w.cfgs.map (·.idx)).Nodup := by
  have key : ∀ (h : History) (w : World), ((∀ c ∈ w.cfgs, c.idx < w.counter) ∧ (w.cfgs.map (·.idx)).Nodup) →
      ((∀ c ∈ (w.run h).cfgs, c.idx < (w.run h).counter) ∧ ((w.run h).cfgs.map (·.idx)).Nodup) := by
    intro h
    induction h with
    | nil => intro w hw; exact hw
    | cons x xs ih =>
      intro w hw
      simp only [World.run, List.foldl_cons]
      apply ih
      have hd : ∀ v : World, (v.drain).cfgs = v.cfgs ∧ (v.drain).counter = v.counter := fun v => ⟨rfl, rfl⟩
      simp only [World.next, (hd _).1, (hd _).2]
      cases x with
      | mkpool size simple name =>
        simp only [World.step]
        refine ⟨(C11_fresh_index w size simple name hw.1).1, ?_⟩
        unfold World.mkpool
        split
        · exact hw.2
        · split
          · exact hw.2
          · simp only [List.map_append, List.map_cons, List.map_nil]
            rw [List.nodup_append]
            refine ⟨hw.2, by simp, ?_⟩
            intro a ha b hb
            simp only [List.mem_singleton] at hb
            subst hb
            obtain ⟨c, hc, rfl⟩ := List.mem_map.mp ha
            exact Nat.ne_of_lt (hw.1 c hc)
      | on i orders op =>
        simp only [World.step]
        split <;> exact hw
      | run k orders =>
        simp only [World.step]
        split
        · exact hw
        · split <;> exact hw
  exact key h (World.init base) ⟨fun c hc => by simp [World.init] at hc, by simp [World.init]⟩

/-! Non-vacuity -/
example : (((World.init 5).run [.mkpool none none none, .mkpool (some (-1)) none none, .mkpool none none none]).cfgs.map
    (·.idx)) = [5, 7] := by decide +kernel

/-- **the running registry lists its tasks in start order** — in every pool of every reachable world, whatever the
history, the ids filed as running are strictly ascending (the order in which the tasks were created) and every one of them
is below the number of tasks started so far; together with `C11_new_id_is_count` a new task's id is greater than every id
in the registry -/
theorem C11_running_ids_ascending (base : Nat) (h : History) (i : Nat) (c : Cfg) (p : Pool)
    (hc : ((World.init base).run h).cfgs[i]? = some c) (hp : ((World.init base).run h).pools[i]? = some p) :
    p.running.Pairwise (· < ·) ∧ ∀ t ∈ p.running, t < p.tasks.length :=
  ⟨(World.runSorted_run base h i c p hc hp).asc, (World.runSorted_run base h i c p hc hp).bnd⟩

end Taskpool
