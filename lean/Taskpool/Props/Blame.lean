import Taskpool.Inv.BlameWalk3
import Taskpool.Props.Sealed2
/-! # C08 / C12 — what the calls that wait raise, and when they return normally

After **every** history (`World.blame_run`, `Inv/Blame.lean`): an exception that leaves `flush()` or `gather_and_close()` is
the outcome of one of the pool's own tasks or spawners — never made up by the pool, never another pool's; a
`CancelledError` leaves them only if a *task* of the pool ended cancelled.  Hence **if no task or callback raised the
calls return normally**, and — in pools that nobody unlocks — a `gather_and_close()` then closes the pool. -/
namespace Taskpool
open Pool

/-- **C12**: the exception a `flush()` / `gather_and_close()` call ends with is what a task or a spawner of this pool
ended with -/
theorem C12_call_raises_a_tasks_own_exception (base : Nat) (h : History) (i : Nat) (c : Cfg) (p : Pool)
    (hc : ((World.init base).run h).cfgs[i]? = some c) (hp : ((World.init base).run h).pools[i]? = some p)
    (a : Nat) (A : Api) (e : Err) (hA : p.apis[a]? = some A) (ho : A.outcome = some (.exc e)) :
    (∃ (t : Nat) (k : PTask), p.tasks[t]? = some k ∧ k.outcome = some (.exc e)) ∨
    (∃ (m : Nat) (r : Req), p.reqs[m]? = some r ∧ r.outcome = some (.exc e)) :=
  (World.blame_run base h i c p hc hp).ae a A e hA ho

/-- nothing of the pool has raised: no asyncio Task of a pool task ended with an exception or cancelled (a worker,
callback or call site raised; a callback was cancelled midway) and no spawner ended with an exception (its argument
iterator raised, or it found the pool closed / locked).  Cancelled *spawners* are fine. -/
def Pool.NothingRaised (p : Pool) : Prop :=
  (∀ (t : Nat) (k : PTask), p.tasks[t]? = some k → k.outcome = none ∨ k.outcome = some .ok) ∧
  (∀ (m : Nat) (r : Req) (e : Err), p.reqs[m]? = some r → r.outcome ≠ some (.exc e))

/-- **C08: provided no task or callback raised, it returns normally** — whatever was requested or cancelled before: a
`flush()` / `gather_and_close()` / `until_closed()` call that has returned has returned normally -/
theorem C08_returns_normally_if_nothing_raised (base : Nat) (h : History) (i : Nat) (c : Cfg) (p : Pool)
    (hc : ((World.init base).run h).cfgs[i]? = some c) (hp : ((World.init base).run h).pools[i]? = some p)
    (hn : p.NothingRaised) (a : Nat) (A : Api) (o : Outcome) (hA : p.apis[a]? = some A) (ho : A.outcome = some o) :
    o = .ok := by
  have hb := World.blame_run base h i c p hc hp
  cases o with
  | ok => rfl
  | exc e =>
    exfalso
    rcases hb.ae a A e hA ho with ⟨t, k, hk, hke⟩ | ⟨m, r, hr, hre⟩
    · rcases hn.1 t k hk with x | x <;> rw [x] at hke <;> cases hke
    · exact hn.2 m r e hr hre
  | cancelled =>
    exfalso
    obtain ⟨t, k, hk, hke⟩ := hb.ac a A hA ho
    rcases hn.1 t k hk with x | x <;> rw [x] at hke <;> cases hke

/-- … and in a pool that nobody unlocks, once the loop is idle and user code holds nothing back, **every
`gather_and_close()` call has returned normally and the pool is closed** -/
theorem C08_closes_if_nothing_raised (base : Nat) (h : History) (hh : ∀ x ∈ h, x.sealOk = true)
    (hidle : ((World.init base).run h).ready = []) (i : Nat) (c : Cfg) (p : Pool)
    (hc : ((World.init base).run h).cfgs[i]? = some c) (hp : ((World.init base).run h).pools[i]? = some p)
    (hsz : c.size0 = .inf ∨ ∃ n, c.size0 = .fin n ∧ 0 < n) (hall : p.AllTasksDone) (hn : p.NothingRaised)
    (a : Nat) (A : Api) (hA : p.apis[a]? = some A) (hk : A.kind.isGac = true) :
    A.outcome = some .ok ∧ p.closed = true := by
  have hret : A.outcome.isSome = true := by
    rcases C08_calls_return_at_quiescence_sealed base h hh hidle i c p hc hp hsz hall a A hA with e | ⟨e, _⟩
    · exact e
    · have := (World.closed_run base h i c p hc hp).wk a A hA e
      rw [this] at hk; cases hk
  obtain ⟨o, ho⟩ := Option.isSome_iff_exists.mp hret
  have := C08_returns_normally_if_nothing_raised base h i c p hc hp hn a A o hA ho
  subst this
  exact ⟨ho, (World.closed_run base h i c p hc hp).gc a A hA hk ho⟩

end Taskpool
