import Taskpool.Inv.Count
/-! # C03 — Task lifecycle and callbacks are exact and ordered

Registry part.  (Proved for pools of finite size in histories without an assignment to `pool_size`, because the
registry invariant currently travels together with slot conservation; see DESIGN §5 C03 for what is still open:
the callback-count theorems.) -/
namespace Taskpool
open Pool

/-- **exactly one registry**: in every pool of every reachable world — any size, bounded or not, any history,
assignments to `pool_size` included — no id is filed twice, neither inside one registry nor in two of them -/
theorem C03_one_registry (base : Nat) (h : History) (i : Nat) (c : Cfg) (p : Pool)
    (hc : ((World.init base).run h).cfgs[i]? = some c) (hp : ((World.init base).run h).pools[i]? = some p) :
    (p.running ++ p.cancelledR ++ p.ended).Nodup ∧
    ∀ t, (t ∈ p.running → t ∉ p.cancelledR ∧ t ∉ p.ended) ∧ (t ∈ p.cancelledR → t ∉ p.running ∧ t ∉ p.ended) ∧
         (t ∈ p.ended → t ∉ p.running ∧ t ∉ p.cancelledR) := by
  obtain ⟨_, hr⟩ := baseAll base h i c p hc hp
  exact ⟨hr.nd, fun t => nodup3_mem_disj hr.nd t⟩

/-- every id the pool files is the id of a task it created; a task counted as running or cancelled still holds
its slot, one counted as cancelled is past its worker (it is in, or on its way to, its cancel callback), and one
counted as ended has handed back its slot -/
theorem C03_registries_meaning (base : Nat) (h : History) (i : Nat) (c : Cfg) (p : Pool)
    (hc : ((World.init base).run h).cfgs[i]? = some c) (hp : ((World.init base).run h).pools[i]? = some p) :
    (∀ t ∈ p.running, ∃ tk : PTask, p.tasks[t]? = some tk ∧ tk.released = false) ∧
    (∀ t ∈ p.cancelledR, ∃ tk : PTask, p.tasks[t]? = some tk ∧ tk.released = false ∧
        tk.phase ≠ .created ∧ tk.phase ≠ .inWorker) ∧
    (∀ t ∈ p.ended, ∃ tk : PTask, p.tasks[t]? = some tk ∧ tk.released = true) ∧
    (∀ t, (t ∈ p.running ∨ t ∈ p.cancelledR ∨ t ∈ p.ended) → t < p.tasks.length) := by
  obtain ⟨_, hr⟩ := baseAll base h i c p hc hp
  exact ⟨hr.run, hr.can, hr.fin, fun t ht => hr.lt t ht⟩

/-- as long as nothing was lost (ghost bit, DESIGN §4.3), every task that still holds its slot counts as running or
as cancelled: `num_running + num_cancelled + num_ended = tasks created − tasks forgotten` has no hidden fourth state -/
theorem C03_complete_partial (base : Nat) (h : History) (i : Nat) (c : Cfg) (p : Pool)
    (hc : ((World.init base).run h).cfgs[i]? = some c) (hp : ((World.init base).run h).pools[i]? = some p)
    (hl : p.lost = false) (t : Nat) (tk : PTask) (ht : p.tasks[t]? = some tk)
    (hrel : tk.released = false) : t ∈ p.running ∨ t ∈ p.cancelledR :=
  (baseAll base h i c p hc hp).2.cpl hl t tk ht hrel

/-- a task in its worker, or not yet begun, or in its cancel callback has not handed back its slot (all pools, all
histories) -/
theorem C03_phase_vs_slot (base : Nat) (h : History) (i : Nat) (c : Cfg) (p : Pool)
    (hc : ((World.init base).run h).cfgs[i]? = some c) (hp : ((World.init base).run h).pools[i]? = some p)
    (t : Nat) (tk : PTask) (ht : p.tasks[t]? = some tk)
    (hph : tk.phase = .created ∨ tk.phase = .inWorker ∨ tk.phase = .inCancelCb) : tk.released = false := by
  apply (baseAll base h i c p hc hp).1 t tk ht
  rcases hph with h | h | h <;> simp [NYR, h]

end Taskpool
