import Taskpool.Inv.Count
/-! # C03 — Task lifecycle and callbacks are exact and ordered

Registry part.  (Proved for pools of finite size in histories without an assignment to `pool_size`, because the
registry invariant currently travels together with slot conservation; see DESIGN §5 C03 for what is still open:
the callback-count theorems.) -/
namespace Taskpool
open Pool

/-- **exactly one registry**: no id is filed twice, neither inside one registry nor in two of them -/
theorem C03_one_registry_partial (base : Nat) (h : History) (hn : ∀ x ∈ h, x.admits noSetSize = true)
    (i : Nat) (c : Cfg) (p : Pool) (n : Nat)
    (hc : ((World.init base).run h).cfgs[i]? = some c) (hp : ((World.init base).run h).pools[i]? = some p)
    (hsz : c.size0 = .fin n) :
    (p.running ++ p.cancelledR ++ p.ended).Nodup ∧
    ∀ t, (t ∈ p.running → t ∉ p.cancelledR ∧ t ∉ p.ended) ∧ (t ∈ p.cancelledR → t ∉ p.running ∧ t ∉ p.ended) ∧
         (t ∈ p.ended → t ∉ p.running ∧ t ∉ p.cancelledR) := by
  have hg := (World.reachable goodC_invariant base h hn).inv i c p hc hp n hsz
  exact ⟨hg.reg.nd, fun t => nodup3_mem_disj hg.reg.nd t⟩

/-- every id the pool files is the id of a task it created; a task counted as cancelled is past its worker (it is
in, or on its way to, its cancel callback), and a task counted as ended has handed back its slot -/
theorem C03_registries_meaning_partial (base : Nat) (h : History) (hn : ∀ x ∈ h, x.admits noSetSize = true)
    (i : Nat) (c : Cfg) (p : Pool) (n : Nat)
    (hc : ((World.init base).run h).cfgs[i]? = some c) (hp : ((World.init base).run h).pools[i]? = some p)
    (hsz : c.size0 = .fin n) :
    (∀ t ∈ p.cancelledR, ∃ tk : PTask, p.tasks[t]? = some tk ∧ tk.phase ≠ .created ∧ tk.phase ≠ .inWorker) ∧
    (∀ t ∈ p.ended, ∃ tk : PTask, p.tasks[t]? = some tk ∧ tk.released = true) ∧
    (∀ t, (t ∈ p.running ∨ t ∈ p.cancelledR ∨ t ∈ p.ended) → t < p.tasks.length) := by
  have hg := (World.reachable goodC_invariant base h hn).inv i c p hc hp n hsz
  exact ⟨fun t ht => by obtain ⟨tk, a, _, c, d⟩ := hg.reg.can t ht; exact ⟨tk, a, c, d⟩, hg.reg.fin,
         fun t ht => hg.reg.lt t ht⟩

/-- as long as nothing was lost, every task that still holds its slot counts as running or as cancelled -/
theorem C03_complete_partial (base : Nat) (h : History) (hn : ∀ x ∈ h, x.admits noSetSize = true)
    (i : Nat) (c : Cfg) (p : Pool) (n : Nat)
    (hc : ((World.init base).run h).cfgs[i]? = some c) (hp : ((World.init base).run h).pools[i]? = some p)
    (hsz : c.size0 = .fin n) (hl : p.lost = false) (t : Nat) (tk : PTask) (ht : p.tasks[t]? = some tk)
    (hrel : tk.released = false) : t ∈ p.running ∨ t ∈ p.cancelledR :=
  ((World.reachable goodC_invariant base h hn).inv i c p hc hp n hsz).reg.cpl hl t tk ht hrel

end Taskpool
