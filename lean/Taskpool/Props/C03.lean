import Taskpool.Inv.Count
/-! # C03 — Task lifecycle and callbacks are exact and ordered

Registry part.  (Proved for pools of finite size in histories without an assignment to `pool_size`, because the
registry invariant currently travels together with slot conservation; see DESIGN §5 C03 for what is still open:
the callback-count theorems.) -/
namespace Taskpool
open Pool

/-- **exactly one registry**: in every pool of every reachable world — any size, bounded or not, any history,
assignments to `pool_size` included — no id is filed twice, neither inside one registry nor in two of them -/
theorem C03_one_registry (base : Nat) (h : History) (i : Nat) (c : Cfg) (p : Pool)
    (hc : ((World.init base).run h).cfgs[i]? = some c) (hp : ((World.init base).run h).pools[i]? = some p) :
    (p.running ++ p.cancelledR ++ p.ended).Nodup ∧
    ∀ t, (t ∈ p.running → t ∉ p.cancelledR ∧ t ∉ p.ended) ∧ (t ∈ p.cancelledR → t ∉ p.running ∧ t ∉ p.ended) ∧
         (t ∈ p.ended → t ∉ p.running ∧ t ∉ p.cancelledR) := by
  obtain ⟨_, hr⟩ := baseAll base h i c p hc hp
  exact ⟨hr.nd, fun t => nodup3_mem_disj hr.nd t⟩

/-- every id the pool files is the id of a task it created; a task counted as running or cancelled still holds
its slot, one counted as cancelled is past its worker (it is in, or on its way to, its cancel callback), and one
counted as ended has handed back its slot -/
theorem C03_registries_meaning (base : Nat) (h : History) (i : Nat) (c : Cfg) (p : Pool)
    (hc : ((World.init base).run h).cfgs[i]? = some c) (hp : ((World.init base).run h).pools[i]? = some p) :
    (∀ t ∈ p.running, ∃ tk : PTask, p.tasks[t]? = some tk ∧ tk.released = false) ∧
    (∀ t ∈ p.cancelledR, ∃ tk : PTask, p.tasks[t]? = some tk ∧ tk.released = false ∧
        tk.phase ≠ .created ∧ tk.phase ≠ .inWorker) ∧
    (∀ t ∈ p.ended, ∃ tk : PTask, p.tasks[t]? = some tk ∧ tk.released = true) ∧
    (∀ t, (t ∈ p.running ∨ t ∈ p.cancelledR ∨ t ∈ p.ended) → t < p.tasks.length) := by
  obtain ⟨_, hr⟩ := baseAll base h i c p hc hp
  exact ⟨hr.run, hr.can, hr.fin, fun t ht => hr.lt t ht⟩

/-- as long as nothing was lost (ghost bit, DESIGN §4.3), every task that still holds its slot counts as running or
as cancelled: `num_running + num_cancelled + num_ended = tasks created − tasks forgotten` has no hidden fourth state -/
theorem C03_complete_partial (base : Nat) (h : History) (i : Nat) (c : Cfg) (p : Pool)
    (hc : ((World.init base).run h).cfgs[i]? = some c) (hp : ((World.init base).run h).pools[i]? = some p)
    (hl : p.lost = false) (t : Nat) (tk : PTask) (ht : p.tasks[t]? = some tk)
    (hrel : tk.released = false) : t ∈ p.running ∨ t ∈ p.cancelledR :=
  (baseAll base h i c p hc hp).2.cpl hl t tk ht hrel

/-- a task in its worker, or not yet begun, or in its cancel callback has not handed back its slot (all pools, all
histories) -/
theorem C03_phase_vs_slot (base : Nat) (h : History) (i : Nat) (c : Cfg) (p : Pool)
    (hc : ((World.init base).run h).cfgs[i]? = some c) (hp : ((World.init base).run h).pools[i]? = some p)
    (t : Nat) (tk : PTask) (ht : p.tasks[t]? = some tk)
    (hph : tk.phase = .created ∨ tk.phase = .inWorker ∨ tk.phase = .inCancelCb) : tk.released = false := by
  apply (baseAll base h i c p hc hp).1 t tk ht
  rcases hph with h | h | h <;> simp [NYR, h]

/-! ### callbacks: exactly once, in order, at the right moment

`nEC` / `nCC` are ghost counters of a task: how often the wrapper entered the end / the cancel callback (they are
incremented by the very step that writes the `endCb` / `cancelCb` entry into the event log, `Pool.cbBegin`).
`wasCancelled` records that the coroutine ended by cancellation and the cancellation was registered
(`except CancelledError` ran `_task_cancellation`).  All statements hold in every pool after **every** history. -/

/-- **at most once** — neither callback is ever entered twice for one task -/
theorem C03_callbacks_at_most_once (base : Nat) (h : History) (i : Nat) (c : Cfg) (p : Pool)
    (hc : ((World.init base).run h).cfgs[i]? = some c) (hp : ((World.init base).run h).pools[i]? = some p)
    (t : Nat) (tk : PTask) (ht : p.tasks[t]? = some tk) : tk.nEC ≤ 1 ∧ tk.nCC ≤ 1 :=
  ⟨(lifeAll base h i c p hc hp t tk ht).e1, (lifeAll base h i c p hc hp t tk ht).c1⟩

/-- **the end callback runs when the task already counts as ended**: it is entered only after the slot was handed
back (which the same step does right after filing the id as ended), never for a task that still counts as running or
cancelled -/
theorem C03_end_cb_after_ending (base : Nat) (h : History) (i : Nat) (c : Cfg) (p : Pool)
    (hc : ((World.init base).run h).cfgs[i]? = some c) (hp : ((World.init base).run h).pools[i]? = some p)
    (t : Nat) (tk : PTask) (ht : p.tasks[t]? = some tk) (hn : tk.nEC = 1) :
    tk.released = true ∧ t ∉ p.running ∧ t ∉ p.cancelledR := by
  have hl := lifeAll base h i c p hc hp t tk ht
  have hrel : tk.released = true := by
    cases hr : tk.released with
    | true => rfl
    | false => have := hl.e0 hr; have : tk.nEC = 0 := this; omega
  obtain ⟨_, hreg⟩ := baseAll base h i c p hc hp
  refine ⟨hrel, fun hm => ?_, fun hm => ?_⟩
  · obtain ⟨tk', a, b⟩ := hreg.run t hm; rw [ht] at a; cases a; rw [hrel] at b; cases b
  · obtain ⟨tk', a, b, _⟩ := hreg.can t hm; rw [ht] at a; cases a; rw [hrel] at b; cases b

/-- **the cancel callback runs if and only if the coroutine ended by cancellation** (only-if part, and never for a
task that is still in or before its worker); **and before the end callback**: once the end callback has been entered
for a cancelled task with a cancel callback, the cancel callback has been entered already -/
theorem C03_cancel_cb_only_if_cancelled_and_first (base : Nat) (h : History) (i : Nat) (c : Cfg) (p : Pool)
    (hc : ((World.init base).run h).cfgs[i]? = some c) (hp : ((World.init base).run h).pools[i]? = some p)
    (t : Nat) (tk : PTask) (ht : p.tasks[t]? = some tk) :
    (tk.nCC = 1 → tk.wasCancelled = true) ∧
    ((tk.phase = .created ∨ tk.phase = .inWorker) → tk.nCC = 0 ∧ tk.nEC = 0) ∧
    (tk.nEC = 1 → tk.wasCancelled = true → tk.cancelCb ≠ .none → tk.nCC = 1) ∧
    (tk.cancelCb = .none → tk.nCC = 0) ∧ (tk.endCb = .none → tk.nEC = 0) := by
  have hl := lifeAll base h i c p hc hp t tk ht
  obtain ⟨hph, _⟩ := baseAll base h i c p hc hp
  refine ⟨hl.cw, fun hx => ⟨(hl.c0 hx).1, hl.e0 (hph t tk ht (by rcases hx with e | e <;> simp [NYR, e]))⟩, hl.ord, hl.cn, hl.en⟩

/-- **exactly once.** When a task has finished — and nothing was `lost` (no `KeyError` in a wrapper, DESIGN §4.3) —
its end callback was entered exactly once if it has one (and not at all otherwise); its cancel callback was entered
exactly once if it has one and the coroutine ended by cancellation, and not at all otherwise -/
theorem C03_exactly_once (base : Nat) (h : History) (i : Nat) (c : Cfg) (p : Pool)
    (hc : ((World.init base).run h).cfgs[i]? = some c) (hp : ((World.init base).run h).pools[i]? = some p)
    (hlost : p.lost = false) (t : Nat) (tk : PTask) (ht : p.tasks[t]? = some tk) (hf : tk.phase = .finished) :
    tk.nEC = (if tk.endCb = .none then 0 else 1) ∧
    (tk.wasCancelled = true → tk.nCC = (if tk.cancelCb = .none then 0 else 1)) ∧
    (tk.wasCancelled = false → tk.nCC = 0) := by
  have hl := lifeAll base h i c p hc hp t tk ht
  rw [hlost] at hl
  obtain ⟨_, a, b, c'⟩ := hl.fin hf rfl
  exact ⟨a, b, c'⟩

/-- **nothing is ever lost** in a history without `gather_and_close` (any number of concurrent `flush` calls included), whatever the mix of
normal returns, exceptions, cancellations (of tasks, groups, everything), sync and coroutine callbacks, gates and
resizes: no wrapper ever misses its registry entry -/
theorem C03_never_lost (base : Nat) (h : History) (hn : ∀ x ∈ h, x.admits noGac = true) (i : Nat) (c : Cfg) (p : Pool)
    (hc : ((World.init base).run h).cfgs[i]? = some c) (hp : ((World.init base).run h).pools[i]? = some p) :
    p.lost = false := (strictAll base h hn i c p hc hp).1

/-- hence, unconditionally for those histories: **exactly once** -/
theorem C03_exactly_once_all (base : Nat) (h : History) (hn : ∀ x ∈ h, x.admits noGac = true) (i : Nat) (c : Cfg)
    (p : Pool) (hc : ((World.init base).run h).cfgs[i]? = some c) (hp : ((World.init base).run h).pools[i]? = some p)
    (t : Nat) (tk : PTask) (ht : p.tasks[t]? = some tk) (hf : tk.phase = .finished) :
    tk.nEC = (if tk.endCb = .none then 0 else 1) ∧
    (tk.wasCancelled = true → tk.nCC = (if tk.cancelCb = .none then 0 else 1)) ∧
    (tk.wasCancelled = false → tk.nCC = 0) :=
  C03_exactly_once base h i c p hc hp (C03_never_lost base h hn i c p hc hp) t tk ht hf

/-- … and **the three registries are complete**: a task that has not handed back its slot counts as running or as
cancelled -/
theorem C03_complete (base : Nat) (h : History) (hn : ∀ x ∈ h, x.admits noGac = true) (i : Nat) (c : Cfg) (p : Pool)
    (hc : ((World.init base).run h).cfgs[i]? = some c) (hp : ((World.init base).run h).pools[i]? = some p)
    (t : Nat) (tk : PTask) (ht : p.tasks[t]? = some tk) (hrel : tk.released = false) :
    t ∈ p.running ∨ t ∈ p.cancelledR :=
  C03_complete_partial base h i c p hc hp (C03_never_lost base h hn i c p hc hp) t tk ht hrel

/-- **callbacks are run to completion**: a task suspended inside a coroutine callback has entered that callback
exactly once and is still counted accordingly — cancelled (slot held) in the cancel callback, ended (slot handed
back) in the end callback -/
theorem C03_suspended_in_callback (base : Nat) (h : History) (i : Nat) (c : Cfg) (p : Pool)
    (hc : ((World.init base).run h).cfgs[i]? = some c) (hp : ((World.init base).run h).pools[i]? = some p)
    (t : Nat) (tk : PTask) (ht : p.tasks[t]? = some tk) :
    (tk.phase = .inCancelCb → tk.nCC = 1 ∧ tk.cancelCb = .coro ∧ tk.released = false) ∧
    (tk.phase = .inEndCb → tk.nEC = 1 ∧ tk.endCb = .coro ∧ tk.released = true) := by
  have hl := lifeAll base h i c p hc hp t tk ht
  obtain ⟨hph, _⟩ := baseAll base h i c p hc hp
  exact ⟨fun hx => ⟨(hl.cc hx).1, (hl.cc hx).2, hph t tk ht (by simp [NYR, hx])⟩, hl.ec⟩

/-! Non-vacuity: a cancelled task with a plain cancel callback and a plain end callback: both entered once, in order. -/
def C03_spec : SpawnSpec :=
  { ws := { mode := .gated, swallow := false }, endCb := .plain, cancelCb := .plain, badCall := false, isCoro := true, hooks := {} }

def C03_demo : History :=
  [.mkpool (some 1) none none, .on 0 [] (.apply 1 none C03_spec), .run 0 [], .run 0 [],
   .on 0 [] (.cancel [0]), .run 0 []]

example : (((World.init 0).run C03_demo).pools.map fun p => p.tasks.map fun k => (k.phase, k.nCC, k.nEC, k.wasCancelled)) =
    [[(Phase.finished, 1, 1, true)]] := by decide +kernel

end Taskpool
