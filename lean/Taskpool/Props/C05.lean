import Taskpool.Props.C04
import Taskpool.Inv.GoodInv
/-! # C05 — map family: element-wise, ordered, bounded, lazy, work-conserving

The consumer loop of `map`/`starmap`/`doublestarmap` (`_arg_consumer`): order, laziness and accounting for every
iterable length, every `num_concurrent`, every pool state.  Proved for requests whose argument iterator makes no
pool calls of its own (`hooks.pull = []`); user code inside the iterator is covered by the correspondence check. -/
namespace Taskpool
open Pool

def wmsUpd (w : Waiter) (x : Req) : Req :=
  { x with frame := .waitMapSem, mustCancel := false, acquired := false, mapSem := { x.mapSem with waiters := x.mapSem.waiters ++ [w] } }

theorem waitMapSem_req (p : Pool) (m : Nat) (r : Req) (h : p.reqs[m]? = some r) :
    ∃ r', (p.waitMapSem m).reqs[m]? = some r' ∧ r'.ctr = r.ctr ∧ r'.frame = .waitMapSem ∧ r'.outcome = r.outcome ∧
      r'.hooks = r.hooks ∧ (p.waitMapSem m).tasks = p.tasks := by
  unfold waitMapSem
  simp only
  generalize ({ owner := m, st := if (p.reqs[m]?.getD default).mustCancel = true then WaitSt.cancelled else WaitSt.pending } : Waiter) = w
  have key : (p.modReq m (wmsUpd w)).reqs[m]? = some (wmsUpd w r) := by
    simp only [modReq]; exact getElem?_modify_eq _ _ _ _ h
  split
  · refine ⟨{ wmsUpd w r with sched := true }, ?_, rfl, rfl, rfl, rfl, rfl⟩
    show ((p.modReq m (wmsUpd w)).schedMeta m).reqs[m]? = _
    simp only [schedMeta, emitRef]
    simp only [modReq] at key ⊢
    exact getElem?_modify_eq _ _ _ _ key
  · exact ⟨wmsUpd w r, key, rfl, rfl, rfl, rfl, rfl⟩

def tmsUpd (x : Req) : Req := { x with acquired := true, frame := .running, mapSem := { x.mapSem with value := x.mapSem.value.dec } }

theorem waitRoom_hooks (p : Pool) (m : Nat) (r : Req) (h : p.reqs[m]? = some r) :
    ∃ r', (p.waitRoom m).reqs[m]? = some r' ∧ r'.hooks = r.hooks := by
  unfold waitRoom
  simp only
  split
  · refine ⟨{ r with frame := .waitRoom, mustCancel := false, sched := true }, ?_, rfl⟩
    simp only [schedMeta, emitRef, modReq]
    rw [getElem?_modify_eq _ _ _ _ (getElem?_modify_eq _ _ _ _ h)]
  · refine ⟨{ r with frame := .waitRoom, mustCancel := false }, ?_, rfl⟩
    simp only [modReq]
    rw [getElem?_modify_eq _ _ _ _ h]

/-- one pull: the head of the remaining elements is taken — nothing else, and only when the loop asks for it -/
theorem pullItem_req (p : Pool) (m : Nat) (rest : List Item) (r : Req) (h : p.reqs[m]? = some r) (hh : r.hooks.pull = []) :
    (p.pullItem m rest).reqs[m]? = some { r with items := rest, pulled := r.pulled + 1, acquired := false, frame := .running } ∧
    (p.pullItem m rest).tasks = p.tasks ∧ (p.pullItem m rest).log = p.log ++ [.pull m r.pulled] := by
  unfold pullItem
  simp only [h, Option.getD_some, hh, runHooks, List.foldl_nil]
  refine ⟨?_, rfl, rfl⟩
  simp only [logEv, modReq]
  exact getElem?_modify_eq _ _ _ _ h

/-- how the consumer loop can come to rest -/
inductive MapEnd (r' : Req) (hand : Nat) : Prop
  | done (h1 : r'.items = []) (h2 : r'.frame = .done) (h3 : hand = 0)
  | waitingOwnSlot (h : r'.frame = .waitMapSem) (h2 : r'.outcome = none) (h3 : hand = 1)
  | waitingRoom (h : r'.frame = .waitRoom) (h2 : r'.outcome = none) (h3 : hand = 1)
  | failed (e : Err) (h : r'.outcome = some (.exc e)) (h3 : hand = 1)

/-- **element-wise, in order, lazy.** Running the loop over the remaining elements `items`: the elements are pulled
from the front, one at a time; every pulled element was turned into a task, skipped (its call raised), or is the
single element in hand while the loop waits (for its own concurrency slot or for pool room) — never more than one
beyond (an iterator that raises instead of yielding counts as the element in hand: the consumer ends with that
exception); and nothing is pulled twice or skipped over: `pulled` grows by exactly what disappeared from `items`. -/
theorem C05_loop_accounting_partial (m : Nat) (items : List Item) (p : Pool) (r : Req) (h : p.reqs[m]? = some r)
    (ho : r.outcome = none) (hh : r.hooks.pull = []) :
    ∃ (r' : Req) (hand : Nat), (mapLoop m items p).reqs[m]? = some r' ∧
      r'.pulled + r'.items.length = r.pulled + items.length ∧
      (∃ k, r'.items = items.drop k ∧ r'.pulled = r.pulled + k ∧ k ≤ items.length) ∧
      r'.created + r'.skipped + hand = r.created + r.skipped + (r'.pulled - r.pulled) ∧
      MapEnd r' hand ∧ r'.hooks.pull = [] := by
  induction items generalizing p r with
  | nil =>
    unfold mapLoop
    have h1 : (p.modReq m fun x => { x with items := [] }).reqs[m]? = some { r with items := [] } := by
      simp only [modReq]; exact getElem?_modify_eq _ _ _ _ h
    obtain ⟨a, _⟩ := finishMeta_req _ m .ok _ h1
    exact ⟨_, 0, a, by simp [Req.finished], ⟨0, by simp [Req.finished], by simp [Req.finished], by simp⟩,
      by simp [Req.finished], MapEnd.done rfl rfl rfl, hh⟩
  | cons it rest ih =>
    unfold mapLoop
    simp only
    obtain ⟨hp, _, _⟩ := pullItem_req p m rest r h hh
    split
    · -- the argument iterator raises instead of yielding: the consumer ends with that exception
      obtain ⟨a, _⟩ := finishMeta_req _ m (.exc (.user 4)) _ hp
      exact ⟨_, 1, a, by simp [Req.finished]; omega, ⟨1, by simp [Req.finished], by simp [Req.finished], by simp⟩,
        by simp [Req.finished], MapEnd.failed (.user 4) (by simp [Req.finished]) rfl,
        by simp [Req.finished]; exact hh⟩
    split
    · -- the element's call raises: skipped, next element
      have h2 : ((p.pullItem m rest).modReq m fun x => { x with skipped := x.skipped + 1 }).reqs[m]? =
          some { r with items := rest, pulled := r.pulled + 1, acquired := false, frame := .running, skipped := r.skipped + 1 } := by
        simp only [modReq]; exact getElem?_modify_eq _ _ _ _ hp
      obtain ⟨r', hand, a, b, ⟨k, c1, c2, c3⟩, d, e, f⟩ := ih _ _ h2 ho hh
      refine ⟨r', hand, a, by simp only at b; simp only [List.length_cons]; omega,
        ⟨k + 1, by simpa using c1, by simp only at c2; omega, by simp only [List.length_cons]; omega⟩, ?_, e, f⟩
      simp only at d c2; omega
    · split
      · -- own concurrency limit reached: wait with this element in hand
        obtain ⟨r', a, b, c, d, e, _⟩ := waitMapSem_req _ m _ hp
        simp only [Req.ctr, Prod.mk.injEq] at b
        refine ⟨r', 1, a, by simp only [List.length_cons]; rw [b.1, b.2.2.2.1]; omega,
          ⟨1, by rw [b.2.2.2.1]; simp, by rw [b.1], by simp⟩, by rw [b.1, b.2.1, b.2.2.1]; omega,
          MapEnd.waitingOwnSlot c (by rw [d]; exact ho) rfl, by rw [e]; exact hh⟩
      · -- a concurrency slot is free: take it, then `_start_task`
        have h3 : ((p.pullItem m rest).takeMapSlot m).reqs[m]? = some (tmsUpd { r with items := rest, pulled := r.pulled + 1, acquired := false, frame := .running }) := by
          simp only [takeMapSlot, modReq]; exact getElem?_modify_eq _ _ _ _ hp
        unfold mapStartTask
        split
        · -- pool closed meanwhile
          obtain ⟨a, _⟩ := finishMeta_req _ m (.exc .poolIsClosed) _ h3
          simp only [Bool.false_eq_true, if_false]
          exact ⟨_, 1, a, by simp [Req.finished, tmsUpd]; omega, ⟨1, by simp [Req.finished, tmsUpd], by simp [Req.finished, tmsUpd], by simp⟩,
            by simp [Req.finished, tmsUpd], MapEnd.failed .poolIsClosed (by simp [Req.finished]) rfl,
            by simp [Req.finished, tmsUpd]; exact hh⟩
        · split
          · -- pool full: wait for room with the element (and the slot) in hand
            obtain ⟨r', a, b, c, d, _⟩ := waitRoom_req _ m _ h3
            simp only [Bool.false_eq_true, if_false]
            simp only [Req.ctr, Prod.mk.injEq, tmsUpd] at b
            refine ⟨r', 1, a, by simp only [List.length_cons]; rw [b.1, b.2.2.2.1]; omega,
              ⟨1, by rw [b.2.2.2.1]; simp, by rw [b.1], by simp⟩, by rw [b.1, b.2.1, b.2.2.1]; omega,
              MapEnd.waitingRoom c (by rw [d]; exact ho) rfl, ?_⟩
            have := waitRoom_hooks ((p.pullItem m rest).takeMapSlot m) m _ h3
            obtain ⟨r2, a2, e2⟩ := this
            rw [a] at a2; cases a2
            rw [e2]; exact hh
          · -- room: the task is created, next element
            obtain ⟨a, _⟩ := takeSlotAndCreate_req _ m true _ h3
            simp only [if_true]
            obtain ⟨r', hand, a', b', ⟨k, c1, c2, c3⟩, d', e', f'⟩ := ih _ _ a ho hh
            simp only [tmsUpd] at b' c2 d'
            refine ⟨r', hand, a', by simp only [List.length_cons]; omega,
              ⟨k + 1, by simpa using c1, by omega, by simp only [List.length_cons]; omega⟩, by omega, e', f'⟩

/-- **all consumed.** If the loop ends normally, every element was pulled, each exactly once and in order, and each
was either turned into a task or skipped -/
theorem C05_done_means_all_partial (m : Nat) (items : List Item) (p : Pool) (r : Req) (h : p.reqs[m]? = some r)
    (ho : r.outcome = none) (hh : r.hooks.pull = []) (hc : r.created = 0) (hs : r.skipped = 0) (hp : r.pulled = 0)
    (r' : Req) (hr' : (mapLoop m items p).reqs[m]? = some r') (hd : r'.frame = .done) (hok : r'.outcome = some .ok) :
    r'.pulled = items.length ∧ r'.created + r'.skipped = items.length ∧ r'.items = [] := by
  obtain ⟨r2, hand, a, b, _, d, e, _⟩ := C05_loop_accounting_partial m items p r h ho hh
  rw [a] at hr'; cases hr'
  cases e with
  | done h1 _ h3 => rw [h1] at b; simp at b; subst h3; exact ⟨by omega, by omega, h1⟩
  | waitingOwnSlot hw => rw [hd] at hw; cases hw
  | waitingRoom hw => rw [hd] at hw; cases hw
  | failed e he => rw [hok] at he; cases he

/-- the tasks of call `m` that have not handed back their pool slot — in particular every one whose worker has begun
and not finished, and every one still inside its cancel callback -/
def Pool.mapActive (p : Pool) (m : Nat) : Nat := p.tasks.countP (fun tk => tk.isMap && tk.req == m && !tk.released)

/-- the tasks of call `m` whose worker coroutine has begun and not finished -/
def Pool.mapLive (p : Pool) (m : Nat) : Nat := p.tasks.countP (fun tk => tk.isMap && tk.req == m && tk.phase == .inWorker)

/-- **the books of the call's own semaphore balance, for every history**: in every pool of every reachable world
(any sizes, resizes, cancellations of tasks / groups / everything, failures, flushes, user code in workers, callbacks
and argument iterators), for every request: `free slots + tasks holding a slot + a slot granted to the waiting
spawner + the slot the spawner carries while it waits for pool room ≤ num_concurrent` — and **`= num_concurrent` as
long as the call's spawner has not ended** (a spawner that dies of `PoolIsClosed` with a slot in hand takes the slot
with it; nothing else ever loses one) -/
theorem C05_slot_books (base : Nat) (h : History) (i : Nat) (c : Cfg) (p : Pool)
    (hc : ((World.init base).run h).cfgs[i]? = some c) (hp : ((World.init base).run h).pools[i]? = some p)
    (m : Nat) (r : Req) (hr : p.reqs[m]? = some r) :
    ∃ v, r.mapSem.value = .fin v ∧ v + heldM p.tasks m + grantsL r.mapSem.waiters + r.pend ≤ r.nc ∧
      (r.outcome = none → v + heldM p.tasks m + grantsL r.mapSem.waiters + r.pend = r.nc) := by
  obtain ⟨v, hv, h1, h2⟩ := (mapAll base h i c p hc hp).le m r hr
  exact ⟨v, hv, h1, fun ho => by have := h2 ho; omega⟩

/-- **no lost wake-up on the call's own semaphore, for every history**: if it has a free slot and none is on its way
to the woken consumer, the consumer is not waiting for one -/
theorem C05_no_lost_wakeup (base : Nat) (h : History) (i : Nat) (c : Cfg) (p : Pool)
    (hc : ((World.init base).run h).cfgs[i]? = some c) (hp : ((World.init base).run h).pools[i]? = some p)
    (m : Nat) (r : Req) (hr : p.reqs[m]? = some r) (v : Nat) (hv : r.mapSem.value = .fin v) (hpos : 0 < v)
    (hng : grantsL r.mapSem.waiters = 0) : ∀ w ∈ r.mapSem.waiters, w.st ≠ .pending :=
  (mapAll base h i c p hc hp).wk m r hr v hv hpos hng

/-- **work-conserving, for every history.** In every pool of every reachable world: if the consumer of a map-family
call is alive and suspended on its own semaphore (then an element is in hand and more may remain, `C05_lazy_all`; it
is not the pool's size that holds it up), and its waiter entry is still pending with no wake-up on its way (what "the
loop is idle" means for this semaphore), then **all `num_concurrent` slots of the call are held by tasks of the call
that have not yet handed theirs back** -/
theorem C05_work_conserving (base : Nat) (h : History) (i : Nat) (c : Cfg) (p : Pool)
    (hc : ((World.init base).run h).cfgs[i]? = some c) (hp : ((World.init base).run h).pools[i]? = some p)
    (m : Nat) (r : Req) (hr : p.reqs[m]? = some r) (hlive : r.outcome = none) (hw : r.frame = .waitMapSem)
    (hpend : ∃ w ∈ r.mapSem.waiters, w.st = .pending) (hng : grantsL r.mapSem.waiters = 0) :
    heldM p.tasks m = r.nc := by
  obtain ⟨v, hv, _, h2⟩ := C05_slot_books base h i c p hc hp m r hr
  have hp0 : r.pend = 0 := by simp [Req.pend, hw]
  have hv0 : v = 0 := by
    rcases Nat.eq_zero_or_pos v with e | e
    · exact e
    · obtain ⟨w, hw1, hw2⟩ := hpend
      exact absurd hw2 (C05_no_lost_wakeup base h i c p hc hp m r hr v hv e hng w hw1)
  have := h2 hlive
  omega

/-- **element-wise, in order, lazy — for every history.** In every pool of every reachable world, for every
map-family request: what has been pulled plus what is left is the whole iterable; every pulled element is a task of
the call, was skipped (its call raised), or is the **single** element in hand — the consumer never runs more than one
element ahead; and whether an element is in hand is determined by where the consumer is suspended (waiting for its own
concurrency slot or for pool room: one; not yet started: none) -/
theorem C05_lazy_all (base : Nat) (h : History) (i : Nat) (c : Cfg) (p : Pool)
    (hc : ((World.init base).run h).cfgs[i]? = some c) (hp : ((World.init base).run h).pools[i]? = some p)
    (m : Nat) (r : Req) (hr : p.reqs[m]? = some r) (hk : r.kind = .map) :
    r.pulled + r.items.length = r.n0 ∧
    tasksOf p.tasks m + r.skipped ≤ r.pulled ∧ r.pulled ≤ tasksOf p.tasks m + r.skipped + 1 ∧
    ((r.frame = .waitRoom ∨ r.frame = .waitMapSem) → r.pulled = tasksOf p.tasks m + r.skipped + 1) ∧
    (r.frame = .notStarted → r.pulled = tasksOf p.tasks m + r.skipped) := by
  have ha := accAll base h i c p hc hp
  rw [ha.tk m r hr]
  exact (ha.rq m r hr).2 hk

/-- the length of the iterable is what the call was given -/
theorem C05_n0_is_length (stars : Nat) (g : String) (sp : SpawnSpec) (items : List Item) (nc : Nat) :
    (newReq .map stars g sp 0 items nc).n0 = items.length := by simp [newReq]

/-- **never more than `num_concurrent` at once.** In every pool of every reachable world, for every map-family
request, the number of its tasks that are running (created and not yet ended — a fortiori the number of its worker
coroutines that have begun and not finished) never exceeds its `num_concurrent` -/
theorem C05_concurrency_bound (base : Nat) (h : History) (i : Nat) (c : Cfg) (p : Pool)
    (hc : ((World.init base).run h).cfgs[i]? = some c) (hp : ((World.init base).run h).pools[i]? = some p)
    (m : Nat) (r : Req) (hr : p.reqs[m]? = some r) : p.mapLive m ≤ p.mapActive m ∧ p.mapActive m ≤ r.nc := by
  have hl := lifeAll base h i c p hc hp
  obtain ⟨hph, _⟩ := baseAll base h i c p hc hp
  obtain ⟨v, _, hs⟩ := C05_slot_books base h i c p hc hp m r hr
  refine ⟨?_, ?_⟩
  · unfold Pool.mapLive Pool.mapActive
    apply List.countP_mono_left
    intro tk hmem hx
    obtain ⟨j, hj, rfl⟩ := List.getElem_of_mem hmem
    simp only [Bool.and_eq_true, beq_iff_eq] at hx
    have := hph j p.tasks[j] (by simp [hj]) (by simp [NYR, hx.2])
    simp [hx.1.1, hx.1.2, this]
  · have : p.mapActive m ≤ heldM p.tasks m := by
      unfold Pool.mapActive heldM
      apply List.countP_mono_left
      intro tk hmem hx
      obtain ⟨j, hj, rfl⟩ := List.getElem_of_mem hmem
      simp only [Bool.and_eq_true, beq_iff_eq, Bool.not_eq_true'] at hx
      have := (hl j p.tasks[j] (by simp [hj])).mh hx.1.1 hx.2
      have hmh : p.tasks[j].mapHeld = true := this
      simp [hmh, hx.1.2]
    omega

/-- … and when none of them is inside a callback or over (each is still in its worker), exactly `num_concurrent`
workers of the call are live -/
theorem C05_work_conserving_live (base : Nat) (h : History) (i : Nat) (c : Cfg) (p : Pool)
    (hc : ((World.init base).run h).cfgs[i]? = some c) (hp : ((World.init base).run h).pools[i]? = some p)
    (m : Nat) (r : Req) (hr : p.reqs[m]? = some r) (hlive : r.outcome = none) (hw : r.frame = .waitMapSem)
    (hpend : ∃ w ∈ r.mapSem.waiters, w.st = .pending) (hng : grantsL r.mapSem.waiters = 0)
    (hq : ∀ tk ∈ p.tasks, tk.mapHeld = true → tk.req = m → tk.isMap = true ∧ tk.phase = .inWorker) :
    p.mapLive m = r.nc := by
  have h1 := C05_work_conserving base h i c p hc hp m r hr hlive hw hpend hng
  have h2 := C05_concurrency_bound base h i c p hc hp m r hr
  have h3 : heldM p.tasks m ≤ p.mapLive m := by
    unfold Pool.mapLive heldM
    apply List.countP_mono_left
    intro tk hmem hx
    simp only [Bool.and_eq_true, beq_iff_eq] at hx
    obtain ⟨a, b⟩ := hq tk hmem hx.1 hx.2
    simp [a, b, hx.2]
  omega

/-- `num_concurrent` of a request is what the call was given (`doMap` registers exactly this record), and the call's
semaphore starts with that many free slots -/
theorem C05_nc_is_given (stars : Nat) (g : String) (sp : SpawnSpec) (items : List Item) (nc : Nat) :
    (newReq .map stars g sp 0 items nc).nc = nc ∧
    (newReq .map stars g sp 0 items nc).mapSem = { value := .fin nc, waiters := [] } := ⟨rfl, rfl⟩

/-! Non-vacuity of the bound: `map` over 4 gated elements with `num_concurrent = 2` on an unbounded pool, after the
spawner and both tasks have taken their first steps: exactly two workers of the call are live. -/
def C05_demo : History :=
  [.mkpool none none none, .on 0 [] (.map 0 [{ bad := false }, { bad := false }, { bad := false }, { bad := false }] 2 none gatedSpec),
   .run 0 [], .run 0 [], .run 0 []]

example : (((World.init 0).run C05_demo).pools.map fun p => (p.mapLive 0, p.mapActive 0, p.reqs.map (·.nc))) = [(2, 2, [2])] := by
  decide +kernel
/-- … and the consumer is suspended on its own semaphore with the third element in hand, the fourth untouched -/
example : (((World.init 0).run C05_demo).pools.map fun p =>
    (tasksOf p.tasks 0, p.reqs.map fun r => (r.pulled, r.items.length, r.n0))) = [(2, [(3, 1, 4)])] := by
  decide +kernel
example : (((World.init 0).run C05_demo).pools.map fun p => p.reqs.map fun r => (r.skipped, r.frame)) =
    [[(0, MFrame.waitMapSem)]] := by
  decide +kernel

/-- … which is a state that meets the premises of `C05_work_conserving`: the consumer is alive, its waiter entry
pending, no wake-up on its way — and indeed both slots are held by tasks of the call -/
example : (((World.init 0).run C05_demo).pools.map fun p => p.reqs.map fun r =>
    (r.outcome.isNone, r.mapSem.waiters.map (·.st), grantsL r.mapSem.waiters, heldM p.tasks 0, r.nc)) =
    [[(true, [WaitSt.pending], 0, 2, 2)]] := by
  decide +kernel

/-! Non-vacuity: `map` over 4 elements with `num_concurrent = 2` on an unbounded pool: two tasks, the third
element is in hand, the fourth has not been touched. -/
example : ((mapLoop 0 [{ bad := false }, { bad := false }, { bad := false }, { bad := false }]
      ((Pool.init .inf none).doMap 0 [{ bad := false }, { bad := false }, { bad := false }, { bad := false }] 2 none gatedSpec).1).reqs.map fun r =>
    (r.created, r.pulled, r.items.length, r.frame)) = [(2, 3, 1, MFrame.waitMapSem)] := by decide +kernel

end Taskpool