import Taskpool.Inv.Mono
import Taskpool.Props.C07
import Taskpool.Props.C08
import Taskpool.Props.C11
/-! # What never goes back — whole-history statements about two points in time

`World.later_run` (`Inv/Mono.lean`): whatever inputs follow, every pool only moves forward (`Mono`).  Combined with the
state invariants this turns "at every reachable state …" into "from then on, for ever …". -/
namespace Taskpool

theorem World.later_of_append (base : Nat) (h h' : History) (i : Nat) (p : Pool)
    (hp : ((World.init base).run h).pools[i]? = some p) :
    ∃ p', ((World.init base).run (h ++ h')).pools[i]? = some p' ∧ Mono p p' := by
  rw [World.run_append]
  exact World.later_run _ h' i p hp

/-- the configuration of a pool exists as long as the pool does -/
theorem World.cfg_of_pool (base : Nat) (h : History) (i : Nat) (p : Pool)
    (hp : ((World.init base).run h).pools[i]? = some p) : ∃ c, ((World.init base).run h).cfgs[i]? = some c := by
  have hl := (World.reachable baseC_invariant base h (fun x _ => admits_all x)).len
  have : i < ((World.init base).run h).cfgs.length := by rw [hl]; exact (List.getElem?_eq_some_iff.mp hp).1
  exact ⟨_, List.getElem?_eq_getElem this⟩

/-! ### `cancel_group` puts the cancellation of every live spawner of the group on record -/

theorem mem_indicesWhere (l : List Req) (f : Req → Bool) (m : Nat) (r : Req) (h : l[m]? = some r) (hf : f r = true) :
    m ∈ Pool.indicesWhere l f := by
  unfold Pool.indicesWhere
  simp only [List.mem_map, List.mem_filter]
  refine ⟨(r, m), ⟨?_, hf⟩, rfl⟩
  rw [List.mem_iff_getElem?]
  exact ⟨m, by simp [List.getElem?_zipIdx, h]⟩

theorem metaCancel_other (p : Pool) (m' m : Nat) (hne : m' ≠ m) : (p.metaCancel m').reqs[m]? = p.reqs[m]? := by
  unfold Pool.metaCancel
  split
  · rfl
  · split
    · rfl
    · split
      · simp [Pool.schedMeta, Pool.emitRef, Pool.modReq, List.getElem?_modify, hne]
      · split
        · simp [Pool.schedMeta, Pool.emitRef, Pool.modReq, List.getElem?_modify, hne]
        · simp [Pool.modReq, List.getElem?_modify, hne]

/-- cancelling the spawners `ms` one after the other: the one at index `m ∈ ms`, if alive and not inside its own
handle, has a snapshot afterwards -/
theorem foldl_metaCancel_snapshot (ms : List Nat) (p : Pool) (m : Nat) (hm : m ∈ ms) (r : Req) (hr : p.reqs[m]? = some r)
    (ho : r.outcome = none) (hnr : r.frame ≠ .running) (hnd : r.frame ≠ .done) :
    ∃ r', (ms.foldl (fun p m => p.metaCancel m) p).reqs[m]? = some r' ∧ r'.cancelSnap.isSome = true := by
  induction ms generalizing p with
  | nil => cases hm
  | cons a as ih =>
    simp only [List.foldl_cons]
    by_cases e : a = m
    · subst e
      obtain ⟨r', a1, a2, _⟩ := C07_metaCancel_snapshot p a r hr ho hnr hnd
      have hmono : Mono (p.metaCancel a) (as.foldl (fun p m => p.metaCancel m) (p.metaCancel a)) :=
        (Pool.tame_foldl as _ (fun p m => Pool.tame_metaCancel p m) _).mono
      obtain ⟨r'', b1, _, _, b4, _⟩ := hmono.rq a r' a1
      cases hs : r'.cancelSnap with
      | none => rw [hs] at a2; cases a2
      | some s => exact ⟨r'', b1, by rw [b4 s hs]; rfl⟩
    · have hm' : m ∈ as := by
        rcases List.mem_cons.mp hm with h | h
        · exact absurd h.symm e
        · exact h
      exact ih (p.metaCancel a) hm' (by rw [metaCancel_other p a m e]; exact hr)

theorem cancelGroupBody_records (q q' : Pool) (g : String) (ids order : List Nat)
    (h : q.cancelGroupBody g ids order = some q')
    (m : Nat) (r : Req) (hr : q.reqs[m]? = some r) (hin : r.inRunning = true) (hg : r.group = g)
    (ho : r.outcome = none) (hnr : r.frame ≠ .running) (hnd : r.frame ≠ .done) :
    ∃ r', q'.reqs[m]? = some r' ∧ r'.cancelSnap.isSome = true := by
  unfold Pool.cancelGroupBody at h
  simp only at h
  split at h
  · simp at h
  · simp only [Option.some.injEq] at h
    have hmem : m ∈ Pool.indicesWhere q.reqs fun r => r.inRunning && r.group == g :=
      mem_indicesWhere q.reqs _ m r hr (by simp [hin, hg])
    obtain ⟨r1, a1, a2⟩ := foldl_metaCancel_snapshot _ q m hmem r hr ho hnr hnd
    -- the flags `inRunning` / `inCancelled` are rewritten, the snapshot stays
    have hcm : ∃ r2, (q.cancelGroupMetas g).reqs[m]? = some r2 ∧ r2.cancelSnap.isSome = true := by
      unfold Pool.cancelGroupMetas
      simp only [List.getElem?_map, a1, Option.map_some]
      refine ⟨_, rfl, ?_⟩
      split <;> exact a2
    obtain ⟨r2, c1, c2⟩ := hcm
    have hmono : ∀ l : List Nat, Mono (q.cancelGroupMetas g) (l.foldl (fun p t => p.cancelTask t) (q.cancelGroupMetas g)) :=
      fun l => (Pool.tame_foldl l _ (fun p t => Pool.tame_cancelTask p t) _).mono
    subst h
    obtain ⟨r3, d1, _, _, d4, _⟩ := (hmono _).rq m r2 c1
    cases hs : r2.cancelSnap with
    | none => rw [hs] at c2; cases c2
    | some s => exact ⟨r3, d1, by rw [d4 s hs]; rfl⟩

/-- **`cancel_group(g)` records the cancellation** of every spawner of `g` that is filed as running, has no outcome
and is not inside its own handle (i.e. the call does not come from that spawner's own argument iterator) -/
theorem C07_cancel_group_records (p : Pool) (g : String) (h : (p.doCancelGroup g).2 = .none)
    (m : Nat) (r : Req) (hr : p.reqs[m]? = some r) (hin : r.inRunning = true) (hg : r.group = g)
    (ho : r.outcome = none) (hnr : r.frame ≠ .running) (hnd : r.frame ≠ .done) :
    ∃ r', (p.doCancelGroup g).1.reqs[m]? = some r' ∧ r'.cancelSnap.isSome = true := by
  unfold Pool.doCancelGroup at h ⊢
  split
  · rename_i hn; simp [hn] at h
  · rename_i ids hids
    simp only [hids] at h
    simp only
    split
    · rename_i hb; simp [hb] at h
    · rename_i p2 hp2
      refine cancelGroupBody_records _ p2 g ids _ hp2 m r ?_ hin hg ho hnr hnd
      have : p.popOrder.1.reqs = p.reqs := by
        unfold Pool.popOrder; split <;> rfl
      show p.popOrder.1.reqs[m]? = some r
      rw [this]; exact hr

/-- cancelling another group leaves the spawners of this one exactly as they are -/
theorem cancelGroupBody_other (q q' : Pool) (g : String) (ids order : List Nat)
    (h : q.cancelGroupBody g ids order = some q') (m : Nat) (r : Req) (hr : q.reqs[m]? = some r) (hg : r.group ≠ g) :
    q'.reqs[m]? = some r := by
  unfold Pool.cancelGroupBody at h
  simp only at h
  split at h
  · simp at h
  · simp only [Option.some.injEq] at h
    have h1 : (q.cancelGroupMetas g).reqs[m]? = some r := by
      unfold Pool.cancelGroupMetas
      simp only
      have hf : ∀ (ms : List Nat) (x : Pool), m ∉ ms → x.reqs[m]? = some r →
          (ms.foldl (fun p m => p.metaCancel m) x).reqs[m]? = some r := by
        intro ms
        induction ms with
        | nil => intro x _ hx; exact hx
        | cons a as ih =>
          intro x hn hx
          simp only [List.foldl_cons]
          have : a ≠ m := fun e => hn (by simp [e])
          exact ih _ (fun hm => hn (List.mem_cons_of_mem _ hm)) (by rw [metaCancel_other x a m this]; exact hx)
      have hnm : m ∉ Pool.indicesWhere q.reqs fun r => r.inRunning && r.group == g := by
        intro hm
        unfold Pool.indicesWhere at hm
        simp only [List.mem_map, List.mem_filter] at hm
        obtain ⟨⟨x, i⟩, ⟨hmem, hfx⟩, hi⟩ := hm
        simp only at hi; subst hi
        rw [List.mem_iff_getElem?] at hmem
        obtain ⟨j, hj⟩ := hmem
        simp only [List.getElem?_zipIdx] at hj
        cases hq : q.reqs[j]? with
        | none => simp [hq] at hj
        | some y =>
          simp [hq] at hj
          obtain ⟨e1, e2⟩ := hj
          subst e2; subst e1
          rw [hq] at hr; cases hr
          simp at hfx
          exact hg hfx.2
      have := hf _ q hnm hr
      simp only [List.getElem?_map, this, Option.map_some]
      have hne : (r.group == g) = false := by simpa using hg
      simp [hne]
    subst h
    have hk : ∀ (l : List Nat) (x : Pool), (l.foldl (fun p t => p.cancelTask t) x).reqs = x.reqs := by
      intro l
      induction l with
      | nil => intro x; rfl
      | cons a as ih => intro x; simp only [List.foldl_cons]; rw [ih]; exact (cancelTask_frame x a).2.2.2.2.1
    rw [hk]; exact h1

/-- `cancel_all()` does the same for every group the pool knows: every live spawner of a known group that is not inside
its own handle gets its cancellation recorded -/
theorem C07_cancel_all_records (p : Pool) (h : p.doCancelAll.2 = .none)
    (m : Nat) (r : Req) (hr : p.reqs[m]? = some r) (hin : r.inRunning = true)
    (hknown : ∃ ids, (r.group, ids) ∈ p.groups)
    (ho : r.outcome = none) (hnr : r.frame ≠ .running) (hnd : r.frame ≠ .done) :
    ∃ r', p.doCancelAll.1.reqs[m]? = some r' ∧ r'.cancelSnap.isSome = true := by
  have key : ∀ (gs : List (String × List Nat)) (order : List Nat) (q q' : Pool),
      Pool.cancelAllLoop gs order q = some q' →
      ((∃ ids, (r.group, ids) ∈ gs) → q.reqs[m]? = some r → ∃ r', q'.reqs[m]? = some r' ∧ r'.cancelSnap.isSome = true) ∧
      (∀ x s, q.reqs[m]? = some x → x.cancelSnap = some s → ∃ x', q'.reqs[m]? = some x' ∧ x'.cancelSnap = some s) := by
    intro gs
    induction gs with
    | nil =>
      intro order q q' hq
      simp only [Pool.cancelAllLoop, Option.some.injEq] at hq
      subst hq
      exact ⟨(fun ⟨_, hm⟩ => by cases hm), fun x s a b => ⟨x, a, b⟩⟩
    | cons gi rest ih =>
      intro order q q' hq
      obtain ⟨g, ids⟩ := gi
      simp only [Pool.cancelAllLoop] at hq
      split at hq
      · simp at hq
      · rename_i q1 hq1
        obtain ⟨ih1, ih2⟩ := ih order q1 q' hq
        -- what one `cancelGroupBody` does to snapshots already taken
        have keep1 : ∀ x s, q.reqs[m]? = some x → x.cancelSnap = some s → ∃ x', q1.reqs[m]? = some x' ∧ x'.cancelSnap = some s := by
          intro x s a b
          have hmono : Mono q q1 := by
            unfold Pool.cancelGroupBody at hq1
            simp only at hq1
            split at hq1
            · simp at hq1
            · simp only [Option.some.injEq] at hq1
              subst hq1
              exact (Pool.tame_cancelGroupMetas q g).mono.trans
                (Pool.tame_foldl _ _ (fun p t => Pool.tame_cancelTask p t) _).mono
          obtain ⟨x', a', _, _, c, _⟩ := hmono.rq m x a
          exact ⟨x', a', c s b⟩
        refine ⟨?_, fun x s a b => by
          obtain ⟨x1, a1, b1⟩ := keep1 x s a b
          exact ih2 x1 s a1 b1⟩
        intro ⟨ids', hmem⟩ hqm
        by_cases e : r.group = g
        · -- this group's turn: the snapshot is taken now and kept for the rest of the loop
          obtain ⟨r1, a1, a2⟩ := cancelGroupBody_records q q1 g ids order hq1 m r hqm hin e ho hnr hnd
          cases hs : r1.cancelSnap with
          | none => rw [hs] at a2; cases a2
          | some s =>
            obtain ⟨x', a', b'⟩ := ih2 r1 s a1 hs
            exact ⟨x', a', by rw [b']; rfl⟩
        · -- another group's turn: this spawner is untouched
          have hq1m := cancelGroupBody_other q q1 g ids order hq1 m r hqm e
          refine ih1 ?_ hq1m
          rcases List.mem_cons.mp hmem with h0 | h0
          · exact absurd (congrArg Prod.fst h0) e
          · exact ⟨ids', h0⟩
  unfold Pool.doCancelAll at h ⊢
  simp only at h ⊢
  split
  · rename_i hb; simp [hb] at h
  · rename_i p2 hp2
    have hreq : ({ p.popOrder.1 with groups := [] } : Pool).reqs[m]? = some r := by
      have : p.popOrder.1.reqs = p.reqs := by unfold Pool.popOrder; split <;> rfl
      show p.popOrder.1.reqs[m]? = some r
      rw [this]; exact hr
    have hgs : p.popOrder.1.groups = p.groups := by unfold Pool.popOrder; split <;> rfl
    refine (key _ _ _ p2 hp2).1 ?_ hreq
    obtain ⟨ids, hmem⟩ := hknown
    exact ⟨ids, by rw [hgs]; exact List.mem_reverse.mpr hmem⟩

/-- **C07 — never again.** Take any history `h` after which the cancellation of spawner `m` of pool `i` is on record
(`C07_metaCancel_snapshot`: that is what `cancel_group` / `cancel_all` do to every live spawner of the group that is
not inside its own handle).  Then after **any** continuation `h'` — more requests, more cancellations, resizes,
flushes, user code, any scheduling — that call has created no further task and has not advanced its argument
iterable: its counters, and the number of tasks that belong to it, are what they were. -/
theorem C07_never_again (base : Nat) (h h' : History) (i : Nat) (p : Pool)
    (hp : ((World.init base).run h).pools[i]? = some p)
    (m : Nat) (r : Req) (hr : p.reqs[m]? = some r) (hs : r.cancelSnap.isSome = true) :
    ∃ p' r', ((World.init base).run (h ++ h')).pools[i]? = some p' ∧ p'.reqs[m]? = some r' ∧
      r'.created = r.created ∧ r'.pulled = r.pulled ∧ tasksOf p'.tasks m = tasksOf p.tasks m := by
  obtain ⟨p', hp', hm⟩ := World.later_of_append base h h' i p hp
  obtain ⟨r', hr', _, _, hsk, _⟩ := hm.rq m r hr
  obtain ⟨c, hc⟩ := World.cfg_of_pool base h i p hp
  obtain ⟨c', hc'⟩ := World.cfg_of_pool base (h ++ h') i p' hp'
  cases hsn : r.cancelSnap with
  | none => rw [hsn] at hs; cases hs
  | some s =>
    obtain ⟨a1, a2, _⟩ := cancAll base h i c p hc hp m r s.1 s.2 hr hsn
    obtain ⟨b1, b2, _⟩ := cancAll base (h ++ h') i c' p' hc' hp' m r' s.1 s.2 hr' (hsk s hsn)
    refine ⟨p', r', hp', hr', b1.trans a1.symm, b2.trans a2.symm, ?_⟩
    rw [(accAll base (h ++ h') i c' p' hc' hp').tk m r' hr', (accAll base h i c p hc hp).tk m r hr]
    exact b1.trans a1.symm

/-- **C08 / C09 — closed for good.** Once a pool is closed it is closed after every continuation, and then every
spawning request is rejected with `PoolIsClosed` (`C09_closed_rejects_apply` and its siblings are stated for any
closed pool) -/
theorem C08_closed_forever (base : Nat) (h h' : History) (i : Nat) (p : Pool)
    (hp : ((World.init base).run h).pools[i]? = some p) (hc : p.closed = true) :
    ∃ p', ((World.init base).run (h ++ h')).pools[i]? = some p' ∧ p'.closed = true := by
  obtain ⟨p', hp', hm⟩ := World.later_of_append base h h' i p hp
  exact ⟨p', hp', hm.cl hc⟩

/-- **C03 — finished is final.** A task that has finished stays finished after every continuation (so none of its
callbacks can run again, `C03_exactly_once_all`), and a request that has an outcome keeps one -/
theorem C03_finished_forever (base : Nat) (h h' : History) (i : Nat) (p : Pool)
    (hp : ((World.init base).run h).pools[i]? = some p) (t : Nat) (tk : PTask) (ht : p.tasks[t]? = some tk)
    (hf : tk.phase = .finished) :
    ∃ p' tk', ((World.init base).run (h ++ h')).pools[i]? = some p' ∧ p'.tasks[t]? = some tk' ∧ tk'.phase = .finished := by
  obtain ⟨p', hp', hm⟩ := World.later_of_append base h h' i p hp
  obtain ⟨tk', a, b⟩ := hm.fin t tk ht hf
  exact ⟨p', tk', hp', a, b⟩

/-- **C11 — ids only grow.** The ids of a pool's tasks are the indices `0 … n-1` of the tasks it has created; after
every continuation there are at least as many, so an id issued once is never issued again -/
theorem C11_ids_only_grow (base : Nat) (h h' : History) (i : Nat) (p : Pool)
    (hp : ((World.init base).run h).pools[i]? = some p) :
    ∃ p', ((World.init base).run (h ++ h')).pools[i]? = some p' ∧ p.tasks.length ≤ p'.tasks.length ∧
      p.reqs.length ≤ p'.reqs.length := by
  obtain ⟨p', hp', hm⟩ := World.later_of_append base h h' i p hp
  exact ⟨p', hp', hm.tl, hm.rl⟩

end Taskpool
