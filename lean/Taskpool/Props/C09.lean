import Taskpool.Inv.GoodInv
/-! # C09 — Rejected requests leave no trace; lock/unlock gate new requests -/
namespace Taskpool
open Pool

/-- every rejection of `apply` returns the pool unchanged (full state equality: no group, no spawner, no pull,
no log entry, no handle) -/
theorem C09_apply_reject_no_change (p : Pool) (num : Int) (group : Option String) (sp : SpawnSpec) (e : Err)
    (h : (p.doApply num group sp).2 = .err e) : (p.doApply num group sp).1 = p := by
  unfold doApply at h ⊢
  repeat' (first | rfl | (simp at h; done) | split | dsimp only at h ⊢)
  all_goals simp_all

theorem C09_map_reject_no_change (p : Pool) (stars : Nat) (items : List Item) (nc : Int) (group : Option String)
    (sp : SpawnSpec) (e : Err) (h : (p.doMap stars items nc group sp).2 = .err e) :
    (p.doMap stars items nc group sp).1 = p := by
  unfold doMap at h ⊢
  repeat' (first | rfl | (simp at h; done) | split | dsimp only at h ⊢)
  all_goals simp_all

theorem C09_start_reject_no_change (p : Pool) (num : Int) (e : Err) (h : (p.doStart num).2 = .err e) :
    (p.doStart num).1 = p := by
  unfold doStart at h ⊢
  repeat' (first | rfl | (simp at h; done) | split | dsimp only at h ⊢)
  all_goals simp_all

/-- the documented order of the checks: not-a-coroutine-function, closed, locked -/
theorem C09_check_order (p : Pool) (isCoro : Bool) :
    p.checkStart isCoro =
      if !isCoro then some .notCoroutineFunction else if p.closed then some .poolIsClosed
      else if p.locked then some .poolIsLocked else none := rfl

/-- the complete decision table of `apply` -/
theorem C09_apply_decision (p : Pool) (num : Int) (group : Option String) (sp : SpawnSpec) :
    (p.doApply num group sp).2 =
      if !sp.isCoro then .err .notCoroutineFunction
      else if p.closed then .err .poolIsClosed
      else if p.locked then .err .poolIsLocked
      else if (p.groupIds (group.getD (p.genName "apply"))).isSome then .err .groupExists
      else .name (group.getD (p.genName "apply")) := by
  unfold doApply checkStart
  cases group <;> cases h1 : sp.isCoro <;> cases h2 : p.closed <;> cases h3 : p.locked <;> simp <;> split <;> simp_all

/-- the complete decision table of the map family (`num_concurrent < 1` is checked after the lock, before the name) -/
theorem C09_map_decision (p : Pool) (stars : Nat) (items : List Item) (nc : Int) (group : Option String) (sp : SpawnSpec) :
    (p.doMap stars items nc group sp).2 =
      if !sp.isCoro then .err .notCoroutineFunction
      else if p.closed then .err .poolIsClosed
      else if p.locked then .err .poolIsLocked
      else if nc < 1 then .err .valueError
      else if (p.groupIds (group.getD (p.genName (mapPrefix stars)))).isSome then .err .groupExists
      else .name (group.getD (p.genName (mapPrefix stars))) := by
  unfold doMap checkStart
  cases group <;> cases h1 : sp.isCoro <;> cases h2 : p.closed <;> cases h3 : p.locked <;> simp <;>
    (by_cases h4 : nc < 1 <;> simp [h4] <;> split <;> simp_all)

/-- while locked (and open, with a coroutine function) every spawning call is refused with PoolIsLocked -/
theorem C09_locked_rejects_apply (p : Pool) (num : Int) (group : Option String) (sp : SpawnSpec)
    (hc : sp.isCoro = true) (ho : p.closed = false) (hl : p.locked = true) :
    p.doApply num group sp = (p, .err .poolIsLocked) := by
  unfold doApply checkStart; simp [hc, ho, hl]

theorem C09_locked_rejects_map (p : Pool) (stars items nc group) (sp : SpawnSpec)
    (hc : sp.isCoro = true) (ho : p.closed = false) (hl : p.locked = true) :
    p.doMap stars items nc group sp = (p, .err .poolIsLocked) := by
  unfold doMap checkStart; simp [hc, ho, hl]

theorem C09_locked_rejects_start (p : Pool) (num : Int) (sp : SpawnSpec) (hs : p.simple = some sp)
    (hc : sp.isCoro = true) (ho : p.closed = false) (hl : p.locked = true) :
    p.doStart num = (p, .err .poolIsLocked) := by
  unfold doStart checkStart; simp [hs, hc, ho, hl]

/-- after close every spawning call of a coroutine function raises PoolIsClosed, locked or not -/
theorem C09_closed_rejects_apply (p : Pool) (num group) (sp : SpawnSpec) (hc : sp.isCoro = true) (ho : p.closed = true) :
    p.doApply num group sp = (p, .err .poolIsClosed) := by
  unfold doApply checkStart; simp [hc, ho]

theorem C09_closed_rejects_map (p : Pool) (stars items nc group) (sp : SpawnSpec) (hc : sp.isCoro = true)
    (ho : p.closed = true) : p.doMap stars items nc group sp = (p, .err .poolIsClosed) := by
  unfold doMap checkStart; simp [hc, ho]

theorem C09_closed_rejects_start (p : Pool) (num : Int) (sp : SpawnSpec) (hs : p.simple = some sp)
    (hc : sp.isCoro = true) (ho : p.closed = true) : p.doStart num = (p, .err .poolIsClosed) := by
  unfold doStart checkStart; simp [hs, hc, ho]

theorem C09_negative_size_rejected (p : Pool) (v : Int) (h : v < 0) : p.doSetSize v = (p, .err .valueError) := by
  unfold doSetSize; simp [h]

/-- a constructor call with a negative size or (SimpleTaskPool) a non-coroutine function creates no pool -/
theorem C09_bad_constructor (w : World) (size : Option Int) (simple : Option SpawnSpec) (name : Option String)
    (h : notCoroFn simple = true ∨ negSize size = true) :
    (w.mkpool size simple name).1.pools = w.pools ∧ ∃ e, (w.mkpool size simple name).2 = .err e := by
  unfold World.mkpool
  by_cases h1 : notCoroFn simple = true
  · simp [h1]
  · have h2 : negSize size = true := by rcases h with h | h; exact absurd h h1; exact h
    simp [h1, h2]

/-- `lock()` and `unlock()` are idempotent, and `unlock()` undoes `lock()` exactly -/
theorem C09_lock_idempotent (p : Pool) : p.doLock.doLock = p.doLock := rfl
theorem C09_unlock_idempotent (p : Pool) : p.doUnlock.doUnlock = p.doUnlock := rfl
theorem C09_unlock_restores (p : Pool) (h : p.locked = false) : p.doLock.doUnlock = p := by
  cases p; simp_all [doLock, doUnlock]
theorem C09_lock_touches_only_the_flag (p : Pool) : { p.doLock with locked := p.locked } = p := by
  cases p; rfl

/-- after `unlock()` on an open pool, `apply` of a coroutine function is decided by the group name alone -/
theorem C09_unlock_accepts (p : Pool) (num : Int) (g : String) (sp : SpawnSpec) (hc : sp.isCoro = true)
    (ho : p.closed = false) (hg : (p.groupIds g).isSome = false) :
    (p.doUnlock.doApply num (some g) sp).2 = .name g := by
  rw [C09_apply_decision]
  have : (p.doUnlock.groupIds g).isSome = false := hg
  simp [doUnlock, hc, ho] at this ⊢
  simp [groupIds] at hg ⊢
  simpa using hg

/-! Non-vacuity: a locked pool refuses, the same pool unlocked accepts. -/
example : ((Pool.init (.fin 2) none).doLock.doApply 1 none Pool.gatedSpec).2 = .err .poolIsLocked := by decide +kernel
example : ((Pool.init (.fin 2) none).doLock.doUnlock.doApply 1 none Pool.gatedSpec).2 = .name "apply-worker-group-0" := by
  decide +kernel

end Taskpool
