import Taskpool.Inv.SchedWorld
import Taskpool.Inv.WantWalk2
import Taskpool.Props.C01
import Taskpool.Props.C05
/-! # When the loop is idle, nothing waits for the pool itself

Two invariants over every history — *whoever has something to do is flagged* (`Pool.Want`, pool-local, `Inv/Want*.lean`)
and *whoever is flagged has a handle in the loop's ready queue* (`World.SchedOK`, `Inv/Sched*.lean`) — meet here: if the
ready queue of the loop is empty, then in every pool

* every task whose asyncio Task is not done is suspended on a **pending future of the environment** — the worker's own,
  or that of a coroutine callback — never on anything the pool owes it;
* no slot of the pool's semaphore, and no slot of any call's own semaphore, is "on its way" to a woken spawner: every
  waiter entry is pending;
* every spawner without an outcome is suspended in one of the two semaphores, and has its entry in that queue.

These discharge the premise "the loop is idle" of `C01_is_full_iff`, `C02_idle_accounting` and `C05_work_conserving`,
which so far was glue checked by monitors only. -/
namespace Taskpool

open Pool

theorem World.want_run (base : Nat) (h : History) (i : Nat) (c : Cfg) (p : Pool)
    (hc : ((World.init base).run h).cfgs[i]? = some c) (hp : ((World.init base).run h).pools[i]? = some p) : Want p :=
  (World.reachable wantInvariant base h (fun x _ => admits_all x)).inv i c p hc hp

/-- the state of one pool when the loop is idle -/
structure IdlePool (p : Pool) : Prop where
  tasks : ∀ (t : Nat) (k : PTask), p.tasks[t]? = some k →
    k.quiet = true ∧ k.phase ≠ .wrapUp ∧ (k.phase = .finished → k.outcome.isSome = true)
  pend : ∀ w ∈ p.sem.waiters, w.st = .pending
  mpend : ∀ (m : Nat) (r : Req), p.reqs[m]? = some r → ∀ w ∈ r.mapSem.waiters, w.st = .pending
  spawners : ∀ (m : Nat) (r : Req), p.reqs[m]? = some r → r.outcome = none →
    (r.frame = .waitRoom ∧ m ∈ owners p.sem.waiters) ∨ (r.frame = .waitMapSem ∧ r.mapSem.waiters ≠ [])

/-- **idle.** After any history, if the loop's ready queue is empty, every pool is in the state `IdlePool`. -/
theorem World.idle_pool (base : Nat) (h : History) (hidle : ((World.init base).run h).ready = [])
    (i : Nat) (c : Cfg) (p : Pool)
    (hc : ((World.init base).run h).cfgs[i]? = some c) (hp : ((World.init base).run h).pools[i]? = some p) :
    IdlePool p := by
  have hw := World.want_run base h i c p hc hp
  have hf := World.idle_no_flag base h hidle i p hp
  have nE : ¬ False := fun h => h
  have tflag : ∀ (t : Nat) (k : PTask), p.tasks[t]? = some k → k.sched = false := by
    intro t k hk
    have := hf (.task t)
    simpa [Pool.flag, hk] using this
  have rflag : ∀ (m : Nat) (r : Req), p.reqs[m]? = some r → r.sched = false := by
    intro m r hr
    have := hf (.spawner m)
    simpa [Pool.flag, hr] using this
  refine ⟨?_, ?_, ?_, ?_⟩
  · intro t k hk
    refine ⟨?_, hw.tw t k hk nE⟩
    cases hq : k.quiet with
    | true => rfl
    | false =>
      have := hw.tq t k hk nE hq
      rw [tflag t k hk] at this
      cases this
  · intro w hwm
    obtain ⟨r, hr, hcl⟩ := hw.pw w hwm
    obtain ⟨_, _, hs⟩ := hcl nE
    cases hst : w.st with
    | pending => rfl
    | granted =>
      have := hs (by rw [hst]; intro e; cases e)
      rw [rflag _ r hr] at this; cases this
    | cancelled =>
      have := hs (by rw [hst]; intro e; cases e)
      rw [rflag _ r hr] at this; cases this
  · intro m r hr w hwm
    obtain ⟨_, hcl⟩ := hw.mw m r hr w hwm
    obtain ⟨_, _, hs⟩ := hcl nE
    cases hst : w.st with
    | pending => rfl
    | granted =>
      have := hs (by rw [hst]; intro e; cases e)
      rw [rflag m r hr] at this; cases this
    | cancelled =>
      have := hs (by rw [hst]; intro e; cases e)
      rw [rflag m r hr] at this; cases this
  · intro m r hr ho
    obtain ⟨h1, h2, h3⟩ := hw.rs m r hr nE ho
    cases hfr : r.frame with
    | notStarted =>
      have := h1 hfr
      rw [rflag m r hr] at this; cases this
    | running => exact absurd hfr h2
    | done => exact absurd hfr h3
    | waitRoom => exact Or.inl ⟨rfl, hw.pe m r hr nE ho hfr⟩
    | waitMapSem => exact Or.inr ⟨rfl, hw.me m r hr nE ho hfr⟩

theorem grantsL_zero_of_pending (ws : List Waiter) (h : ∀ w ∈ ws, w.st = .pending) : grantsL ws = 0 := by
  unfold grantsL
  rw [List.countP_eq_zero]
  intro w hw
  simp [h w hw]

/-- **C02 / C03, the "eventually" clause at rest.** Whenever the loop is idle, a task whose asyncio Task is not done is
suspended inside its worker or inside a coroutine callback on a future that the *environment* still has to complete: no
task is ever left waiting for the pool (no wrapper stuck between its worker and its callbacks, none never begun). -/
theorem C02_idle_tasks_wait_for_user_code_only (base : Nat) (h : History)
    (hidle : ((World.init base).run h).ready = []) (i : Nat) (c : Cfg) (p : Pool)
    (hc : ((World.init base).run h).cfgs[i]? = some c) (hp : ((World.init base).run h).pools[i]? = some p)
    (t : Nat) (k : PTask) (hk : p.tasks[t]? = some k) (hnd : k.outcome = none) :
    (k.phase = .inWorker ∨ k.phase = .inCancelCb ∨ k.phase = .inEndCb) ∧ k.fut = .pending := by
  have hq := ((World.idle_pool base h hidle i c p hc hp).tasks t k hk).1
  simp only [PTask.quiet, hnd, Option.isSome_none, Bool.false_or, Bool.and_eq_true, Bool.or_eq_true, beq_iff_eq] at hq
  exact ⟨by rcases hq.1 with (a | a) | a <;> simp [a], hq.2⟩

/-- **C02: at every idle point the slots in use equal the tasks in flight** — `free + num_running + num_cancelled =
size`, with no "slot on its way" term: the hand-over of a slot schedules the spawner, so an idle loop has none. Histories
without `pool_size` assignment and without `gather_and_close` (known finding R9), any number of concurrent flushes. -/
theorem C02_idle_accounting_exact (base : Nat) (h : History) (hn : h.NoSetSize) (hg : ∀ x ∈ h, x.admits noGac = true)
    (hidle : ((World.init base).run h).ready = []) (i : Nat) (c : Cfg) (p : Pool) (n : Nat)
    (hc : ((World.init base).run h).cfgs[i]? = some c) (hp : ((World.init base).run h).pools[i]? = some p)
    (hsz : c.size0 = .fin n) :
    ∃ v, p.sem.value = .fin v ∧ v + p.running.length + p.cancelledR.length = n := by
  have hl : p.lost = false := (strictAll base h hg i c p hc hp).1
  obtain ⟨v, hv, hs⟩ := C02_idle_accounting base h hn i c p n hc hp hsz hl
  have := grantsL_zero_of_pending _ (World.idle_pool base h hidle i c p hc hp).pend
  exact ⟨v, hv, by omega⟩

/-- **C01, `is_full` at idle — the property's own premise.** In every pool of finite size after every history without an
assignment to `pool_size` and without `gather_and_close`: whenever the loop is idle and no task is in the middle of its
cancel callback, `is_full` is true **exactly when** `num_running` equals the pool size. -/
theorem C01_is_full_iff_at_idle (base : Nat) (h : History) (hn : h.NoSetSize) (hg : ∀ x ∈ h, x.admits noGac = true)
    (hidle : ((World.init base).run h).ready = []) (i : Nat) (c : Cfg) (p : Pool) (n : Nat)
    (hc : ((World.init base).run h).cfgs[i]? = some c) (hp : ((World.init base).run h).pools[i]? = some p)
    (hsz : c.size0 = .fin n) (hcb : p.cancelledR = []) :
    p.isFull = true ↔ p.running.length = n :=
  C01_is_full_iff base h hn hg i c p n hc hp hsz hcb
    (grantsL_zero_of_pending _ (World.idle_pool base h hidle i c p hc hp).pend)

/-- **C05, work conservation at idle.** In every pool of every reachable world: whenever the loop is idle, a map-family
call whose consumer is alive and suspended on the call's own semaphore has **all `num_concurrent` slots held by tasks of
the call that have not yet handed theirs back** — the premises "its waiter entry is pending" and "no wake-up is on its
way" of `C05_work_conserving` follow from idleness. -/
theorem C05_work_conserving_at_idle (base : Nat) (h : History) (hidle : ((World.init base).run h).ready = [])
    (i : Nat) (c : Cfg) (p : Pool)
    (hc : ((World.init base).run h).cfgs[i]? = some c) (hp : ((World.init base).run h).pools[i]? = some p)
    (m : Nat) (r : Req) (hr : p.reqs[m]? = some r) (hlive : r.outcome = none) (hw : r.frame = .waitMapSem) :
    heldM p.tasks m = r.nc := by
  have hi := World.idle_pool base h hidle i c p hc hp
  have hpen := hi.mpend m r hr
  have hne : r.mapSem.waiters ≠ [] := by
    rcases hi.spawners m r hr hlive with ⟨a, _⟩ | ⟨_, b⟩
    · rw [hw] at a; cases a
    · exact b
  obtain ⟨w, hwm⟩ := List.exists_mem_of_ne_nil _ hne
  exact C05_work_conserving base h i c p hc hp m r hr hlive hw ⟨w, hwm, hpen w hwm⟩
    (grantsL_zero_of_pending _ hpen)

end Taskpool
