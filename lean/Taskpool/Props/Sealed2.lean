import Taskpool.Props.Sealed
import Taskpool.Inv.SealInv2
import Taskpool.Inv.ClosedWalk
import Taskpool.Inv.NcWalk
/-! # Pools that nobody unlocks, part 2: progress, requests and the end callbacks — with `gather_and_close()` in the history

* nobody is left waiting and **every call that waits returns** at quiescence (`C02_no_spawner_left_waiting_sealed`,
  `C08_calls_return_at_quiescence_sealed`); a pool is closed exactly when a `gather_and_close()` has returned normally
  (`C08_closed_iff_gac_returned`, every history);
* `gather_and_close()` returns only after **every task of the pool has finished**, callbacks included
  (`C08_every_task_finished_when_closing`), and after every request that was never cancelled has started all its
  invocations / consumed its whole iterable (`C08_requests_complete_when_closing`);
* the quiescence theorems about requests (`C04_all_invocations_at_quiescence_sealed`,
  `C05_every_element_at_quiescence_sealed`);
* neither `flush()` nor `gather_and_close()` forgets a task that is **inside its end callback**
  (`C13_task_in_end_callback_stays_filed`, `C13_flush_forgets_only_finished`). -/
namespace Taskpool
open Pool

theorem sealed2All (base : Nat) (h : History) (hh : ∀ x ∈ h, x.sealOk = true) (i : Nat) (c : Cfg) (p : Pool)
    (hc : ((World.init base).run h).cfgs[i]? = some c) (hp : ((World.init base).run h).pools[i]? = some p) :
    SealedC c p ∧ FinSOK p ∧ EndFiled p ∧ EmptiedOK p := (World.sealed2_run base h hh).inv i c p hc hp

/-! ### progress -/

/-- **no spawner is left behind**, `gather_and_close()` included: whenever the loop is idle and every asyncio Task of the
pool is done, every spawner has finished -/
theorem C02_no_spawner_left_waiting_sealed (base : Nat) (h : History) (hh : ∀ x ∈ h, x.sealOk = true)
    (hidle : ((World.init base).run h).ready = []) (i : Nat) (c : Cfg) (p : Pool)
    (hc : ((World.init base).run h).cfgs[i]? = some c) (hp : ((World.init base).run h).pools[i]? = some p)
    (hsz : c.size0 = .inf ∨ ∃ n, c.size0 = .fin n ∧ 0 < n) (hall : p.AllTasksDone)
    (m : Nat) (r : Req) (hr : p.reqs[m]? = some r) : r.outcome.isSome = true := by
  have hn := h.noSetSize_of_sealOk hh
  have hl := C03_never_lost_sealed base h hh i c p hc hp
  have hi := World.idle_pool base h hidle i c p hc hp
  have hq := quiescent_tasks_core base h i c p hc hp hall hl
  have hnc := (sealed2All base h hh i c p hc hp).2.1.nc1
  have hwn : p.sem.waiters = [] := by
    rcases hsz with e | ⟨n, e, hpos⟩
    · exact (C01_unbounded_never_full base h hn i c p hc hp e).2
    · exact (capacity_back_core base h hn hidle i c p n hc hp e hpos hall hl).2
  cases ho : r.outcome with
  | some o => rfl
  | none =>
    exfalso
    rcases hi.spawners m r hr ho with ⟨_, hm⟩ | ⟨hfr, hne⟩
    · rw [hwn] at hm; simp [owners] at hm
    · have hmap := mapAll base h i c p hc hp
      obtain ⟨v, hv, _, hge⟩ := hmap.le m r hr
      have hacc := ((accAll base h i c p hc hp).rq m r hr)
      have hk : r.kind = .map := by
        cases hkk : r.kind with
        | map => rfl
        | apply => exact absurd hfr ((hacc.1 hkk).2.2)
      have h1 := hnc m r hr hk
      have hM : heldM p.tasks m = 0 := heldM_zero _ m (fun k hk => (hq k hk).2.2)
      have hG := grantsL_zero_of_pending _ (hi.mpend m r hr)
      have hP : r.pend = 0 := by simp [Req.pend, hfr]
      have hvpos : 0 < v := by have := hge ho; omega
      obtain ⟨w, hw⟩ := List.exists_mem_of_ne_nil _ hne
      exact absurd (hi.mpend m r hr w hw) (hmap.wk m r hr v hv hvpos hG w hw)

/-- **every call that waits returns**, `gather_and_close()` included: whenever the loop is idle and every asyncio Task of
the pool is done, every `flush()` and every `gather_and_close()` call has returned, and a call still suspended in
`until_closed()` means that the pool is not closed -/
theorem C08_calls_return_at_quiescence_sealed (base : Nat) (h : History) (hh : ∀ x ∈ h, x.sealOk = true)
    (hidle : ((World.init base).run h).ready = []) (i : Nat) (c : Cfg) (p : Pool)
    (hc : ((World.init base).run h).cfgs[i]? = some c) (hp : ((World.init base).run h).pools[i]? = some p)
    (hsz : c.size0 = .inf ∨ ∃ n, c.size0 = .fin n ∧ 0 < n) (hall : p.AllTasksDone)
    (a : Nat) (A : Api) (hA : p.apis[a]? = some A) :
    A.outcome.isSome = true ∨ (A.frame = .waitClosed ∧ p.closed = false) :=
  C08_calls_return_at_quiescence base h hidle i c p hc hp hall
    (fun m r hr => C02_no_spawner_left_waiting_sealed base h hh hidle i c p hc hp hsz hall m r hr) a A hA

/-- **closed exactly when a `gather_and_close()` has returned normally** — after every history: nothing else closes a
pool, so `until_closed()` waiters are never released earlier; and an `until_closed()` call that has returned has seen
the pool closed -/
theorem C08_closed_iff_gac_returned (base : Nat) (h : History) (i : Nat) (c : Cfg) (p : Pool)
    (hc : ((World.init base).run h).cfgs[i]? = some c) (hp : ((World.init base).run h).pools[i]? = some p) :
    (p.closed = true ↔ ∃ (a : Nat) (A : Api), p.apis[a]? = some A ∧ A.kind.isGac = true ∧ A.outcome = some .ok) ∧
    (∀ (a : Nat) (A : Api), p.apis[a]? = some A → A.kind = .untilClosed → A.outcome.isSome = true → p.closed = true) := by
  have hcl := World.closed_run base h i c p hc hp
  exact ⟨⟨hcl.cg, fun ⟨a, A, hA, hk, ho⟩ => hcl.gc a A hA hk ho⟩, hcl.uc⟩

/-- at quiescence, once a `gather_and_close()` has returned normally: the pool is closed, nothing is filed as running or
cancelled, every task has finished, and every `until_closed()` call has returned -/
theorem C08_closed_at_quiescence_sealed (base : Nat) (h : History) (hh : ∀ x ∈ h, x.sealOk = true)
    (hidle : ((World.init base).run h).ready = []) (i : Nat) (c : Cfg) (p : Pool)
    (hc : ((World.init base).run h).cfgs[i]? = some c) (hp : ((World.init base).run h).pools[i]? = some p)
    (hsz : c.size0 = .inf ∨ ∃ n, c.size0 = .fin n ∧ 0 < n) (hall : p.AllTasksDone)
    (a : Nat) (A : Api) (hA : p.apis[a]? = some A) (hk : A.kind.isGac = true) (ho : A.outcome = some .ok) :
    p.closed = true ∧ p.running = [] ∧ p.cancelledR = [] ∧
    (∀ k ∈ p.tasks, k.phase = .finished ∧ k.released = true) ∧
    (∀ (b : Nat) (B : Api), p.apis[b]? = some B → B.outcome.isSome = true) := by
  have hcl := (World.closed_run base h i c p hc hp).gc a A hA hk ho
  obtain ⟨hl, hreg, _, _⟩ := sealedAll base h hh i c p hc hp
  have hq := quiescent_tasks_core base h i c p hc hp hall hl
  have hrel : ∀ (t : Nat) (tk : PTask), p.tasks[t]? = some tk → tk.released = true :=
    fun t tk ht => (hq tk (List.mem_of_getElem? ht)).2.1
  refine ⟨hcl, ?_, ?_, fun k hk => ⟨(hq k hk).1, (hq k hk).2.1⟩, ?_⟩
  · cases hrun : p.running with
    | nil => rfl
    | cons t ts =>
      obtain ⟨tk, a1, b1⟩ := hreg.run t (by rw [hrun]; simp)
      rw [hrel t tk a1] at b1; cases b1
  · cases hcan : p.cancelledR with
    | nil => rfl
    | cons t ts =>
      obtain ⟨tk, a1, b1, _⟩ := hreg.can t (by rw [hcan]; simp)
      rw [hrel t tk a1] at b1; cases b1
  · intro b B hB
    rcases C08_calls_return_at_quiescence_sealed base h hh hidle i c p hc hp hsz hall b B hB with e | ⟨_, e⟩
    · exact e
    · rw [hcl] at e; cases e

/-- **a closed pool holds no tasks — for good**: in every state after the pool was closed (not only at quiescence) the
three registries are empty and no spawner is filed as running; with `C08_closed_forever` and `C09_closed_rejects_*` this is
"afterwards the pool is closed: it holds no tasks … and every later spawn request raises `PoolIsClosed`" -/
theorem C08_closed_pool_holds_no_tasks (base : Nat) (h : History) (hh : ∀ x ∈ h, x.sealOk = true) (i : Nat) (c : Cfg)
    (p : Pool) (hc : ((World.init base).run h).cfgs[i]? = some c) (hp : ((World.init base).run h).pools[i]? = some p)
    (hcl : p.closed = true) :
    p.running = [] ∧ p.cancelledR = [] ∧ p.ended = [] ∧ ∀ (m : Nat) (r : Req), p.reqs[m]? = some r → r.inRunning = false := by
  obtain ⟨_, _, _, hm⟩ := sealed2All base h hh i c p hc hp
  obtain ⟨a, b, d⟩ := hm.em hcl
  exact ⟨a, b, d, hm.nr hcl⟩

/-! ### what `gather_and_close()` has waited for when it closes the pool -/

/-- **every task of the pool has finished, callbacks included**, when the second gather of a `gather_and_close()` has
completed normally: a task that still holds its slot is filed as running or cancelled, hence awaited (`SealOK.g2`); one
that has handed it back and has not finished is inside its end callback, hence filed as ended (`EndOK.ef`), hence awaited
(`EndOK.ge`); and a gather completes normally only when all its child tasks have finished -/
theorem C08_every_task_finished_when_closing (base : Nat) (h : History) (hh : ∀ x ∈ h, x.sealOk = true) (i : Nat) (c : Cfg)
    (p : Pool) (hc : ((World.init base).run h).cfgs[i]? = some c) (hp : ((World.init base).run h).pools[i]? = some p)
    (a : Nat) (A : Api) (g : Nat) (G : Gather) (hA : p.apis[a]? = some A) (hk : A.kind.isGac = true)
    (hf : A.frame = .gather2 g) (hG : p.gathers[g]? = some G) (ho : G.outer = some .ok) :
    ∀ (t : Nat) (tk : PTask), p.tasks[t]? = some tk → tk.phase = .finished := by
  obtain ⟨⟨hg, hw, hs⟩, _, he, _⟩ := sealed2All base h hh i c p hc hp
  obtain ⟨hfin, hrel⟩ := C08_all_finished_when_closing base h hh i c p hc hp a A g G hA hk hf hG ho
  intro t tk ht
  have hr := hrel t tk ht
  cases hph : tk.phase with
  | finished => rfl
  | created => have := hg.phase t tk ht (by simp [NYR, hph]); rw [hr] at this; cases this
  | inWorker => have := hg.phase t tk ht (by simp [NYR, hph]); rw [hr] at this; cases this
  | inCancelCb => have := hg.phase t tk ht (by simp [NYR, hph]); rw [hr] at this; cases this
  | wrapUp => exact absurd hph (hw.tw t tk ht (fun e => e)).1
  | inEndCb =>
    exfalso
    have hmem := he.ef t tk ht (fun e => e) hph
    obtain ⟨G', hG', hsub⟩ := he.ge a A g hA hf hk
    rw [hG] at hG'; cases hG'
    obtain ⟨tk', a1, b1⟩ := hg.fl.gth g G hG ho t (hsub t hmem)
    rw [ht] at a1; cases a1
    rw [hph] at b1; cases b1

/-- … and **every request that was never cancelled is complete**: from the second gather of a `gather_and_close()` on,
a request whose spawner nobody cancelled has finished normally with nothing left — all `num` invocations started or
skipped, the whole iterable consumed — or its argument iterator raised -/
theorem C08_requests_complete_when_closing (base : Nat) (h : History) (hh : ∀ x ∈ h, x.sealOk = true) (i : Nat) (c : Cfg)
    (p : Pool) (hc : ((World.init base).run h).cfgs[i]? = some c) (hp : ((World.init base).run h).pools[i]? = some p)
    (a : Nat) (A : Api) (g : Nat) (hA : p.apis[a]? = some A) (hk : A.kind.isGac = true) (hf : A.frame = .gather2 g)
    (m : Nat) (r : Req) (hr : p.reqs[m]? = some r) (hnc : r.everCancelled = false) :
    (r.outcome = some .ok ∧ r.remaining = 0 ∧ r.items = [] ∧ (r.kind = .map → r.pulled = r.created + r.skipped)) ∨
      (r.kind = .map ∧ r.outcome = some (.exc (.user 4))) := by
  obtain ⟨⟨_, hw, hs⟩, hfs, _, _⟩ := sealed2All base h hh i c p hc hp
  obtain ⟨_, hdoom, _, _⟩ := C08_second_gather_awaits_everything base h hh i c p hc hp a A g hA hk hf
  cases ho : r.outcome with
  | none =>
    exfalso
    have hev : r.everCancelled = true := by
      rcases hdoom m r hr ho with e | ⟨_, e⟩ | ⟨_, e⟩
      · exact hfs.cg m r hr e
      · obtain ⟨w, hwm, hwo, hst⟩ := removeWaiterL_fst_some m p.sem.waiters .cancelled e
        exact hfs.cw w hwm hst r (by rw [hwo]; exact hr)
      · obtain ⟨w, hwm, _, hst⟩ := removeWaiterL_fst_some m r.mapSem.waiters .cancelled e
        exact hfs.cm m r hr w hwm hst
    rw [hnc] at hev; cases hev
  | some o =>
    rcases hfs.ok m r hr hnc o ho with ⟨e, a1, b1, d1⟩ | ⟨a1, e⟩
    · exact Or.inl ⟨by rw [e], a1, b1, d1⟩
    · exact Or.inr ⟨a1, by rw [e]⟩

/-! ### requests at quiescence -/

theorem quiescent_request_sealed (base : Nat) (h : History) (hh : ∀ x ∈ h, x.sealOk = true)
    (hidle : ((World.init base).run h).ready = []) (i : Nat) (c : Cfg) (p : Pool)
    (hc : ((World.init base).run h).cfgs[i]? = some c) (hp : ((World.init base).run h).pools[i]? = some p)
    (hsz : c.size0 = .inf ∨ ∃ n, c.size0 = .fin n ∧ 0 < n) (hall : p.AllTasksDone)
    (m : Nat) (r : Req) (hr : p.reqs[m]? = some r) (hnc : r.everCancelled = false) :
    (r.outcome = some .ok ∧ r.remaining = 0 ∧ r.items = [] ∧ (r.kind = .map → r.pulled = r.created + r.skipped)) ∨
      (r.kind = .map ∧ r.outcome = some (.exc (.user 4))) := by
  obtain ⟨_, hfs, _, _⟩ := sealed2All base h hh i c p hc hp
  have hsome := C02_no_spawner_left_waiting_sealed base h hh hidle i c p hc hp hsz hall m r hr
  obtain ⟨o, ho⟩ := Option.isSome_iff_exists.mp hsome
  rcases hfs.ok m r hr hnc o ho with ⟨e, a, b, d⟩ | ⟨a, e⟩
  · exact Or.inl ⟨by rw [ho, e], a, b, d⟩
  · exact Or.inr ⟨a, by rw [ho, e]⟩

/-- **C04: no invocation is lost**, also when `lock()` or `gather_and_close()` follow the request (the property's own
clause): at quiescence an `apply` / `start` request that was never cancelled has finished normally and has started (or
skipped, where the call raised) every one of its `num` invocations -/
theorem C04_all_invocations_at_quiescence_sealed (base : Nat) (h : History) (hh : ∀ x ∈ h, x.sealOk = true)
    (hidle : ((World.init base).run h).ready = []) (i : Nat) (c : Cfg) (p : Pool)
    (hc : ((World.init base).run h).cfgs[i]? = some c) (hp : ((World.init base).run h).pools[i]? = some p)
    (hsz : c.size0 = .inf ∨ ∃ n, c.size0 = .fin n ∧ 0 < n) (hall : p.AllTasksDone)
    (m : Nat) (r : Req) (hr : p.reqs[m]? = some r) (hnc : r.everCancelled = false) (hk : r.kind = .apply) :
    r.outcome = some .ok ∧ tasksOf p.tasks m + r.skipped = r.n0 := by
  have hacc := accAll base h i c p hc hp
  have htk := hacc.tk m r hr
  rcases quiescent_request_sealed base h hh hidle i c p hc hp hsz hall m r hr hnc with ⟨e, hrem, _, _⟩ | ⟨hk2, _⟩
  · have h2 : ((r.created + r.skipped + r.remaining : Nat) : Int) = r.n0 + 0 := ((hacc.rq m r hr).1 hk).1
    exact ⟨e, by rw [htk]; omega⟩
  · rw [hk] at hk2; cases hk2

/-- **C05: element-wise with nothing skipped, to the end**, `gather_and_close()` included -/
theorem C05_every_element_at_quiescence_sealed (base : Nat) (h : History) (hh : ∀ x ∈ h, x.sealOk = true)
    (hidle : ((World.init base).run h).ready = []) (i : Nat) (c : Cfg) (p : Pool)
    (hc : ((World.init base).run h).cfgs[i]? = some c) (hp : ((World.init base).run h).pools[i]? = some p)
    (hsz : c.size0 = .inf ∨ ∃ n, c.size0 = .fin n ∧ 0 < n) (hall : p.AllTasksDone)
    (m : Nat) (r : Req) (hr : p.reqs[m]? = some r) (hnc : r.everCancelled = false) (hk : r.kind = .map) :
    (r.outcome = some .ok ∧ r.items = [] ∧ r.pulled = r.n0 ∧ tasksOf p.tasks m + r.skipped = r.n0) ∨
    r.outcome = some (.exc (.user 4)) := by
  have hacc := accAll base h i c p hc hp
  have htk := hacc.tk m r hr
  rcases quiescent_request_sealed base h hh hidle i c p hc hp hsz hall m r hr hnc with ⟨e, _, hit, hpe⟩ | ⟨_, e⟩
  · left
    have a1 := ((hacc.rq m r hr).2 hk).1
    simp only [Req.cnt] at a1
    rw [hit] at a1
    have hpl : r.pulled = r.n0 := by simpa using a1
    have := hpe hk
    exact ⟨e, hit, hpl, by rw [htk]; omega⟩
  · exact Or.inr e

/-- after **every** history: a map-style request was given `num_concurrent ≥ 1` (`map` rejects anything else, and
nothing ever rewrites it) — so a consumer suspended on its own semaphore is never waiting for a slot that cannot exist -/
theorem C05_num_concurrent_positive (base : Nat) (h : History) (i : Nat) (c : Cfg) (p : Pool)
    (hc : ((World.init base).run h).cfgs[i]? = some c) (hp : ((World.init base).run h).pools[i]? = some p)
    (m : Nat) (r : Req) (hr : p.reqs[m]? = some r) (hk : r.kind = .map) : 1 ≤ r.nc :=
  World.nc_run base h i c p hc hp m r hr hk

/-! ### C13 / C03: the end callbacks -/

/-- **a task inside its end callback stays filed as ended** — neither a `flush()` (however many overlap) nor a
`gather_and_close()` forgets it: `cancel(id)` keeps answering `AlreadyEnded`, `num_ended` keeps counting it -/
theorem C13_task_in_end_callback_stays_filed (base : Nat) (h : History) (hh : ∀ x ∈ h, x.sealOk = true) (i : Nat) (c : Cfg)
    (p : Pool) (hc : ((World.init base).run h).cfgs[i]? = some c) (hp : ((World.init base).run h).pools[i]? = some p)
    (t : Nat) (tk : PTask) (ht : p.tasks[t]? = some tk) (hph : tk.phase = .inEndCb) : t ∈ p.ended :=
  (sealed2All base h hh i c p hc hp).2.2.1.ef t tk ht (fun e => e) hph

/-- **`flush()` forgets finished tasks only**: when its second gather has completed normally, every id of its two
snapshots — the ids its last step removes from the registries — belongs to a task that has finished -/
theorem C13_flush_forgets_only_finished (base : Nat) (h : History) (hh : ∀ x ∈ h, x.sealOk = true) (i : Nat) (c : Cfg)
    (p : Pool) (hc : ((World.init base).run h).cfgs[i]? = some c) (hp : ((World.init base).run h).pools[i]? = some p)
    (a : Nat) (A : Api) (g : Nat) (G : Gather) (hA : p.apis[a]? = some A) (hk : A.kind.isGac = false)
    (hf : A.frame = .gather2 g) (hG : p.gathers[g]? = some G) (ho : G.outer = some .ok) :
    ∀ t, t ∈ A.snapE ∨ t ∈ A.snapC → TaskFin p t := by
  obtain ⟨⟨hg, _, _⟩, _, he, _⟩ := sealed2All base h hh i c p hc hp
  intro t ht
  rcases ht with e | e
  · obtain ⟨G', hG', hsub⟩ := he.fe a A g hA hf hk
    rw [hG] at hG'; cases hG'
    exact hg.fl.gth g G hG ho t (hsub t e)
  · obtain ⟨G', hG', hsub⟩ := hg.fl.api a A g hA hf hk
    rw [hG] at hG'; cases hG'
    exact hg.fl.gth g G hG ho t (hsub t e)

end Taskpool
