import Taskpool.Inv.ElemWalk2
import Taskpool.Inv.GoodInv
/-! # C04 / C05 — which arguments each task is called with

After **every** history (`World.elem_run`, `Inv/Elem.lean`): each invocation of an `apply` / `start` request is called
with the request's own arguments; each task of a map-style request is called with one element of the iterable in the
star variant of its own request; and within a request the element indices increase strictly with the task ids — no
element is handed to two tasks and the tasks see the elements in iteration order, however long the consumer had to wait
between pulling an element and creating its task, whatever was skipped, cancelled or requested in between.  Until now
these were monitor clauses (`wrong-arguments`, `wrong-element`, `element-order`). -/
namespace Taskpool
open Pool

/-- **C04**: a task of an `apply` / `start` request was called as `func(*args, **kwargs)` of its request -/
theorem C04_invocation_arguments (base : Nat) (h : History) (i : Nat) (c : Cfg) (p : Pool)
    (hc : ((World.init base).run h).cfgs[i]? = some c) (hp : ((World.init base).run h).pools[i]? = some p)
    (t : Nat) (k : PTask) (r : Req) (ht : p.tasks[t]? = some k) (hr : p.reqs[k.req]? = some r) (hk : r.kind = .apply) :
    k.arg = .apply := by
  have he := World.elem_run base h i c p hc hp
  apply he.ap t k ht
  cases hm : k.isMap with
  | false => rfl
  | true =>
    have := (he.km t k r ht hr).mp hm
    rw [hk] at this; cases this

/-- **C05**: a task of a map-style request was called with one element of the iterable, as `func(x)`, `func(*x)` or
`func(**x)` according to the variant of *its* request, and that element is one the request has already accounted for -/
theorem C05_task_gets_one_element (base : Nat) (h : History) (i : Nat) (c : Cfg) (p : Pool)
    (hc : ((World.init base).run h).cfgs[i]? = some c) (hp : ((World.init base).run h).pools[i]? = some p)
    (t : Nat) (k : PTask) (r : Req) (ht : p.tasks[t]? = some k) (hr : p.reqs[k.req]? = some r) (hk : r.kind = .map) :
    ∃ j, k.arg = .elem r.stars j ∧ j < r.created + r.skipped ∧ j < r.pulled := by
  have he := World.elem_run base h i c p hc hp
  have hm : k.isMap = true := (he.km t k r ht hr).mpr hk
  obtain ⟨r', j, hr', _, ha, hj⟩ := he.el t k ht hm
  rw [hr] at hr'; cases hr'
  refine ⟨j, ha, hj, ?_⟩
  have hacc := ((accAll base h i c p hc hp).rq k.req r hr).2 hk
  have := hacc.2.1
  simp only [Req.cnt] at this
  omega

/-- **C05: each element at most once, in iteration order**: of two tasks of the same request the one with the larger
id was called with a later element — in particular no element is repeated -/
theorem C05_elements_in_order (base : Nat) (h : History) (i : Nat) (c : Cfg) (p : Pool)
    (hc : ((World.init base).run h).cfgs[i]? = some c) (hp : ((World.init base).run h).pools[i]? = some p)
    (t1 t2 : Nat) (k1 k2 : PTask) (s1 s2 j1 j2 : Nat) (hlt : t1 < t2) (h1 : p.tasks[t1]? = some k1)
    (h2 : p.tasks[t2]? = some k2) (hreq : k1.req = k2.req) (a1 : k1.arg = .elem s1 j1) (a2 : k2.arg = .elem s2 j2) :
    j1 < j2 :=
  (World.elem_run base h i c p hc hp).ord t1 t2 k1 k2 s1 s2 j1 j2 hlt h1 h2 hreq a1 a2

/-! Non-vacuity: `starmap` over four elements of which the second one's call raises, `num_concurrent = 1`, pool of size 1:
three tasks, called with elements 0, 2, 3 in that order. -/
def Elements_demo : History :=
  [.mkpool (some 1) none none,
   .on 0 [] (.map 1 [⟨false, false⟩, ⟨true, false⟩, ⟨false, false⟩, ⟨false, false⟩] 1 none gatedSpec),
   .run 0 [], .run 0 [], .on 0 [] (.gate 0 .ok), .run 0 [], .run 0 [], .run 0 [],
   .on 0 [] (.gate 1 .ok), .run 0 [], .run 0 [], .run 0 [], .on 0 [] (.gate 2 .ok), .run 0 [], .run 0 []]

example : (((World.init 0).run Elements_demo).pools.map fun p => p.tasks.map (·.arg)) =
    [[ArgD.elem 1 0, ArgD.elem 1 2, ArgD.elem 1 3]] := by decide +kernel

end Taskpool
