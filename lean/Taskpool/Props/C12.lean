import Taskpool.Props.C13
import Taskpool.Props.C07
import Taskpool.Inv.GoodInv
/-! # C12 — A failing task or callback harms only itself

Proved here: a worker that raises goes through exactly the same ending path as one that returns — its slot is
handed back and it is filed as ended — and a collecting `flush`/`gather_and_close` cannot raise.  Slot conservation
under *every* outcome (worker exception, raising call site, raising callbacks) is C02's theorem, which quantifies
over all histories including the failing ones.  The two-run noninterference statement of DESIGN §5 is checked as a
metamorphic monitor on the real code, not proved. -/
namespace Taskpool
open Pool

/-- whatever the worker's outcome (`e = none`: returned, `e = some x`: raised `x`), the step that ends the worker
goes through the same `_task_ending` path and preserves every invariant: slot conservation (the slot is handed back
exactly once), the registries, the groups and the callback life cycle -/
theorem C12_failure_same_invariants {cap : Cap} {L R : Bool} (p : Pool) (t : Nat) (e : Option Err) (hg : Good cap L R p) (s : SoftP)
    (hc : p.Cur t s) (hph : s.phase = .inWorker) : Good cap L R (p.afterWorker t e) :=
  good_afterWorker p t e hg s hc (inWork_of hc hg (Or.inr hph))

/-- **every task that finishes has handed back its slot**, in every pool after every history (any sizes, failures,
cancellations, `pool_size` assignments), as long as nothing was `lost` (no `KeyError` in a wrapper, DESIGN §4.3) -/
theorem C12_finished_released (base : Nat) (h : History) (i : Nat) (c : Cfg) (p : Pool)
    (hc : ((World.init base).run h).cfgs[i]? = some c) (hp : ((World.init base).run h).pools[i]? = some p)
    (hl : p.lost = false) (t : Nat) (tk : PTask) (ht : p.tasks[t]? = some tk) (hf : tk.phase = .finished) :
    tk.released = true := by
  have := (lifeAll base h i c p hc hp) t tk ht
  rw [hl] at this
  exact (this.fin hf rfl).1

/-- the same with the hypothesis discharged, for every history without `gather_and_close` (any number of concurrent `flush` calls included):
whatever fails — workers, call sites, callbacks — every finished task has handed back its slot -/
theorem C12_finished_released_all (base : Nat) (h : History) (hn : ∀ x ∈ h, x.admits noGac = true) (i : Nat) (c : Cfg)
    (p : Pool) (hc : ((World.init base).run h).cfgs[i]? = some c) (hp : ((World.init base).run h).pools[i]? = some p)
    (t : Nat) (tk : PTask) (ht : p.tasks[t]? = some tk) (hf : tk.phase = .finished) : tk.released = true :=
  C12_finished_released base h i c p hc hp (strictAll base h hn i c p hc hp).1 t tk ht hf

/-- a collecting `flush()` / `gather_and_close()` (`return_exceptions=True`) cannot raise: its gathers complete only
normally (restated from C13) -/
theorem C12_collect_never_raises (G : Gather) (co : Option Outcome) (h : G.retExc = true) :
    gatherVerdict G co = none ∨ gatherVerdict G co = some .ok := C13_re_verdict G co h

/-- without `return_exceptions` the exception a gather reports is the outcome of one of its children — a task's or
a spawner's own exception, never one made up by the pool -/
theorem C12_reported_exception_is_a_childs (G : Gather) (co : Option Outcome) (e : Err)
    (h : gatherVerdict G co = some (.exc e)) : co = some (.exc e) := by
  unfold gatherVerdict at h
  split at h
  · simp at h
  · split at h
    · rename_i e' heq
      simp only [Prod.mk.injEq] at heq
      simp only [Option.some.injEq, Outcome.exc.injEq] at h
      rw [heq.2, h]
    · split at h <;> simp at h

end Taskpool
