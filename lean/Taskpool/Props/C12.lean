import Taskpool.Props.C13
import Taskpool.Props.C07
/-! # C12 — A failing task or callback harms only itself

Proved here: a worker that raises goes through exactly the same ending path as one that returns — its slot is
handed back and it is filed as ended — and a collecting `flush`/`gather_and_close` cannot raise.  Slot conservation
under *every* outcome (worker exception, raising call site, raising callbacks) is C02's theorem, which quantifies
over all histories including the failing ones.  The two-run noninterference statement of DESIGN §5 is checked as a
metamorphic monitor on the real code, not proved. -/
namespace Taskpool
open Pool

/-- whatever the worker's outcome (`e = none`: returned, `e = some x`: raised `x`), a task that is filed as running
ends up released and filed as ended by the same step -/
theorem C12_failure_releases_slot {cap : Cap} (p : Pool) (t : Nat) (e : Option Err) (hg : Good cap p)
    (hu : p.Unreleased t) (hr : t ∈ p.running) :
    ∃ tk', (p.afterWorker t e).tasks[t]? = some tk' ∧ tk'.released = true ∧ t ∈ (p.afterWorker t e).ended ∧
      t ∉ (p.afterWorker t e).running := by
  obtain ⟨tk, htk, hrel⟩ := hu
  -- both branches: log, enter wrapUp, then `_task_ending`
  have key : ∀ (q : Pool) (tk0 : PTask), q.tasks[t]? = some tk0 → t ∈ q.running → q.running.Nodup →
      ∃ tk', (q.taskEnding t).tasks[t]? = some tk' ∧ tk'.released = true ∧ t ∈ (q.taskEnding t).ended ∧
        t ∉ (q.taskEnding t).running := by
    intro q tk0 h0 hrun hnd
    unfold taskEnding
    simp only [h0]
    have hm : q.moveToEnded t = some { q with running := q.running.erase t, ended := q.ended ++ [t] } := by
      unfold moveToEnded; simp [hrun]
    simp only [hm]
    unfold endingTail
    generalize hq1 : (({ q with running := q.running.erase t, ended := q.ended ++ [t] } : Pool).releasePool.modTask t
      fun k => { k with released := true }) = q1
    have hq1t : q1.tasks[t]? = some { tk0 with released := true } := by
      subst hq1
      simp only [modTask_tasks]
      rw [releasePool_tasks]
      exact getElem?_modify_eq _ _ _ _ h0
    have hreg := releasePool_regs ({ q with running := q.running.erase t, ended := q.ended ++ [t] } : Pool)
    have hq1e : q1.ended = q.ended ++ [t] := by subst hq1; exact hreg.2.2.1
    have hq1r : q1.running = q.running.erase t := by subst hq1; exact hreg.1
    have tm := tame_endCallback q1 t tk0
    obtain ⟨tk', a', b', _⟩ := tm.back t _ hq1t
    refine ⟨tk', a', by rw [b'], by rw [tm.fin, hq1e]; simp, ?_⟩
    rw [tm.run, hq1r]
    exact fun hmem => (List.Nodup.mem_erase_iff hnd).mp hmem |>.1 rfl
  have hnd : p.running.Nodup := (List.nodup_append.mp (List.nodup_append.mp hg.reg.nd).1).1
  unfold afterWorker
  split
  · exact key _ _ (by simp only [modTask_tasks, logEv_tasks]; exact getElem?_modify_eq _ _ _ _ htk) hr hnd
  · exact key _ _ (by simp only [modTask_tasks, logEv_tasks]; exact getElem?_modify_eq _ _ _ _ htk) hr hnd

/-- a collecting `flush()` / `gather_and_close()` (`return_exceptions=True`) cannot raise: its gathers complete only
normally (restated from C13) -/
theorem C12_collect_never_raises (G : Gather) (co : Option Outcome) (h : G.retExc = true) :
    gatherVerdict G co = none ∨ gatherVerdict G co = some .ok := C13_re_verdict G co h

/-- without `return_exceptions` the exception a gather reports is the outcome of one of its children — a task's or
a spawner's own exception, never one made up by the pool -/
theorem C12_reported_exception_is_a_childs (G : Gather) (co : Option Outcome) (e : Err)
    (h : gatherVerdict G co = some (.exc e)) : co = some (.exc e) := by
  unfold gatherVerdict at h
  split at h
  · simp at h
  · split at h
    · rename_i e' heq
      simp only [Prod.mk.injEq] at heq
      simp only [Option.some.injEq, Outcome.exc.injEq] at h
      rw [heq.2, h]
    · split at h <;> simp at h

end Taskpool
