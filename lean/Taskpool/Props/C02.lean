import Taskpool.Inv.Count
/-! # C02 — No task and no capacity is ever lost -/
namespace Taskpool

/-- **slot conservation**: in every reachable state of a pool of size `n` (any history without an assignment to
`pool_size`, any schedule), free slots + slots held by tasks that have not yet handed theirs back + slots already
granted to a waiting spawner = `n`.  No step creates or destroys capacity; a slot is handed back by exactly the
step that marks the task `released`. -/
theorem C02_slot_conservation (base : Nat) (h : History) (hn : ∀ x ∈ h, x.admits noSetSize = true)
    (i : Nat) (c : Cfg) (p : Pool) (n : Nat)
    (hc : ((World.init base).run h).cfgs[i]? = some c) (hp : ((World.init base).run h).pools[i]? = some p)
    (hsz : c.size0 = .fin n) :
    ∃ v, p.sem.value = .fin v ∧ v + heldL p.tasks + grantsL p.sem.waiters = n :=
  (goodFin base h hn i c p n hc hp hsz).slot

/-- a task inside its worker or inside its cancel callback (or not yet begun) still holds its slot: capacity is
handed back only on the way out, never while the task counts as running or cancelled -/
theorem C02_slot_held_until_ending (base : Nat) (h : History) (hn : ∀ x ∈ h, x.admits noSetSize = true)
    (i : Nat) (c : Cfg) (p : Pool) (n : Nat) (t : Nat) (tk : PTask)
    (hc : ((World.init base).run h).cfgs[i]? = some c) (hp : ((World.init base).run h).pools[i]? = some p)
    (hsz : c.size0 = .fin n) (ht : p.tasks[t]? = some tk)
    (hph : tk.phase = .created ∨ tk.phase = .inWorker ∨ tk.phase = .inCancelCb) : tk.released = false := by
  have hg := goodFin base h hn i c p n hc hp hsz
  apply hg.phase t tk ht
  rcases hph with h | h | h <;> simp [NYR, h]

/-- once nothing is in flight, all `n` slots are free again -/
theorem C02_capacity_restored (base : Nat) (h : History) (hn : ∀ x ∈ h, x.admits noSetSize = true)
    (i : Nat) (c : Cfg) (p : Pool) (n : Nat)
    (hc : ((World.init base).run h).cfgs[i]? = some c) (hp : ((World.init base).run h).pools[i]? = some p)
    (hsz : c.size0 = .fin n) (hall : ∀ tk ∈ p.tasks, tk.released = true)
    (hw : ∀ w ∈ p.sem.waiters, w.st ≠ .granted) : p.sem.value = .fin n := by
  obtain ⟨v, hv, hs⟩ := C02_slot_conservation base h hn i c p n hc hp hsz
  have h1 : heldL p.tasks = 0 := by
    unfold heldL; rw [List.countP_eq_zero]; intro tk htk; simp [hall tk htk]
  have h2 : grantsL p.sem.waiters = 0 := by
    unfold grantsL; rw [List.countP_eq_zero]; intro w hwm; simpa using hw w hwm
  rw [hv]; congr; omega

/-- **slots in use = tasks in flight.** In every reachable state in which no task was `lost` (no `KeyError` in a
wrapper, no `flush`/`gather_and_close` that dropped an unfinished task — the ghost bit the driver prints and the
correspondence check watches), the slots not free are exactly the tasks filed as running or cancelled, plus
slots already granted to a spawner that has not yet been scheduled:
`free + granted + num_running + num_cancelled = size`. -/
theorem C02_idle_accounting (base : Nat) (h : History) (hn : ∀ x ∈ h, x.admits noSetSize = true)
    (i : Nat) (c : Cfg) (p : Pool) (n : Nat)
    (hc : ((World.init base).run h).cfgs[i]? = some c) (hp : ((World.init base).run h).pools[i]? = some p)
    (hsz : c.size0 = .fin n) (hl : p.lost = false) :
    ∃ v, p.sem.value = .fin v ∧ v + grantsL p.sem.waiters + p.running.length + p.cancelledR.length = n := by
  have hg := goodFin base h hn i c p n hc hp hsz
  obtain ⟨v, hv, hs⟩ := hg.slot
  have h1 := inflight_le_held p hg.reg
  have h2 := held_le_inflight p hg.reg hl
  exact ⟨v, hv, by omega⟩

/-- the same with the hypothesis discharged: in every history without `gather_and_close` (any number of concurrent `flush` calls included)
(and without resizes) nothing is ever lost, so **slots in use = tasks in flight** in every reachable state -/
theorem C02_idle_accounting_all (base : Nat) (h : History) (hn : ∀ x ∈ h, x.admits noSetSize = true)
    (ha : ∀ x ∈ h, x.admits noGac = true) (i : Nat) (c : Cfg) (p : Pool) (n : Nat)
    (hc : ((World.init base).run h).cfgs[i]? = some c) (hp : ((World.init base).run h).pools[i]? = some p)
    (hsz : c.size0 = .fin n) :
    ∃ v, p.sem.value = .fin v ∧ v + grantsL p.sem.waiters + p.running.length + p.cancelledR.length = n :=
  C02_idle_accounting base h hn i c p n hc hp hsz (strictAll base h ha i c p hc hp).1

/-- every task filed as ended has handed back its slot; every task filed as running or cancelled still holds it -/
theorem C02_registry_vs_slot (base : Nat) (h : History) (hn : ∀ x ∈ h, x.admits noSetSize = true)
    (i : Nat) (c : Cfg) (p : Pool) (n : Nat)
    (hc : ((World.init base).run h).cfgs[i]? = some c) (hp : ((World.init base).run h).pools[i]? = some p)
    (hsz : c.size0 = .fin n) :
    (∀ t ∈ p.ended, ∃ tk : PTask, p.tasks[t]? = some tk ∧ tk.released = true) ∧
    (∀ t ∈ p.running, ∃ tk : PTask, p.tasks[t]? = some tk ∧ tk.released = false) ∧
    (∀ t ∈ p.cancelledR, ∃ tk : PTask, p.tasks[t]? = some tk ∧ tk.released = false) := by
  have hg := goodFin base h hn i c p n hc hp hsz
  exact ⟨hg.reg.fin, hg.reg.run, fun t ht => by obtain ⟨tk, a, b, _⟩ := hg.reg.can t ht; exact ⟨tk, a, b⟩⟩

end Taskpool
