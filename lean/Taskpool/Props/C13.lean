import Taskpool.Props.C06
import Taskpool.Inv.GoodInv
/-! # C13 — flush forgets finished tasks only -/
namespace Taskpool
open Pool

/-- **what the last step of `flush` forgets, exactly**: the ids it had snapshotted before its second gather — an
id that entered the ended or cancelled registry while `flush` was waiting stays; the running registry, every task
record and the semaphore are untouched -/
theorem C13_forgets_only_awaited (p : Pool) (a : Nat) :
    let A := p.apis[a]?.getD default
    (p.flushAfter2 a .ok).ended = p.ended.filter (fun t => !(A.snapE.contains t || A.snapC.contains t)) ∧
    (p.flushAfter2 a .ok).cancelledR = p.cancelledR.filter (fun t => !A.snapC.contains t) ∧
    (p.flushAfter2 a .ok).running = p.running ∧ (p.flushAfter2 a .ok).tasks = p.tasks ∧
    (p.flushAfter2 a .ok).sem = p.sem := by
  exact ⟨rfl, rfl, rfl, rfl, rfl⟩

/-- an id that was not in the snapshot is still remembered afterwards -/
theorem C13_later_ids_stay (p : Pool) (a : Nat) (t : Nat)
    (h : ((p.apis[a]?.getD default).snapE.contains t || (p.apis[a]?.getD default).snapC.contains t) = false) :
    (t ∈ p.ended → t ∈ (p.flushAfter2 a .ok).ended) ∧ (t ∈ p.cancelledR → t ∈ (p.flushAfter2 a .ok).cancelledR) := by
  obtain ⟨h1, h2, _⟩ := C13_forgets_only_awaited p a
  simp only [Bool.or_eq_false_iff] at h
  constructor
  · intro ht; rw [h1]; exact List.mem_filter.mpr ⟨ht, by rw [h.1, h.2]; rfl⟩
  · intro ht; rw [h2]; exact List.mem_filter.mpr ⟨ht, by rw [h.2]; rfl⟩

/-- every id that was in the snapshot is unknown afterwards: it no longer counts as ended, and `cancel(id)`
answers InvalidTaskID unless the id is (still) running -/
theorem C13_snapshot_forgotten (p : Pool) (a : Nat) (t : Nat)
    (h : (p.apis[a]?.getD default).snapE.contains t = true ∨ (p.apis[a]?.getD default).snapC.contains t = true) :
    t ∉ (p.flushAfter2 a .ok).ended := by
  obtain ⟨h1, _⟩ := C13_forgets_only_awaited p a
  rw [h1]
  intro hm
  have := (List.mem_filter.mp hm).2
  rcases h with h | h <;> rw [h] at this <;> simp at this

/-- a failing flush (its gather raised) forgets nothing -/
theorem C13_failure_forgets_nothing (p : Pool) (a : Nat) (o : Outcome) (ho : o ≠ .ok) :
    (p.flushAfter2 a o).ended = p.ended ∧ (p.flushAfter2 a o).cancelledR = p.cancelledR ∧
    (p.flushAfter2 a o).running = p.running := by
  unfold flushAfter2
  split
  · exact absurd rfl ho
  · exact ⟨rfl, rfl, rfl⟩

/-- **`flush(return_exceptions=True)` never raises**: a gather that collects exceptions can only complete normally -/
theorem C13_re_verdict (G : Gather) (co : Option Outcome) (h : G.retExc = true) :
    gatherVerdict G co = none ∨ gatherVerdict G co = some .ok := by
  unfold gatherVerdict
  simp only [h, Bool.not_true, Bool.false_and, Bool.false_eq_true, if_false]
  split
  · exact Or.inr rfl
  · exact Or.inl rfl

/-- the snapshot is taken from the registries as they are when the second gather starts, and the children of that
gather are exactly the snapshotted tasks (nothing that is still running is awaited or forgotten) -/
theorem C13_running_never_in_snapshot (p : Pool) (hnd : (p.running ++ p.cancelledR ++ p.ended).Nodup) (t : Nat)
    (ht : t ∈ p.running) : t ∉ p.ended ∧ t ∉ p.cancelledR := by
  have := nodup3_mem_disj hnd t
  exact ⟨(this.1 ht).2, (this.1 ht).1⟩

/-! Non-vacuity: a finished task is forgotten by a flush that started after it ended. -/
def C13_demo : History :=
  [.mkpool (some 1) none none,
   .on 0 [] (.apply 1 none { Pool.gatedSpec with ws := { mode := .retNow, swallow := false } }),
   .run 0 [], .run 0 [], .on 0 [] (.flush true), .run 0 []]

example : (((World.init 0).run C13_demo).pools.map fun p => (p.ended, p.tasks.length, p.apis.map (·.outcome))) =
    [([], 1, [some Outcome.ok])] := by decide +kernel

/-- **`flush` never forgets a task that is still running or still inside its callbacks** — in every pool after every
history without `gather_and_close`, with any number of overlapping `flush()` calls landing anywhere relative to tasks
ending, being cancelled and sitting in slow callbacks: a task that has not yet handed back its slot is still counted as
running or as cancelled (so `cancel()` still knows it), and no wrapper ever missed its registry entry. The proof goes
through the invariant that a `flush` suspended in its second gather awaits every task of its cancelled-registry
snapshot and that a gather completes normally only when all its child tasks have finished (`FlushOK`, DESIGN §4.3). -/
theorem C13_never_forgets_unfinished (base : Nat) (h : History) (hn : ∀ x ∈ h, x.admits noGac = true) (i : Nat) (c : Cfg)
    (p : Pool) (hc : ((World.init base).run h).cfgs[i]? = some c) (hp : ((World.init base).run h).pools[i]? = some p) :
    p.lost = false ∧
    ∀ (t : Nat) (tk : PTask), p.tasks[t]? = some tk → tk.released = false → t ∈ p.running ∨ t ∈ p.cancelledR := by
  obtain ⟨hl, hr, _⟩ := strictAll base h hn i c p hc hp
  exact ⟨hl, fun t tk ht hrel => hr.cpl hl t tk ht hrel⟩

end Taskpool
