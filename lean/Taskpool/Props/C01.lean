import Taskpool.Inv.Count
import Taskpool.Props.C02
/-! # C01 — Pool size is never exceeded

Only property theorems, their non-vacuity examples and refutation witnesses live in `Props/`. -/
namespace Taskpool

/-- a history in which no assignment to `pool_size` occurs ("pool size fixed while tasks are in flight") -/
def History.NoSetSize (h : History) : Prop := ∀ x ∈ h, x.admits noSetSize = true

/-- **C01 (first clause).** For every pool size `n`, both pool classes, any number of pools in the loop, every
history without an assignment to `pool_size` — any interleaving of requests, completions, failures, cancellations,
flushes and closes, placed between any two handles or inside any user code the pool runs, with handles executed in
*any* order — at no instant do more than `n` workers run in a pool of size `n`. -/
theorem C01_live_le_size (base : Nat) (h : History) (hn : h.NoSetSize)
    (i : Nat) (c : Cfg) (p : Pool) (n : Nat)
    (hc : ((World.init base).run h).cfgs[i]? = some c) (hp : ((World.init base).run h).pools[i]? = some p)
    (hsz : c.size0 = .fin n) : p.live ≤ n := by
  have hg := goodFin base h hn i c p n hc hp hsz
  obtain ⟨v, _, hs⟩ := hg.slot
  have := live_le_held _ hg.phase
  omega

/-- **C01 (reported count).** Under the same quantifier the reported `num_running` — even together with
`num_cancelled`, the tasks sitting in their cancel callback — never exceeds the size. -/
theorem C01_running_le_size (base : Nat) (h : History) (hn : h.NoSetSize)
    (i : Nat) (c : Cfg) (p : Pool) (n : Nat)
    (hc : ((World.init base).run h).cfgs[i]? = some c) (hp : ((World.init base).run h).pools[i]? = some p)
    (hsz : c.size0 = .fin n) : p.running.length + p.cancelledR.length ≤ n := by
  have hg := goodFin base h hn i c p n hc hp hsz
  obtain ⟨v, _, hs⟩ := hg.slot
  have := inflight_le_held p hg.reg
  omega

/-- **C01 (default = unbounded).** A pool constructed without a size is never full: its semaphore stays unbounded
and nobody ever has to wait for room. -/
theorem C01_unbounded_never_full (base : Nat) (h : History) (hn : h.NoSetSize)
    (i : Nat) (c : Cfg) (p : Pool)
    (hc : ((World.init base).run h).cfgs[i]? = some c) (hp : ((World.init base).run h).pools[i]? = some p)
    (hsz : c.size0 = .inf) : p.isFull = false ∧ p.sem.waiters = [] := by
  obtain ⟨hv, hw⟩ := (goodInf base h hn i c p hc hp hsz).slot
  exact ⟨by simp [Pool.isFull, Sem.locked, hv, hw, Cap.isZero], hw⟩

/-- **C01 (`is_full`, one direction).** Whenever as many tasks count as running as the pool has slots, `is_full` is
true (nothing `lost`, DESIGN §4.3 — discharged by `C03_never_lost` for histories without background calls). The
converse — a pool below capacity at an idle point is not full — needs the semaphore's no-lost-wake-up invariant and
is checked as a monitor on the real code (`is_full-at-idle`). -/
theorem C01_full_at_capacity (base : Nat) (h : History) (hn : h.NoSetSize)
    (i : Nat) (c : Cfg) (p : Pool) (n : Nat)
    (hc : ((World.init base).run h).cfgs[i]? = some c) (hp : ((World.init base).run h).pools[i]? = some p)
    (hsz : c.size0 = .fin n) (hl : p.lost = false) (hfull : p.running.length = n) : p.isFull = true := by
  obtain ⟨v, hv, hs⟩ := C02_idle_accounting base h hn i c p n hc hp hsz hl
  have : v = 0 := by omega
  subst this
  simp [Pool.isFull, Sem.locked, hv, Cap.isZero]

/-- the argument of `C01_is_full_iff`, for any state in which no task was lost -/
theorem C01_is_full_iff_core (base : Nat) (h : History) (hn : h.NoSetSize)
    (i : Nat) (c : Cfg) (p : Pool) (n : Nat)
    (hc : ((World.init base).run h).cfgs[i]? = some c) (hp : ((World.init base).run h).pools[i]? = some p)
    (hsz : c.size0 = .fin n) (hcb : p.cancelledR = []) (hgr : grantsL p.sem.waiters = 0) (hl : p.lost = false) :
    p.isFull = true ↔ p.running.length = n := by
  refine ⟨?_, C01_full_at_capacity base h hn i c p n hc hp hsz hl⟩
  intro hfull
  obtain ⟨v, hv, hs⟩ := C02_idle_accounting base h hn i c p n hc hp hsz hl
  rw [hcb, hgr] at hs
  simp only [List.length_nil] at hs
  rcases Nat.eq_zero_or_pos v with rfl | hpos
  · omega
  · exfalso
    have hgood := goodFin base h hn i c p n hc hp hsz
    have hnp := hgood.wk (hgood.rz rfl) v hv hpos hgr
    have hng : ∀ w ∈ p.sem.waiters, w.st ≠ .granted := by
      intro w hw e
      have : 0 < grantsL p.sem.waiters := by
        unfold grantsL; exact List.countP_pos_iff.mpr ⟨w, hw, by simp [e]⟩
      omega
    have hall : p.sem.waiters.any (fun w => w.st != .cancelled) = false := by
      rw [List.any_eq_false]
      intro w hw
      have a := hnp w hw
      have b := hng w hw
      cases hst : w.st <;> simp_all
    have hz : v ≠ 0 := by omega
    have : p.isFull = false := by
      unfold Pool.isFull Sem.locked
      rw [hv, hall]
      cases v with
      | zero => exact absurd rfl hz
      | succ k => rfl
    rw [this] at hfull; cases hfull

/-- **C01 (`is_full`, both directions).** In every pool of finite size after every history without an assignment to
`pool_size` and without `gather_and_close`: at any point where no task sits in its cancel callback
(`num_cancelled = 0`) and no spawner has been handed a slot it has not picked up yet (true whenever the loop is idle:
the hand-over schedules the spawner), `is_full` is true **exactly when** `num_running` equals the pool size. The
direction "not at capacity ⇒ not full" rests on the semaphore's no-lost-wake-up invariant (`WakeOK`, DESIGN §4.3). -/
theorem C01_is_full_iff (base : Nat) (h : History) (hn : h.NoSetSize) (hg : ∀ x ∈ h, x.admits noGac = true)
    (i : Nat) (c : Cfg) (p : Pool) (n : Nat)
    (hc : ((World.init base).run h).cfgs[i]? = some c) (hp : ((World.init base).run h).pools[i]? = some p)
    (hsz : c.size0 = .fin n) (hcb : p.cancelledR = []) (hgr : grantsL p.sem.waiters = 0) :
    p.isFull = true ↔ p.running.length = n :=
  C01_is_full_iff_core base h hn i c p n hc hp hsz hcb hgr (strictAll base h hg i c p hc hp).1

/-- size 0: nothing may ever start -/
theorem C01_zero_starts_nothing (base : Nat) (h : History) (hn : h.NoSetSize) (i : Nat) (c : Cfg) (p : Pool)
    (hc : ((World.init base).run h).cfgs[i]? = some c) (hp : ((World.init base).run h).pools[i]? = some p)
    (hsz : c.size0 = .fin 0) : p.live = 0 := by
  have := C01_live_le_size base h hn i c p 0 hc hp hsz
  omega

/-! Non-vacuity: a concrete history (size-1 pool, `apply num=2` of a gated worker, three handles) reaches a state
with a live worker, a blocked spawner and a full pool — the hypotheses are satisfiable and the bound is tight. -/
def C01_demo : History :=
  [.mkpool (some 1) none none,
   .on 0 [] (.apply 2 none Pool.gatedSpec),
   .run 0 [], .run 0 [], .run 0 []]

example : (((World.init 0).run C01_demo).pools.map Pool.live) = [1] := by decide +kernel
example : (((World.init 0).run C01_demo).pools.map Pool.isFull) = [true] := by decide +kernel
example : ∀ x ∈ C01_demo, x.admits noSetSize = true := by decide
example : ∀ x ∈ C01_demo, x.admits noGac = true := by decide
/-- the hypotheses of `C01_is_full_iff` hold in that state (one running task = size 1, the second invocation waits):
nobody in a cancel callback, no slot on its way to a spawner, a *pending* waiter in the queue -/
example : (((World.init 0).run C01_demo).pools.map fun p =>
    (p.cancelledR.length, grantsL p.sem.waiters, p.running.length, p.sem.waiters.length)) = [(0, 0, 1, 1)] := by
  decide +kernel

end Taskpool
