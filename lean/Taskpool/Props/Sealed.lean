import Taskpool.Inv.SealInv
import Taskpool.Props.C02
import Taskpool.Props.C03
import Taskpool.Props.C12
import Taskpool.Props.Quiescence
/-! # Pools that nobody unlocks: the theorems of C02 / C03 / C08 / C12 / C13 with `gather_and_close()` in the history

Until now "no task is ever lost" (`lost = false`: no wrapper misses its registry entry, no `flush` / `gather_and_close`
drops a task that still holds its slot) was a theorem for histories **without** `gather_and_close` and a watched
hypothesis otherwise — because of known finding R9 (`unlock()` while a `gather_and_close()` is pending).  The theorems
below discharge it for every history in which nobody calls `unlock()` — neither the caller nor user code run by the pool
— and `pool_size` is not assigned (`WOp.sealOk`): any number of `gather_and_close()` and `flush()` calls, overlapping in
any way, with cancellations, failures, locks and requests from user code anywhere.  That is the documented way to use
`gather_and_close()`; R9 is exactly the complement.

They rest on `World.sealed_run` (`Inv/SealInv.lean`): `Good` in its strict variant ∧ `Want` ∧ `Seal` in every pool of
every reachable world. -/
namespace Taskpool
open Pool

theorem WOp.sealOk_noSetSize (x : WOp) (h : x.sealOk = true) : x.admits noSetSize = true := by
  cases x with
  | mkpool _ _ _ => rfl
  | on i orders op =>
    simp only [WOp.sealOk, Op.sealOk, Bool.and_eq_true] at h
    simpa [WOp.admits, noSetSize] using h.2
  | run _ _ => rfl

/-- **no task is ever lost**, `gather_and_close()` included -/
theorem C03_never_lost_sealed (base : Nat) (h : History) (hh : ∀ x ∈ h, x.sealOk = true) (i : Nat) (c : Cfg) (p : Pool)
    (hc : ((World.init base).run h).cfgs[i]? = some c) (hp : ((World.init base).run h).pools[i]? = some p) :
    p.lost = false := (sealedAll base h hh i c p hc hp).1

/-- **slots in use = tasks in flight** in every reachable state, `gather_and_close()` included:
`free + granted + num_running + num_cancelled = size` -/
theorem C02_idle_accounting_sealed (base : Nat) (h : History) (hh : ∀ x ∈ h, x.sealOk = true)
    (i : Nat) (c : Cfg) (p : Pool) (n : Nat)
    (hc : ((World.init base).run h).cfgs[i]? = some c) (hp : ((World.init base).run h).pools[i]? = some p)
    (hsz : c.size0 = .fin n) :
    ∃ v, p.sem.value = .fin v ∧ v + grantsL p.sem.waiters + p.running.length + p.cancelledR.length = n :=
  C02_idle_accounting base h (fun x hx => x.sealOk_noSetSize (hh x hx)) i c p n hc hp hsz
    (C03_never_lost_sealed base h hh i c p hc hp)

/-- every finished task has entered each callback it owes **exactly once** -/
theorem C03_exactly_once_sealed (base : Nat) (h : History) (hh : ∀ x ∈ h, x.sealOk = true) (i : Nat) (c : Cfg)
    (p : Pool) (hc : ((World.init base).run h).cfgs[i]? = some c) (hp : ((World.init base).run h).pools[i]? = some p)
    (t : Nat) (tk : PTask) (ht : p.tasks[t]? = some tk) (hf : tk.phase = .finished) :
    tk.nEC = (if tk.endCb = .none then 0 else 1) ∧
    (tk.wasCancelled = true → tk.nCC = (if tk.cancelCb = .none then 0 else 1)) ∧
    (tk.wasCancelled = false → tk.nCC = 0) :=
  C03_exactly_once base h i c p hc hp (C03_never_lost_sealed base h hh i c p hc hp) t tk ht hf

/-- the registries are complete: a task that has not handed back its slot counts as running or as cancelled -/
theorem C03_complete_sealed (base : Nat) (h : History) (hh : ∀ x ∈ h, x.sealOk = true) (i : Nat) (c : Cfg) (p : Pool)
    (hc : ((World.init base).run h).cfgs[i]? = some c) (hp : ((World.init base).run h).pools[i]? = some p)
    (t : Nat) (tk : PTask) (ht : p.tasks[t]? = some tk) (hrel : tk.released = false) :
    t ∈ p.running ∨ t ∈ p.cancelledR :=
  C03_complete_partial base h i c p hc hp (C03_never_lost_sealed base h hh i c p hc hp) t tk ht hrel

/-- whatever fails — workers, call sites, callbacks —, every finished task has handed back its slot -/
theorem C12_finished_released_sealed (base : Nat) (h : History) (hh : ∀ x ∈ h, x.sealOk = true) (i : Nat) (c : Cfg)
    (p : Pool) (hc : ((World.init base).run h).cfgs[i]? = some c) (hp : ((World.init base).run h).pools[i]? = some p)
    (t : Nat) (tk : PTask) (ht : p.tasks[t]? = some tk) (hf : tk.phase = .finished) : tk.released = true :=
  C12_finished_released base h i c p hc hp (C03_never_lost_sealed base h hh i c p hc hp) t tk ht hf

/-- neither `flush()` nor `gather_and_close()` ever forgets a task that is still running or inside its callbacks -/
theorem C13_never_forgets_unfinished_sealed (base : Nat) (h : History) (hh : ∀ x ∈ h, x.sealOk = true) (i : Nat) (c : Cfg)
    (p : Pool) (hc : ((World.init base).run h).cfgs[i]? = some c) (hp : ((World.init base).run h).pools[i]? = some p) :
    p.lost = false ∧
    ∀ (t : Nat) (tk : PTask), p.tasks[t]? = some tk → tk.released = false → t ∈ p.running ∨ t ∈ p.cancelledR := by
  obtain ⟨hl, hr, _⟩ := sealedAll base h hh i c p hc hp
  exact ⟨hl, fun t tk ht hrel => hr.cpl hl t tk ht hrel⟩

/-! ### C08: `gather_and_close()` waits for everything -/

/-- **while a `gather_and_close()` waits in its first gather** the pool is locked and that gather — which collects
exceptions, so that no child can end it early — has every spawner that is filed as running among its children; every
other live spawner is doomed (cancelled, about to end without creating a task) -/
theorem C08_first_gather_has_every_spawner (base : Nat) (h : History) (hh : ∀ x ∈ h, x.sealOk = true) (i : Nat) (c : Cfg)
    (p : Pool) (hc : ((World.init base).run h).cfgs[i]? = some c) (hp : ((World.init base).run h).pools[i]? = some p)
    (a : Nat) (A : Api) (g : Nat) (hA : p.apis[a]? = some A) (hk : A.kind.isGac = true) (hf : A.frame = .gather1 g) :
    p.locked = true ∧
    (∃ G : Gather, p.gathers[g]? = some G ∧ G.retExc = true ∧
      ∀ (m : Nat) (r : Req), p.reqs[m]? = some r → r.inRunning = true → Child.spawner m ∈ G.children) ∧
    (∀ (m : Nat) (r : Req), p.reqs[m]? = some r → r.outcome = none → r.inRunning = true ∨ DoomedAt p m r) := by
  obtain ⟨_, _, _, hs⟩ := sealedAll base h hh i c p hc hp
  exact ⟨hs.lk a A hA (by simp [Api.gacPending, hk, hf]), hs.g1 a A g hA hk hf, fun m r hr ho => hs.fr m r hr (fun e => e) ho⟩

/-- **while a `gather_and_close()` waits in its second gather** the pool is locked, every live spawner is doomed — no
task will be created any more —, and that gather has **every task that is filed as running or cancelled** among its
children, at every moment of the wait: whatever has not ended is awaited -/
theorem C08_second_gather_awaits_everything (base : Nat) (h : History) (hh : ∀ x ∈ h, x.sealOk = true) (i : Nat) (c : Cfg)
    (p : Pool) (hc : ((World.init base).run h).cfgs[i]? = some c) (hp : ((World.init base).run h).pools[i]? = some p)
    (a : Nat) (A : Api) (g : Nat) (hA : p.apis[a]? = some A) (hk : A.kind.isGac = true) (hf : A.frame = .gather2 g) :
    p.locked = true ∧
    (∀ (m : Nat) (r : Req), p.reqs[m]? = some r → r.outcome = none → DoomedAt p m r) ∧
    (∃ G : Gather, p.gathers[g]? = some G ∧ ∀ t ∈ p.running ++ p.cancelledR, Child.task t ∈ G.children) ∧
    (∀ (t : Nat) (tk : PTask), p.tasks[t]? = some tk → tk.released = false →
      ∃ G : Gather, p.gathers[g]? = some G ∧ Child.task t ∈ G.children) := by
  obtain ⟨hl, hr, _, hs⟩ := sealedAll base h hh i c p hc hp
  obtain ⟨hnr, G, hG, hsub⟩ := hs.g2 a A g hA hk hf
  refine ⟨hs.lk a A hA (by simp [Api.gacPending, hk, hf]), ?_, ⟨G, hG, hsub⟩, ?_⟩
  · intro m r hm ho
    rcases hs.fr m r hm (fun e => e) ho with e | e
    · rw [hnr m r hm] at e; cases e
    · exact e
  · intro t tk ht hrel
    exact ⟨G, hG, hsub t (by
      rcases hr.cpl hl t tk ht hrel with e | e
      · exact List.mem_append_left _ e
      · exact List.mem_append_right _ e)⟩

/-- **the closing step drops nothing**: when the second gather of a `gather_and_close()` has completed normally, every
task of the pool has handed back its slot, and every task that was still filed as running or cancelled has finished,
callbacks included -/
theorem C08_all_finished_when_closing (base : Nat) (h : History) (hh : ∀ x ∈ h, x.sealOk = true) (i : Nat) (c : Cfg)
    (p : Pool) (hc : ((World.init base).run h).cfgs[i]? = some c) (hp : ((World.init base).run h).pools[i]? = some p)
    (a : Nat) (A : Api) (g : Nat) (G : Gather) (hA : p.apis[a]? = some A) (hk : A.kind.isGac = true)
    (hf : A.frame = .gather2 g) (hG : p.gathers[g]? = some G) (ho : G.outer = some .ok) :
    (∀ t ∈ p.running ++ p.cancelledR, TaskFin p t) ∧ (∀ (t : Nat) (tk : PTask), p.tasks[t]? = some tk → tk.released = true) := by
  obtain ⟨hg, _, hs⟩ := (World.sealed_run base h hh).inv i c p hc hp
  obtain ⟨_, G', hG', hsub⟩ := hs.g2 a A g hA hk hf
  rw [hG] at hG'; cases hG'
  have hfin : ∀ t ∈ p.running ++ p.cancelledR, TaskFin p t := fun t ht => hg.fl.gth g G hG ho t (hsub t ht)
  refine ⟨hfin, ?_⟩
  intro t tk ht
  cases hrel : tk.released with
  | true => rfl
  | false =>
    have hm : t ∈ p.running ++ p.cancelledR := by
      rcases hg.reg.cpl (hg.ll rfl) t tk ht hrel with e | e
      · exact List.mem_append_left _ e
      · exact List.mem_append_right _ e
    obtain ⟨tk', a1, b1⟩ := hfin t hm
    rw [ht] at a1; cases a1
    have hr' : tk.released = true := ((hg.life t tk ht).fin b1 (hg.ll rfl)).1
    rw [hrel] at hr'; cases hr'

/-! ### idle and quiescence, with `gather_and_close()` in the history -/

theorem History.noSetSize_of_sealOk (h : History) (hh : ∀ x ∈ h, x.sealOk = true) : h.NoSetSize :=
  fun x hx => x.sealOk_noSetSize (hh x hx)

/-- at every idle point the slots in use equal the tasks in flight: `free + num_running + num_cancelled = size` -/
theorem C02_idle_accounting_exact_sealed (base : Nat) (h : History) (hh : ∀ x ∈ h, x.sealOk = true)
    (hidle : ((World.init base).run h).ready = []) (i : Nat) (c : Cfg) (p : Pool) (n : Nat)
    (hc : ((World.init base).run h).cfgs[i]? = some c) (hp : ((World.init base).run h).pools[i]? = some p)
    (hsz : c.size0 = .fin n) :
    ∃ v, p.sem.value = .fin v ∧ v + p.running.length + p.cancelledR.length = n := by
  obtain ⟨v, hv, hs⟩ := C02_idle_accounting_sealed base h hh i c p n hc hp hsz
  have := grantsL_zero_of_pending _ (World.idle_pool base h hidle i c p hc hp).pend
  exact ⟨v, hv, by omega⟩

/-- `is_full` at idle, exactly at capacity — also while a `gather_and_close()` is pending or after a failed one -/
theorem C01_is_full_iff_at_idle_sealed (base : Nat) (h : History) (hh : ∀ x ∈ h, x.sealOk = true)
    (hidle : ((World.init base).run h).ready = []) (i : Nat) (c : Cfg) (p : Pool) (n : Nat)
    (hc : ((World.init base).run h).cfgs[i]? = some c) (hp : ((World.init base).run h).pools[i]? = some p)
    (hsz : c.size0 = .fin n) (hcb : p.cancelledR = []) :
    p.isFull = true ↔ p.running.length = n :=
  C01_is_full_iff_core base h (h.noSetSize_of_sealOk hh) i c p n hc hp hsz hcb
    (grantsL_zero_of_pending _ (World.idle_pool base h hidle i c p hc hp).pend)
    (C03_never_lost_sealed base h hh i c p hc hp)

/-- **capacity comes back**: whenever the loop is idle and every asyncio Task of the pool is done, every task has
finished and handed back its slot and its map slot, and the semaphore of a pool of size `n > 0` is back at `n` with an
empty waiter queue — whatever `gather_and_close()` calls succeeded, failed or are still pending -/
theorem C02_capacity_back_at_quiescence_sealed (base : Nat) (h : History) (hh : ∀ x ∈ h, x.sealOk = true)
    (hidle : ((World.init base).run h).ready = []) (i : Nat) (c : Cfg) (p : Pool) (n : Nat)
    (hc : ((World.init base).run h).cfgs[i]? = some c) (hp : ((World.init base).run h).pools[i]? = some p)
    (hsz : c.size0 = .fin n) (hpos : 0 < n) (hall : p.AllTasksDone) :
    (p.sem.value = .fin n ∧ p.sem.waiters = []) ∧
    ∀ k ∈ p.tasks, k.phase = .finished ∧ k.released = true ∧ k.mapHeld = false :=
  ⟨capacity_back_core base h (h.noSetSize_of_sealOk hh) hidle i c p n hc hp hsz hpos hall
      (C03_never_lost_sealed base h hh i c p hc hp),
   quiescent_tasks_core base h i c p hc hp hall (C03_never_lost_sealed base h hh i c p hc hp)⟩

/-! Non-vacuity: a `gather_and_close()` issued while a `map` spawner waits for room in a pool of size 1; a second one
and a `flush()` overlap; everything is released, the pool is closed, nothing was lost. -/
def Sealed_demo : History :=
  [.mkpool (some 1) none none,
   .on 0 [] (.map 0 [⟨false, false⟩, ⟨false, false⟩] 2 none gatedSpec),
   .run 0 [], .run 0 [],
   .on 0 [] (.gac true), .run 0 [], .on 0 [] (.flush true), .on 0 [] (.gac false), .run 0 [], .run 0 [],
   .on 0 [] (.gate 0 .ok), .run 0 [], .run 0 [], .run 0 [], .run 0 [],
   .on 0 [] (.gate 1 .ok), .run 0 [], .run 0 [], .run 0 [], .run 0 [], .run 0 [], .run 0 [], .run 0 []]

example : ∀ x ∈ Sealed_demo, x.sealOk = true := by decide +kernel

example : (((World.init 0).run Sealed_demo).pools.map fun p => (p.closed, p.lost, p.tasks.map (·.phase), p.sem.value)) =
    [(true, false, [Phase.finished, Phase.finished], Cap.fin 1)] := by decide +kernel

example : (((World.init 0).run Sealed_demo).pools.map fun p => p.apis.map (·.outcome)) =
    [[some Outcome.ok, some Outcome.ok, some Outcome.ok]] := by decide +kernel

/-- … and half-way (both `gather_and_close()` calls wait in their first gather for the spawner that waits for room):
the premises of `C08_first_gather_has_every_spawner` are met by a reachable state -/
example : (((World.init 0).run (Sealed_demo.take 10)).pools.map fun p => (p.apis.map (·.frame), p.reqs.map (·.frame), p.locked)) =
    [([AFrame.gather1 0, AFrame.done, AFrame.gather1 3], [MFrame.waitRoom], true)] := by decide +kernel

end Taskpool
