import Taskpool.Inv.ControlParse
/-! C17 — a command does exactly what the method call would do.

`C17_roundtrip`: for every well-formed member table, every public method, every way of writing a call — a value for
each single positional parameter, any number of values for the var-positional one, any set of options in short or
long form, before or after the positionals — the parse is the call of that member whose namespace is read out by
`C17_value_*`: each positional its value, the var-positional all of its values, each written option its value, each
omitted option the method's own default (`dflt`; `False` for a flag).  `C17_dispatch_exact` splits that namespace
into `m(*positional, *var_positional, **keyword)`; `C17_reply_rule` is the reply.
Lexing of decimal numbers, Python literals and dotted paths is not part of the theorem: tokens are structured and a
value carries what Python's converter makes of it (validated by the differential run).

Hypothesis of every theorem that mentions a table: `wellFormed ms` (Model/Control.lean) — member names are distinct
ASCII identifiers and, for every exposed member, `paramsOk`: parameter names are distinct identifiers, no option is
called `help` (F1), no option starts with `_` (F2), no parameter is called `command` (F4).  Python itself guarantees
everything but the three exclusions (and ASCII), so F1, F2, F4 are exactly the ways a subclass adding public members can
leave the theorems' scope; run at those points the real code fails (known findings, witnessed on every run).  Running
out of flag letters is NOT such a way: `assignFlags` falls back to the long form and `C16_parser_builds` covers it.
The check evaluates `wellFormed` on the table extracted from the served classes on every run. -/
namespace Taskpool.Control

theorem C17_roundtrip (ms : List Member) (hwf : wellFormed ms = true) (m : Member) (hm : m ∈ ms)
    (he : m.exposed = true) (hfun : m.kind = .function)
    (singles starL : List Param) (hpos : m.params.filter Param.isPos = singles ++ starL)
    (hsing : ∀ p ∈ singles, p.kind = .positional)
    (hstar : starL = [] ∨ ∃ sp, starL = [sp] ∧ sp.kind = .varPositional)
    (cmd : Word) (hcmd : cmd.text = dash m.name)
    (pargs sargs : List PosArg) (hp : posOk singles pargs) (hs : ∀ x ∈ sargs, ∃ sp ∈ starL, x.ok sp)
    (pre post : List Choice) (hpre : ∀ c ∈ pre, c.ok m.params) (hpost : ∀ c ∈ post, c.ok m.params) :
    parseLine (commandTable ms) (.word cmd :: (renderOpts pre ++ (renderPos pargs ++ (renderPos sargs ++ renderOpts post))))
      = some (.act (.call m.name
          (m.params.map fun p => (p.name, argFor (finalState singles starL pargs sargs (pre ++ post)) p)))) := by
  have hok := wf_params hwf hm he
  have hno : ∀ t ∈ renderOpts pre ++ (renderPos pargs ++ (renderPos sargs ++ renderOpts post)), Tok.isOther t = false := by
    intro t ht
    have hopt : ∀ (cs : List Choice), t ∈ renderOpts cs → Tok.isOther t = false := by
      intro cs h
      simp only [renderOpts, List.mem_flatMap] at h
      obtain ⟨c, _, hc⟩ := h
      simp only [Choice.render, Choice.tok] at hc
      cases hsh : c.short <;> simp only [hsh] at hc <;> split at hc <;> simp at hc
      all_goals (first | (rcases hc with rfl | rfl) | subst hc) <;> rfl
    have hposn : ∀ (xs : List PosArg), t ∈ renderPos xs → Tok.isOther t = false := by
      intro xs h
      simp only [renderPos, List.mem_map] at h
      obtain ⟨x, _, rfl⟩ := h
      rfl
    simp only [List.mem_append] at ht
    rcases ht with h | h | h | h
    · exact hopt _ h
    · exact hposn _ h
    · exact hposn _ h
    · exact hopt _ h
  have hany : (Tok.word cmd :: (renderOpts pre ++ (renderPos pargs ++ (renderPos sargs ++ renderOpts post)))).any
      Tok.isOther = false := by
    rw [List.any_eq_false]
    intro t ht
    rcases List.mem_cons.mp ht with rfl | ht
    · simp [Tok.isOther]
    · simp [hno t ht]
  simp only [parseLine, hany, hcmd, lookupCmd_exposed hwf hm he]
  exact parseCmd_roundtrip hfun hok hpos hsing hstar hp hs hpre hpost

/-- a var-positional parameter receives all of its values, in order -/
theorem C17_value_var (singles starL : List Param) (pargs sargs : List PosArg) (cs : List Choice) (p : Param)
    (hk : p.kind = .varPositional) :
    argFor (finalState singles starL pargs sargs cs) p = .many (sargs.map (·.a)) := by
  simp [argFor, hk, finalState]

/-- a single positional parameter receives the value written at its place -/
theorem C17_value_positional (singles starL : List Param) (pargs sargs : List PosArg) (cs : List Choice)
    (hp : posOk singles pargs) (hn : (singles.map (·.name)).Nodup) (p : Param) (x : PosArg)
    (hk : p.kind = .positional) (hmem : (p, x) ∈ singles.zip pargs) :
    argFor (finalState singles starL pargs sargs cs) p = .one x.a := by
  have hnd : (((singles.zip pargs).map (fun y => ((y.1.name, ArgVal.one y.2.a) : Str × ArgVal))).map (·.1)).Nodup := by
    rw [zip_bound_names singles pargs hp]; exact hn
  have : lookupArg ((singles.zip pargs).map (fun y => ((y.1.name, ArgVal.one y.2.a) : Str × ArgVal))) p.name
      = some (.one x.a) :=
    lookupArg_unique hnd (List.mem_map.mpr ⟨(p, x), hmem, rfl⟩)
  simp [argFor, hk, finalState, this]

/-- an option that was written (in either form) receives its value; a written flag is `True` -/
theorem C17_value_option_given (singles starL : List Param) (pargs sargs : List PosArg) (cs : List Choice)
    (hn : (cs.map (·.p.name)).Nodup) (c : Choice) (hc : c ∈ cs) (hopt : c.p.isOpt = true) :
    argFor (finalState singles starL pargs sargs cs) c.p = c.val := by
  have hnd : ((optEntries cs).map (·.1)).Nodup := by
    rw [optEntries_names]
    unfold List.Nodup at hn ⊢
    rw [List.pairwise_reverse]
    exact hn.imp fun h => Ne.symm h
  have hmem : (c.p.name, c.val) ∈ optEntries cs := by
    simp only [optEntries, List.mem_reverse, List.mem_map]
    exact ⟨c, hc, rfl⟩
  have := lookupArg_unique hnd hmem
  simp only [Param.isOpt, Bool.or_eq_true, beq_iff_eq] at hopt
  rcases hopt with hk | hk <;> simp [argFor, hk, finalState, this]

/-- an option that was not written takes the method's own default; an omitted flag is `False` -/
theorem C17_value_option_omitted (singles starL : List Param) (pargs sargs : List PosArg) (cs : List Choice)
    (p : Param) (hout : ∀ c ∈ cs, c.p.name ≠ p.name) :
    (p.kind = .optional → argFor (finalState singles starL pargs sargs cs) p = .dflt)
    ∧ (p.kind = .flag → argFor (finalState singles starL pargs sargs cs) p = .flag false) := by
  have : lookupArg (optEntries cs) p.name = none := by
    apply lookupArg_none
    intro a ha
    simp only [optEntries, List.mem_reverse, List.mem_map] at ha
    obtain ⟨c, hc, rfl⟩ := ha
    exact hout c hc
  constructor <;> intro hk <;> simp [argFor, hk, finalState, this]

/-- no two options of a command share a short flag -/
theorem C17_flags_unique (ps : List Param) (used : List Char) :
    ((assignFlags ps used).filterMap (·.2)).Nodup ∧ ∀ f ∈ (assignFlags ps used).filterMap (·.2), f ∉ used :=
  ⟨(assignFlags_spec ps used).2, fun f hf => ((assignFlags_spec ps used).1 f hf).2⟩

/-- the namespace is split exactly: positional-or-keyword parameters positionally in signature order, the
var-positional one unpacked, all others by keyword; every entry goes to exactly one place -/
theorem C17_dispatch_exact (ps : List Param) (val : Param → ArgVal) :
    dispatch ps (ps.map fun p => (p.name, val p))
      = { pos := (ps.filter fun p => p.pass == .byPosition).map val,
          star := ((ps.filter fun p => p.pass == .byStar).map fun p => starOf (val p)).flatten,
          kw := (ps.filter fun p => p.pass == .byKeyword).map fun p => (p.name, val p) }
    ∧ (ps.filter fun p => p.pass == .byPosition).length + (ps.filter fun p => p.pass == .byStar).length
        + (ps.filter fun p => p.pass == .byKeyword).length = ps.length :=
  ⟨dispatch_aligned ps val, pass_partition ps⟩

/-- `ok` for `None`, otherwise `str()` of the result or of the exception — property setters included; a getter
writes `str()` of whatever it returned -/
theorem C17_reply_rule (m : Str) (args : List (Str × ArgVal)) (v : Atom) (s : Str) :
    replyText (.call m args) .none = okText ∧ replyText (.set m v) .none = okText
    ∧ replyText (.call m args) (.value s) = s ∧ replyText (.call m args) (.raised s) = s
    ∧ replyText (.set m v) (.raised s) = s ∧ replyText (.get m) (.value s) = s ∧ replyText (.get m) (.raised s) = s :=
  ⟨rfl, rfl, rfl, rfl, rfl, rfl, rfl⟩

/-! non-vacuity: `say_hi(x, *more, how=1, loud=False)` called as `say-hi -l 4 5 6 --how 7` -/

def e17X : Param := { name := ['x'], kind := .positional, pass := .byPosition, conv := .int }
def e17More : Param := { name := ['m'], kind := .varPositional, pass := .byStar, conv := .int }
def e17How : Param := { name := ['h', 'o', 'w'], kind := .optional, pass := .byKeyword, conv := .int }
def e17Loud : Param := { name := ['l'], kind := .flag, pass := .byKeyword, conv := .str }
def e17Say : Member := { name := ['s', 'a', 'y', '_', 'h', 'i'], kind := .function, params := [e17X, e17More, e17How, e17Loud] }
def e17Num (t : Str) (i : Int) : Word := { text := t, int? := some i, floatOk := true, litOk := true, dotOk := false }
def e17CmdWord : Word := { text := ['s', 'a', 'y', '-', 'h', 'i'], int? := none, floatOk := false, litOk := false, dotOk := false }

example : parseLine (commandTable [e17Say])
    [.word e17CmdWord, .short 'l', .word (e17Num ['4'] 4), .word (e17Num ['5'] 5), .word (e17Num ['6'] 6),
     .long ['h', 'o', 'w'], .word (e17Num ['7'] 7)]
    = some (.act (.call e17Say.name [(['x'], .one (.int 4)), (['m'], .many [.int 5, .int 6]),
        (['h', 'o', 'w'], .one (.int 7)), (['l'], .flag true)])) := by decide +kernel

example : dispatch e17Say.params [(['x'], .one (.int 4)), (['m'], .many [.int 5, .int 6]),
        (['h', 'o', 'w'], .one (.int 7)), (['l'], .flag true)]
    = { pos := [.one (.int 4)], star := [.int 5, .int 6], kw := [(['h', 'o', 'w'], .one (.int 7)), (['l'], .flag true)] } := by
  decide +kernel

example : parseLine (commandTable [e17Say]) [.word e17CmdWord, .word (e17Num ['4'] 4)]
    = some (.act (.call e17Say.name [(['x'], .one (.int 4)), (['m'], .many []), (['h', 'o', 'w'], .dflt), (['l'], .flag false)])) := by
  decide +kernel

end Taskpool.Control
