import Taskpool.Inv.ControlParse
/-! C17 — a command does exactly what the method call would do.

`C17_roundtrip`: for every well-formed member table, every public method, every way of writing a call — a value for
each single positional parameter, any number of values for the var-positional one, any set of options — each as its
short flag (`-c value`, `-cvalue`, `-c=value`), its long option string or an unambiguous abbreviation of it, the long ones
as `--name value` or `--name=value` —, before or after the positionals — the parse is the call of that member whose namespace is read out by
`C17_value_*`: each positional its value, the var-positional all of its values, each written option its value, each
omitted option the method's own default (`dflt`; `False` for a flag).  `C17_dispatch_exact` splits that namespace
into `m(*positional, *var_positional, **keyword)`; `C17_reply_rule` is the reply.  `C17_roundtrip_cluster` is the same
round trip with several options in one single-dash string (`-ab`, `-abcV`), `C17_roundtrip_after_separator` the one with
`--` in front of, inside or behind the positional strings.
Lexing of decimal numbers, Python literals and dotted paths is not part of the theorem: tokens are structured and a
value carries what Python's converter makes of it (validated by the differential run).

Hypothesis of every theorem that mentions a table: `wellFormed ms` (Model/Control.lean) — member names are distinct
ASCII identifiers and, for every exposed member, `paramsOk`: parameter names are distinct identifiers, no option is
called `help` (F1), no option starts with `_` (F2), no parameter is called `command` (F4).  Python itself guarantees
everything but the three exclusions (and ASCII), so F1, F2, F4 are exactly the ways a subclass adding public members can
leave the theorems' scope; run at those points the real code fails (known findings, witnessed on every run).  Running
out of flag letters is NOT such a way: `assignFlags` falls back to the long form and `C16_parser_builds` covers it.
The check evaluates `wellFormed` on the table extracted from the served classes on every run. -/
namespace Taskpool.Control

theorem C17_roundtrip (ms : List Member) (hwf : wellFormed ms = true) (m : Member) (hm : m ∈ ms)
    (he : m.exposed = true) (hfun : m.kind = .function)
    (singles starL : List Param) (hpos : m.params.filter Param.isPos = singles ++ starL)
    (hsing : ∀ p ∈ singles, p.kind = .positional)
    (hstar : starL = [] ∨ ∃ sp, starL = [sp] ∧ sp.kind = .varPositional)
    (cmd : Word) (hcmd : cmd.text = dash m.name)
    (pargs sargs : List PosArg) (hp : posOk singles pargs) (hs : ∀ x ∈ sargs, ∃ sp ∈ starL, x.ok sp)
    (pre post : List Choice) (hpre : ∀ c ∈ pre, c.ok m.params) (hpost : ∀ c ∈ post, c.ok m.params) :
    parseLine (commandTable ms) (.word cmd :: (renderOpts pre ++ (renderPos pargs ++ (renderPos sargs ++ renderOpts post))))
      = some (.act (.call m.name
          (m.params.map fun p => (p.name, argFor (finalState singles starL pargs sargs (pre ++ post)) p)))) := by
  have hok := wf_params hwf hm he
  have hno : ∀ t ∈ renderOpts pre ++ (renderPos pargs ++ (renderPos sargs ++ renderOpts post)), Tok.isOther t = false := by
    intro t ht
    simp only [List.mem_append] at ht
    rcases ht with h | h | h | h
    · rw [← renderItems_one] at h
      exact (plain_renderItems hok (l := pre.map .one)
        (by intro it hit; obtain ⟨c, hc, rfl⟩ := List.mem_map.mp hit; exact hpre c hc) t h).2.1
    · exact (plain_renderPos (optTable m.params) _ t h).2.1
    · exact (plain_renderPos (optTable m.params) _ t h).2.1
    · rw [← renderItems_one] at h
      exact (plain_renderItems hok (l := post.map .one)
        (by intro it hit; obtain ⟨c, hc, rfl⟩ := List.mem_map.mp hit; exact hpost c hc) t h).2.1
  have hany : (Tok.word cmd :: (renderOpts pre ++ (renderPos pargs ++ (renderPos sargs ++ renderOpts post)))).any
      Tok.isOther = false := by
    rw [List.any_eq_false]
    intro t ht
    rcases List.mem_cons.mp ht with rfl | ht
    · simp [Tok.isOther]
    · simp [hno t ht]
  simp only [parseLine, hany, hcmd, lookupCmd_exposed hwf hm he]
  exact parseCmd_roundtrip hfun hok hpos hsing hstar hp hs hpre hpost

/-- a var-positional parameter receives all of its values, in order -/
theorem C17_value_var (singles starL : List Param) (pargs sargs : List PosArg) (cs : List Choice) (p : Param)
    (hk : p.kind = .varPositional) :
    argFor (finalState singles starL pargs sargs cs) p = .many (sargs.map (·.a)) := by
  simp [argFor, hk, finalState]

/-- a single positional parameter receives the value written at its place -/
theorem C17_value_positional (singles starL : List Param) (pargs sargs : List PosArg) (cs : List Choice)
    (hp : posOk singles pargs) (hn : (singles.map (·.name)).Nodup) (p : Param) (x : PosArg)
    (hk : p.kind = .positional) (hmem : (p, x) ∈ singles.zip pargs) :
    argFor (finalState singles starL pargs sargs cs) p = .one x.a := by
  have hnd : (((singles.zip pargs).map (fun y => ((y.1.name, ArgVal.one y.2.a) : Str × ArgVal))).map (·.1)).Nodup := by
    rw [zip_bound_names singles pargs hp]; exact hn
  have : lookupArg ((singles.zip pargs).map (fun y => ((y.1.name, ArgVal.one y.2.a) : Str × ArgVal))) p.name
      = some (.one x.a) :=
    lookupArg_unique hnd (List.mem_map.mpr ⟨(p, x), hmem, rfl⟩)
  simp [argFor, hk, finalState, this]

/-- an option that was written (in either form) receives its value; a written flag is `True` -/
theorem C17_value_option_given (singles starL : List Param) (pargs sargs : List PosArg) (cs : List Choice)
    (hn : (cs.map (·.p.name)).Nodup) (c : Choice) (hc : c ∈ cs) (hopt : c.p.isOpt = true) :
    argFor (finalState singles starL pargs sargs cs) c.p = c.val := by
  have hnd : ((optEntries cs).map (·.1)).Nodup := by
    rw [optEntries_names]
    unfold List.Nodup at hn ⊢
    rw [List.pairwise_reverse]
    exact hn.imp fun h => Ne.symm h
  have hmem : (c.p.name, c.val) ∈ optEntries cs := by
    simp only [optEntries, List.mem_reverse, List.mem_map]
    exact ⟨c, hc, rfl⟩
  have := lookupArg_unique hnd hmem
  simp only [Param.isOpt, Bool.or_eq_true, beq_iff_eq] at hopt
  rcases hopt with hk | hk <;> simp [argFor, hk, finalState, this]

/-- an option that was not written takes the method's own default; an omitted flag is `False` -/
theorem C17_value_option_omitted (singles starL : List Param) (pargs sargs : List PosArg) (cs : List Choice)
    (p : Param) (hout : ∀ c ∈ cs, c.p.name ≠ p.name) :
    (p.kind = .optional → argFor (finalState singles starL pargs sargs cs) p = .dflt)
    ∧ (p.kind = .flag → argFor (finalState singles starL pargs sargs cs) p = .flag false) := by
  have : lookupArg (optEntries cs) p.name = none := by
    apply lookupArg_none
    intro a ha
    simp only [optEntries, List.mem_reverse, List.mem_map] at ha
    obtain ⟨c, hc, rfl⟩ := ha
    exact hout c hc
  constructor <;> intro hk <;> simp [argFor, hk, finalState, this]

/-! ### `--name=value` and abbreviations

`C17_roundtrip` quantifies over `Choice`s, and a choice may write its option as the short flag, as the full long
option string, as an unambiguous abbreviation of it (`abbr`), and — the long forms of an option with a value — with
the value behind a blank or behind `=` (`eq`).  The namespace it ends in (`finalState`) does not mention the form:
`C17_form_irrelevant`.  `C17_roundtrip_eq_form` and `C17_roundtrip_abbrev` spell the two new forms out, token by
token, with the namespace of the plain long form as their conclusion. -/

/-- the option as written in full, with its value behind a blank -/
def plainChoice (p : Param) (w : Word) (a : Atom) : Choice := { p := p, short := none, w := w, a := a }

/-- the namespace depends on which options were written with which values, not on how they were written -/
theorem C17_form_irrelevant (singles starL : List Param) (pargs sargs : List PosArg) (cs cs' : List Choice)
    (h : cs.map (fun c => (c.p, c.a)) = cs'.map (fun c => (c.p, c.a))) :
    finalState singles starL pargs sargs cs = finalState singles starL pargs sargs cs' := by
  have hg : ∀ l : List Choice, l.map (fun c => (c.p.name, c.val))
      = (l.map (fun c => (c.p, c.a))).map (fun x => (x.1.name, if x.1.kind = .flag then ArgVal.flag true else .one x.2)) := by
    intro l
    simp [List.map_map, Function.comp_def, Choice.val]
  simp only [finalState, optEntries, hg, h]

/-- one option behind the positionals, in whatever form -/
theorem roundtrip_one (ms : List Member) (hwf : wellFormed ms = true) (m : Member) (hm : m ∈ ms)
    (he : m.exposed = true) (hfun : m.kind = .function)
    (singles starL : List Param) (hpos : m.params.filter Param.isPos = singles ++ starL)
    (hsing : ∀ p ∈ singles, p.kind = .positional)
    (hstar : starL = [] ∨ ∃ sp, starL = [sp] ∧ sp.kind = .varPositional)
    (cmd : Word) (hcmd : cmd.text = dash m.name)
    (pargs sargs : List PosArg) (hp : posOk singles pargs) (hs : ∀ x ∈ sargs, ∃ sp ∈ starL, x.ok sp)
    (c : Choice) (hc : c.ok m.params) :
    parseLine (commandTable ms) (.word cmd :: (renderPos pargs ++ (renderPos sargs ++ c.render)))
      = some (.act (.call m.name
          (m.params.map fun q => (q.name, argFor (finalState singles starL pargs sargs [plainChoice c.p c.w c.a]) q)))) := by
  have := C17_roundtrip ms hwf m hm he hfun singles starL hpos hsing hstar cmd hcmd pargs sargs hp hs [] [c]
    (by simp) (by simpa using hc)
  simp only [renderOpts, List.flatMap_nil, List.nil_append, List.flatMap_cons, List.append_nil] at this
  rw [this, C17_form_irrelevant singles starL pargs sargs [c] [plainChoice c.p c.w c.a] (by simp [plainChoice])]

/-- `--name=value` (one string, split at the first `=`; the value may be empty, may start with `-`, may contain `=`)
binds the option exactly as `--name value` does: the parse is the same call, the option's entry is the value -/
theorem C17_roundtrip_eq_form (ms : List Member) (hwf : wellFormed ms = true) (m : Member) (hm : m ∈ ms)
    (he : m.exposed = true) (hfun : m.kind = .function)
    (singles starL : List Param) (hpos : m.params.filter Param.isPos = singles ++ starL)
    (hsing : ∀ p ∈ singles, p.kind = .positional)
    (hstar : starL = [] ∨ ∃ sp, starL = [sp] ∧ sp.kind = .varPositional)
    (cmd : Word) (hcmd : cmd.text = dash m.name)
    (pargs sargs : List PosArg) (hp : posOk singles pargs) (hs : ∀ x ∈ sargs, ∃ sp ∈ starL, x.ok sp)
    (p : Param) (hpm : p ∈ m.params) (hk : p.kind = .optional) (w : Word) (a : Atom)
    (hconv : convert p.conv w = some a) (hdd : w.text ≠ dashdash) :
    parseLine (commandTable ms) (.word cmd :: (renderPos pargs ++ (renderPos sargs ++ [.eq (dash p.name) w])))
      = some (.act (.call m.name
          (m.params.map fun q => (q.name, argFor (finalState singles starL pargs sargs [plainChoice p w a]) q))))
    ∧ parseLine (commandTable ms) (.word cmd :: (renderPos pargs ++ (renderPos sargs ++ [.eq (dash p.name) w])))
      = parseLine (commandTable ms) (.word cmd :: (renderPos pargs ++ (renderPos sargs ++ [.long (dash p.name), .word w])))
    ∧ argFor (finalState singles starL pargs sargs [plainChoice p w a]) p = .one a := by
  have hopt : p.isOpt = true := by simp [Param.isOpt, hk]
  have hkf : p.kind ≠ .flag := by simp [hk]
  have h1 := roundtrip_one ms hwf m hm he hfun singles starL hpos hsing hstar cmd hcmd pargs sargs hp hs
    { p := p, short := none, w := w, a := a, eq := true }
    ⟨hpm, hopt, by simp, fun _ => hconv, by simp, fun _ => hdd, by simp⟩
  have h2 := roundtrip_one ms hwf m hm he hfun singles starL hpos hsing hstar cmd hcmd pargs sargs hp hs
    (plainChoice p w a) ⟨hpm, hopt, by simp [plainChoice], fun _ => hconv, by simp [plainChoice], by simp [plainChoice], by simp [plainChoice]⟩
  have hr1 : ({ p := p, short := none, w := w, a := a, eq := true } : Choice).render = [.eq (dash p.name) w] := by
    simp [Choice.render, Choice.longName, hkf]
  have hr2 : (plainChoice p w a).render = [.long (dash p.name), .word w] := by
    simp [Choice.render, Choice.longName, plainChoice, hkf]
  rw [hr1] at h1
  rw [hr2] at h2
  refine ⟨h1, h1.trans h2.symm, ?_⟩
  have := C17_value_option_given singles starL pargs sargs [plainChoice p w a] (by simp) (plainChoice p w a) (by simp)
    (by simpa [plainChoice] using hopt)
  simpa [plainChoice, Choice.val, hkf] using this

/-- an unambiguous abbreviation `--n` of an option's long string (a non-empty prefix of it and of no other long option
string of the command, `--help` included) is that option: with the value behind a blank, with the value behind `=`,
and — a flag — alone.  The parse is the call the full form gives. -/
theorem C17_roundtrip_abbrev (ms : List Member) (hwf : wellFormed ms = true) (m : Member) (hm : m ∈ ms)
    (he : m.exposed = true) (hfun : m.kind = .function)
    (singles starL : List Param) (hpos : m.params.filter Param.isPos = singles ++ starL)
    (hsing : ∀ p ∈ singles, p.kind = .positional)
    (hstar : starL = [] ∨ ∃ sp, starL = [sp] ∧ sp.kind = .varPositional)
    (cmd : Word) (hcmd : cmd.text = dash m.name)
    (pargs sargs : List PosArg) (hp : posOk singles pargs) (hs : ∀ x ∈ sargs, ∃ sp ∈ starL, x.ok sp)
    (p : Param) (hpm : p ∈ m.params) (hopt : p.isOpt = true) (n : Str)
    (hab : abbrevOk (optTable m.params) n (dash p.name)) (w : Word) (a : Atom) :
    let call := some (Verdict.act (.call m.name
          (m.params.map fun q => (q.name, argFor (finalState singles starL pargs sargs [plainChoice p w a]) q))))
    (p.kind = .optional → convert p.conv w = some a →
      parseLine (commandTable ms) (.word cmd :: (renderPos pargs ++ (renderPos sargs ++ [.long n, .word w]))) = call
      ∧ (w.text ≠ dashdash →
          parseLine (commandTable ms) (.word cmd :: (renderPos pargs ++ (renderPos sargs ++ [.eq n w]))) = call)
      ∧ argFor (finalState singles starL pargs sargs [plainChoice p w a]) p = .one a)
    ∧ (p.kind = .flag →
      parseLine (commandTable ms) (.word cmd :: (renderPos pargs ++ (renderPos sargs ++ [.long n]))) = call
      ∧ argFor (finalState singles starL pargs sargs [plainChoice p w a]) p = .flag true) := by
  intro call
  have hval := C17_value_option_given singles starL pargs sargs [plainChoice p w a] (by simp) (plainChoice p w a) (by simp)
    (by simpa [plainChoice] using hopt)
  constructor
  · intro hk hconv
    have hkf : p.kind ≠ .flag := by simp [hk]
    have h1 := roundtrip_one ms hwf m hm he hfun singles starL hpos hsing hstar cmd hcmd pargs sargs hp hs
      { p := p, short := none, w := w, a := a, abbr := some n }
      ⟨hpm, hopt, by simp, fun _ => hconv, by simpa using hab, by simp, by simp⟩
    have hr1 : ({ p := p, short := none, w := w, a := a, abbr := some n } : Choice).render = [.long n, .word w] := by
      simp [Choice.render, Choice.longName, hkf]
    rw [hr1] at h1
    refine ⟨h1, ?_, by simpa [plainChoice, Choice.val, hkf] using hval⟩
    intro hdd
    have h2 := roundtrip_one ms hwf m hm he hfun singles starL hpos hsing hstar cmd hcmd pargs sargs hp hs
      { p := p, short := none, w := w, a := a, abbr := some n, eq := true }
      ⟨hpm, hopt, by simp, fun _ => hconv, by simpa using hab, fun _ => hdd, by simp⟩
    have hr2 : ({ p := p, short := none, w := w, a := a, abbr := some n, eq := true } : Choice).render = [.eq n w] := by
      simp [Choice.render, Choice.longName, hkf]
    rw [hr2] at h2
    exact h2
  · intro hk
    have h1 := roundtrip_one ms hwf m hm he hfun singles starL hpos hsing hstar cmd hcmd pargs sargs hp hs
      { p := p, short := none, w := w, a := a, abbr := some n }
      ⟨hpm, hopt, by simp, fun h => absurd hk h, by simpa using hab, by simp, by simp⟩
    have hr1 : ({ p := p, short := none, w := w, a := a, abbr := some n } : Choice).render = [.long n] := by
      simp [Choice.render, Choice.tok, Choice.longName, hk]
    rw [hr1] at h1
    exact ⟨h1, by simpa [plainChoice, Choice.val, hk] using hval⟩

/-! ### short options with the value in the same string, clusters of flags, the separator `--`

argparse (3.12.1) reads a single-dash string letter by letter: behind the letter of an option that takes a value the rest
of the string is that value (`-gG`; one `=` directly behind the FIRST letter of the string is dropped: `-g=G`); behind the
letter of a flag the next character must again be an option letter (`-ab` = `-a -b`, `-abgG` = `-a -b -g G`, `-abg G`
likewise).  `--` ends the options: every string behind it is positional; the first `--` itself is dropped by the
positional parameter that takes it in.  `C17_roundtrip` covers the two one-option forms (`Choice.glued`);
`C17_roundtrip_cluster` is the round trip for `Item`s — options on their own in any form, and clusters —,
`C17_roundtrip_after_separator` the one with `--` anywhere in or in front of the positional strings. -/

/-- the round trip with clusters: every public method, a value per single positional, any values for the var-positional,
any options before and/or after them, each on its own in any of its forms or several in one single-dash string (flags,
then possibly an option with its value attached or in the next string) ⇒ the call of that member; the namespace is that
of the options written one by one (`itemChoices`), so `C17_value_*` read it out -/
theorem C17_roundtrip_cluster (ms : List Member) (hwf : wellFormed ms = true) (m : Member) (hm : m ∈ ms)
    (he : m.exposed = true) (hfun : m.kind = .function)
    (singles starL : List Param) (hpos : m.params.filter Param.isPos = singles ++ starL)
    (hsing : ∀ p ∈ singles, p.kind = .positional)
    (hstar : starL = [] ∨ ∃ sp, starL = [sp] ∧ sp.kind = .varPositional)
    (cmd : Word) (hcmd : cmd.text = dash m.name)
    (pargs sargs : List PosArg) (hp : posOk singles pargs) (hs : ∀ x ∈ sargs, ∃ sp ∈ starL, x.ok sp)
    (pre post : List Item) (hpre : ∀ it ∈ pre, it.ok m.params) (hpost : ∀ it ∈ post, it.ok m.params) :
    parseLine (commandTable ms) (.word cmd :: (renderItems pre ++ (renderPos pargs ++ (renderPos sargs ++ renderItems post))))
      = some (.act (.call m.name
          (m.params.map fun p => (p.name, argFor (finalState singles starL pargs sargs (itemChoices (pre ++ post))) p)))) := by
  have hok := wf_params hwf hm he
  have hno : ∀ t ∈ renderItems pre ++ (renderPos pargs ++ (renderPos sargs ++ renderItems post)), Tok.isOther t = false := by
    intro t ht
    simp only [List.mem_append] at ht
    rcases ht with h | h | h | h
    · exact (plain_renderItems hok hpre t h).2.1
    · exact (plain_renderPos (optTable m.params) _ t h).2.1
    · exact (plain_renderPos (optTable m.params) _ t h).2.1
    · exact (plain_renderItems hok hpost t h).2.1
  have hany : (Tok.word cmd :: (renderItems pre ++ (renderPos pargs ++ (renderPos sargs ++ renderItems post)))).any
      Tok.isOther = false := by
    rw [List.any_eq_false]
    intro t ht
    rcases List.mem_cons.mp ht with rfl | ht
    · simp [Tok.isOther]
    · simp [hno t ht]
  simp only [parseLine, hany, hcmd, lookupCmd_exposed hwf hm he]
  exact parseCmd_roundtrip_items hfun hok hpos hsing hstar hp hs hpre hpost

/-- several options in one single-dash string are the call their options give written one by one, each in full
(`--name`, `--name value`) -/
theorem C17_cluster_eq_separate (ms : List Member) (hwf : wellFormed ms = true) (m : Member) (hm : m ∈ ms)
    (he : m.exposed = true) (hfun : m.kind = .function)
    (singles starL : List Param) (hpos : m.params.filter Param.isPos = singles ++ starL)
    (hsing : ∀ p ∈ singles, p.kind = .positional)
    (hstar : starL = [] ∨ ∃ sp, starL = [sp] ∧ sp.kind = .varPositional)
    (cmd : Word) (hcmd : cmd.text = dash m.name)
    (pargs sargs : List PosArg) (hp : posOk singles pargs) (hs : ∀ x ∈ sargs, ∃ sp ∈ starL, x.ok sp)
    (it : Item) (hit : it.ok m.params) :
    parseLine (commandTable ms) (.word cmd :: (renderPos pargs ++ (renderPos sargs ++ it.render)))
      = parseLine (commandTable ms) (.word cmd :: (renderPos pargs ++ (renderPos sargs
          ++ renderOpts (it.choices.map fun c => plainChoice c.p c.w c.a)))) := by
  have hcs : ∀ c ∈ it.choices, c.ok m.params := by
    cases it with
    | one c => intro x hx; simp [Item.choices] at hx; exact hx ▸ hit
    | cluster f jf fs c =>
      obtain ⟨hf, hfs, hc, _⟩ := hit
      intro x hx
      simp only [Item.choices, List.mem_cons, List.mem_append, List.mem_map, List.not_mem_nil, or_false] at hx
      rcases hx with rfl | ⟨y, hy, rfl⟩ | rfl
      · exact hf.1
      · exact (hfs y hy).1
      · exact hc
  have h1 := C17_roundtrip_cluster ms hwf m hm he hfun singles starL hpos hsing hstar cmd hcmd pargs sargs hp hs [] [it]
    (by simp) (by simpa using hit)
  have h2 := C17_roundtrip ms hwf m hm he hfun singles starL hpos hsing hstar cmd hcmd pargs sargs hp hs []
    (it.choices.map fun c => plainChoice c.p c.w c.a) (by simp)
    (by
      intro x hx
      obtain ⟨c, hc, rfl⟩ := List.mem_map.mp hx
      obtain ⟨h1, h2, _, h4, _⟩ := hcs c hc
      exact ⟨h1, h2, by simp [plainChoice], h4, by simp [plainChoice], by simp [plainChoice], by simp [plainChoice]⟩)
  simp only [renderItems, renderOpts, itemChoices, List.flatMap_nil, List.nil_append, List.flatMap_cons, List.append_nil] at h1 h2
  simp only [renderOpts]
  rw [h1, h2, C17_form_irrelevant singles starL pargs sargs it.choices (it.choices.map fun c => plainChoice c.p c.w c.a)
    (by simp [List.map_map, Function.comp_def, plainChoice])]

/-- `-cVALUE` and `-c=VALUE` (one string; `c` the letter of an option that takes a value) bind the option exactly as
`-c VALUE` does: the same call, the option's entry is the value — whatever the lexer makes of VALUE read as letters -/
theorem C17_roundtrip_attached (ms : List Member) (hwf : wellFormed ms = true) (m : Member) (hm : m ∈ ms)
    (he : m.exposed = true) (hfun : m.kind = .function)
    (singles starL : List Param) (hpos : m.params.filter Param.isPos = singles ++ starL)
    (hsing : ∀ p ∈ singles, p.kind = .positional)
    (hstar : starL = [] ∨ ∃ sp, starL = [sp] ∧ sp.kind = .varPositional)
    (cmd : Word) (hcmd : cmd.text = dash m.name)
    (pargs sargs : List PosArg) (hp : posOk singles pargs) (hs : ∀ x ∈ sargs, ∃ sp ∈ starL, x.ok sp)
    (p : Param) (hpm : p ∈ m.params) (hk : p.kind = .optional) (f : Char) (hf : (p, some f) ∈ assignFlags m.params [])
    (w : Word) (a : Atom) (hconv : convert p.conv w = some a) (hdd : w.text ≠ dashdash)
    (e : Bool) (letters : List (Char × Option Word)) :
    parseLine (commandTable ms) (.word cmd :: (renderPos pargs ++ (renderPos sargs ++ [.attached f e w letters])))
      = some (.act (.call m.name
          (m.params.map fun q => (q.name, argFor (finalState singles starL pargs sargs [plainChoice p w a]) q))))
    ∧ parseLine (commandTable ms) (.word cmd :: (renderPos pargs ++ (renderPos sargs ++ [.attached f e w letters])))
      = parseLine (commandTable ms) (.word cmd :: (renderPos pargs ++ (renderPos sargs ++ [.short f, .word w])))
    ∧ argFor (finalState singles starL pargs sargs [plainChoice p w a]) p = .one a := by
  have hopt : p.isOpt = true := by simp [Param.isOpt, hk]
  have hkf : p.kind ≠ .flag := by simp [hk]
  have h1 := roundtrip_one ms hwf m hm he hfun singles starL hpos hsing hstar cmd hcmd pargs sargs hp hs
    { p := p, short := some f, w := w, a := a, glued := some e, tail := letters }
    ⟨hpm, hopt, by intro g hg; cases hg; exact hf, fun _ => hconv, by simp, by simp, fun _ => hdd⟩
  have h2 := roundtrip_one ms hwf m hm he hfun singles starL hpos hsing hstar cmd hcmd pargs sargs hp hs
    { p := p, short := some f, w := w, a := a }
    ⟨hpm, hopt, by intro g hg; cases hg; exact hf, fun _ => hconv, by simp, by simp, by simp⟩
  have hr1 : ({ p := p, short := some f, w := w, a := a, glued := some e, tail := letters } : Choice).render
      = [.attached f e w letters] := by simp [Choice.render, hkf]
  have hr2 : ({ p := p, short := some f, w := w, a := a } : Choice).render = [.short f, .word w] := by
    simp [Choice.render, hkf]
  rw [hr1] at h1
  rw [hr2] at h2
  refine ⟨h1, h1.trans h2.symm, ?_⟩
  have := C17_value_option_given singles starL pargs sargs [plainChoice p w a] (by simp) (plainChoice p w a) (by simp)
    (by simpa [plainChoice] using hopt)
  simpa [plainChoice, Choice.val, hkf] using this

/-- the separator `--` anywhere in or in front of the positional strings (options, in any form, before it): the same
call as without it.  The strings behind it are words whatever they look like (the lexer's doing); the command must have
a positional parameter to take the separator in, unless a positional string stands in front of it -/
theorem C17_roundtrip_after_separator (ms : List Member) (hwf : wellFormed ms = true) (m : Member) (hm : m ∈ ms)
    (he : m.exposed = true) (hfun : m.kind = .function)
    (singles starL : List Param) (hpos : m.params.filter Param.isPos = singles ++ starL)
    (hsing : ∀ p ∈ singles, p.kind = .positional)
    (hstar : starL = [] ∨ ∃ sp, starL = [sp] ∧ sp.kind = .varPositional)
    (cmd : Word) (hcmd : cmd.text = dash m.name)
    (pargs sargs : List PosArg) (hp : posOk singles pargs) (hs : ∀ x ∈ sargs, ∃ sp ∈ starL, x.ok sp)
    (pre : List Item) (hpre : ∀ it ∈ pre, it.ok m.params)
    (w1 w2 : List Tok) (hsplit : w1 ++ w2 = renderPos pargs ++ renderPos sargs)
    (htake : w1 ≠ [] ∨ singles ++ starL ≠ []) :
    parseLine (commandTable ms) (.word cmd :: (renderItems pre ++ (w1 ++ .sep :: w2)))
      = some (.act (.call m.name
          (m.params.map fun p => (p.name, argFor (finalState singles starL pargs sargs (itemChoices pre)) p))))
    ∧ parseLine (commandTable ms) (.word cmd :: (renderItems pre ++ (w1 ++ .sep :: w2)))
      = parseLine (commandTable ms) (.word cmd :: (renderItems pre ++ (w1 ++ w2))) := by
  have hok := wf_params hwf hm he
  have hwords : ∀ t ∈ w1 ++ w2, Tok.isOther t = false := by
    intro t ht
    rw [hsplit] at ht
    rcases List.mem_append.mp ht with h | h <;> exact (plain_renderPos (optTable m.params) _ t h).2.1
  have hany : (Tok.word cmd :: (renderItems pre ++ (w1 ++ .sep :: w2))).any Tok.isOther = false := by
    rw [List.any_eq_false]
    intro t ht
    simp only [List.mem_cons, List.mem_append] at ht
    have : Tok.isOther t = false := by
      rcases ht with rfl | h | h | rfl | h
      · rfl
      · exact (plain_renderItems hok hpre t h).2.1
      · exact hwords t (List.mem_append_left _ h)
      · rfl
      · exact hwords t (List.mem_append_right _ h)
    simp [this]
  have h1 : parseLine (commandTable ms) (.word cmd :: (renderItems pre ++ (w1 ++ .sep :: w2)))
      = some (.act (.call m.name
          (m.params.map fun p => (p.name, argFor (finalState singles starL pargs sargs (itemChoices pre)) p)))) := by
    simp only [parseLine, hany, hcmd, lookupCmd_exposed hwf hm he]
    exact parseCmd_roundtrip_sep hfun hok hpos hsing hstar hp hs hpre w1 w2 hsplit htake
  refine ⟨h1, ?_⟩
  have h2 := C17_roundtrip_cluster ms hwf m hm he hfun singles starL hpos hsing hstar cmd hcmd pargs sargs hp hs pre []
    hpre (by simp)
  have hnil : renderItems ([] : List Item) = [] := rfl
  rw [hnil, List.append_nil, List.append_nil, ← hsplit] at h2
  rw [h1, h2]

/-- behind the letter of an option that takes no value (a flag, `-h`) stands a character that is no option letter of
the command (`-lx`, `-hx`), or nothing but the `=` (`-l=`, `-h=`): `ignored explicit argument`; nothing behind it is
looked at, nothing of the string takes effect -/
theorem C17_attached_refused (me : Str) (tbl : List OptSpec) (c : Char) (e : Bool) (v : Word)
    (more : List (Char × Option Word)) (rest : List Tok) (st : PState) (o : OptSpec)
    (hfind : findShort tbl c = some o) (hno : o.valued = none)
    (hbad : more = [] ∨ ∃ c' a' more', more = (c', a') :: more' ∧ findShort tbl c' = none) :
    scanOpts me tbl (.attached c e v more :: rest) st = .stop (some (.error .explicitArg)) := by
  have hw : walk tbl more o (some v) [] = .refused := by
    rw [walk.eq_def]
    rcases hbad with rfl | ⟨c', a', more', rfl, hf⟩
    · simp [hno]
    · simp [hno, hf]
  simp [scanOpts, hfind, hw]

/-- a single-dash string whose first letter is no option of the command is left over whole (`-zG`, `-z=G`, `-1x`), like
an unknown short flag: the scan goes on, and the line is answered `unrecognized arguments` if nothing else is wrong -/
theorem C17_unknown_attached_left_over (me : Str) (tbl : List OptSpec) (c : Char) (e : Bool) (v : Word)
    (more : List (Char × Option Word)) (rest : List Tok) (st : PState) (hfind : findShort tbl c = none) :
    scanOpts me tbl (.attached c e v more :: rest) st = scanOpts me tbl rest { st with extras := true } := by
  simp [scanOpts, hfind]

/-- an exact option string wins over being the prefix of another one (`--n` with both `--n` and `--num` present) -/
theorem C17_exact_wins (ps : List Param) (hok : paramsOk ps = true) (o : OptSpec) (ho : o ∈ optTable ps) :
    resolveLong (optTable ps) o.long = .one o :=
  resolveLong_exact (optsOk_optTable hok) ho

/-- the prefix of two or more long option strings that is equal to none of them — anywhere behind the command word,
in either form — makes the whole line an error, whatever else it contains (a help request included) -/
theorem C17_ambiguous_rejected (c : Cmd) (toks : List Tok)
    (h : toks.any (ambiguousTok (optTable c.member.params)) = true) : parseCmd c toks = some (.error .ambiguous) := by
  simp [parseCmd, h]

/-- `--flag=value` and `--help=value`: an option that takes no value refuses one (`ignored explicit argument`), also
when the value is empty; nothing behind it is looked at -/
theorem C17_explicit_value_refused (me : Str) (tbl : List OptSpec) (n : Str) (v : Word) (rest : List Tok) (st : PState)
    (o : OptSpec) (hres : resolveLong tbl n = .one o) (hno : o.param = none ∨ ∃ p, o.param = some p ∧ p.kind = .flag) :
    scanOpts me tbl (.eq n v :: rest) st = .stop (some (.error .explicitArg)) := by
  rcases hno with h | ⟨p, h, hk⟩
  · simp [scanOpts, hres, h]
  · simp [scanOpts, hres, h, hk]

/-- a long option string that is neither an option of the command nor a prefix of one is left over, like an unknown
short flag: the scan goes on, and the line is answered `unrecognized arguments` if nothing else is wrong with it -/
theorem C17_unknown_long_left_over (me : Str) (tbl : List OptSpec) (n : Str) (hn : n ≠ []) (v : Word) (rest : List Tok)
    (st : PState) (hres : resolveLong tbl n = .unknown) :
    scanOpts me tbl (.long n :: rest) st = scanOpts me tbl rest { st with extras := true }
    ∧ scanOpts me tbl (.eq n v :: rest) st = scanOpts me tbl rest { st with extras := true } := by
  constructor
  · rw [scanOpts_long_cons hn, hres]
  · simp [scanOpts, hres]

/-- no two options of a command share a short flag -/
theorem C17_flags_unique (ps : List Param) (used : List Char) :
    ((assignFlags ps used).filterMap (·.2)).Nodup ∧ ∀ f ∈ (assignFlags ps used).filterMap (·.2), f ∉ used :=
  ⟨(assignFlags_spec ps used).2, fun f hf => ((assignFlags_spec ps used).1 f hf).2⟩

/-- the namespace is split exactly: positional-or-keyword parameters positionally in signature order, the
var-positional one unpacked, all others by keyword; every entry goes to exactly one place -/
theorem C17_dispatch_exact (ps : List Param) (val : Param → ArgVal) :
    dispatch ps (ps.map fun p => (p.name, val p))
      = { pos := (ps.filter fun p => p.pass == .byPosition).map val,
          star := ((ps.filter fun p => p.pass == .byStar).map fun p => starOf (val p)).flatten,
          kw := (ps.filter fun p => p.pass == .byKeyword).map fun p => (p.name, val p) }
    ∧ (ps.filter fun p => p.pass == .byPosition).length + (ps.filter fun p => p.pass == .byStar).length
        + (ps.filter fun p => p.pass == .byKeyword).length = ps.length :=
  ⟨dispatch_aligned ps val, pass_partition ps⟩

/-- `ok` for `None`, otherwise `str()` of the result or of the exception — property setters included; a getter
writes `str()` of whatever it returned -/
theorem C17_reply_rule (m : Str) (args : List (Str × ArgVal)) (v : Atom) (s : Str) :
    replyText (.call m args) .none = okText ∧ replyText (.set m v) .none = okText
    ∧ replyText (.call m args) (.value s) = s ∧ replyText (.call m args) (.raised s) = s
    ∧ replyText (.set m v) (.raised s) = s ∧ replyText (.get m) (.value s) = s ∧ replyText (.get m) (.raised s) = s :=
  ⟨rfl, rfl, rfl, rfl, rfl, rfl, rfl⟩

/-! non-vacuity: `say_hi(x, *more, how=1, loud=False)` called as `say-hi -l 4 5 6 --how 7` -/

def e17X : Param := { name := ['x'], kind := .positional, pass := .byPosition, conv := .int }
def e17More : Param := { name := ['m'], kind := .varPositional, pass := .byStar, conv := .int }
def e17How : Param := { name := ['h', 'o', 'w'], kind := .optional, pass := .byKeyword, conv := .int }
def e17Loud : Param := { name := ['l'], kind := .flag, pass := .byKeyword, conv := .str }
def e17Say : Member := { name := ['s', 'a', 'y', '_', 'h', 'i'], kind := .function, params := [e17X, e17More, e17How, e17Loud] }
def e17Num (t : Str) (i : Int) : Word := { text := t, int? := some i, floatOk := true, litOk := true, dotOk := false }
def e17CmdWord : Word := { text := ['s', 'a', 'y', '-', 'h', 'i'], int? := none, floatOk := false, litOk := false, dotOk := false }

example : parseLine (commandTable [e17Say])
    [.word e17CmdWord, .short 'l', .word (e17Num ['4'] 4), .word (e17Num ['5'] 5), .word (e17Num ['6'] 6),
     .long ['h', 'o', 'w'], .word (e17Num ['7'] 7)]
    = some (.act (.call e17Say.name [(['x'], .one (.int 4)), (['m'], .many [.int 5, .int 6]),
        (['h', 'o', 'w'], .one (.int 7)), (['l'], .flag true)])) := by decide +kernel

example : dispatch e17Say.params [(['x'], .one (.int 4)), (['m'], .many [.int 5, .int 6]),
        (['h', 'o', 'w'], .one (.int 7)), (['l'], .flag true)]
    = { pos := [.one (.int 4)], star := [.int 5, .int 6], kw := [(['h', 'o', 'w'], .one (.int 7)), (['l'], .flag true)] } := by
  decide +kernel

example : parseLine (commandTable [e17Say]) [.word e17CmdWord, .word (e17Num ['4'] 4)]
    = some (.act (.call e17Say.name [(['x'], .one (.int 4)), (['m'], .many []), (['h', 'o', 'w'], .dflt), (['l'], .flag false)])) := by
  decide +kernel

/-! non-vacuity of the `=` form and of abbreviations: `tune(speed=1, size=2, strict=False, n=0, num=0, hint="")` -/

def e17Opt (n : Str) (c : Conv) : Param := { name := n, kind := .optional, pass := .byPosition, conv := c }
def e17Speed : Param := e17Opt ['s', 'p', 'e', 'e', 'd'] .int
def e17Size : Param := e17Opt ['s', 'i', 'z', 'e'] .int
def e17Strict : Param := { name := ['s', 't', 'r', 'i', 'c', 't'], kind := .flag, pass := .byPosition, conv := .str }
def e17N : Param := e17Opt ['n'] .int
def e17Nu : Param := e17Opt ['n', 'u', 'm'] .int
def e17Hint : Param := e17Opt ['h', 'i', 'n', 't'] .str
def e17Tune : Member :=
  { name := ['t', 'u', 'n', 'e'], kind := .function, params := [e17Speed, e17Size, e17Strict, e17N, e17Nu, e17Hint] }
def e17TuneWord : Word := { text := ['t', 'u', 'n', 'e'], int? := none, floatOk := false, litOk := false, dotOk := false }
def e17Text (t : Str) : Word := { text := t, int? := none, floatOk := false, litOk := false, dotOk := false }
def e17T : Table := commandTable [e17Tune]

example : wellFormed [e17Tune] = true := by decide +kernel
-- `--sp` abbreviates `--speed` and nothing else; `--s` does not
example : abbrevOk (optTable e17Tune.params) ['s', 'p'] (dash e17Speed.name) := by unfold abbrevOk; decide +kernel
example : ¬ abbrevOk (optTable e17Tune.params) ['s'] (dash e17Speed.name) := by unfold abbrevOk; decide +kernel
-- `tune --sp=1 --str --hi=`: abbreviations, `=` form, an empty string value
example : parseLine e17T [.word e17TuneWord, .eq ['s', 'p'] (e17Num ['1'] 1), .long ['s', 't', 'r'], .eq ['h', 'i'] (e17Text [])]
    = some (.act (.call e17Tune.name [(e17Speed.name, .one (.int 1)), (e17Size.name, .dflt), (e17Strict.name, .flag true),
        (e17N.name, .dflt), (e17Nu.name, .dflt), (e17Hint.name, .one (.str []))])) := by decide +kernel
-- the same call written in full
example : parseLine e17T [.word e17TuneWord, .eq ['s', 'p'] (e17Num ['1'] 1), .long ['s', 't', 'r'], .eq ['h', 'i'] (e17Text [])]
    = parseLine e17T [.word e17TuneWord, .long e17Speed.name, .word (e17Num ['1'] 1), .long e17Strict.name,
        .long e17Hint.name, .word (e17Text [])] := by decide +kernel
-- `--n 3`: an exact option string although a prefix of `--num`; `--nu=2` is `--num`
example : parseLine e17T [.word e17TuneWord, .long ['n'], .word (e17Num ['3'] 3), .eq ['n', 'u'] (e17Num ['2'] 2)]
    = some (.act (.call e17Tune.name [(e17Speed.name, .dflt), (e17Size.name, .dflt), (e17Strict.name, .flag false),
        (e17N.name, .one (.int 3)), (e17Nu.name, .one (.int 2)), (e17Hint.name, .dflt)])) := by decide +kernel
-- `--s=1`, `--s`: speed, size or strict; also behind a help request, also in front of a bad value
example : parseLine e17T [.word e17TuneWord, .eq ['s'] (e17Num ['1'] 1)] = some (.error .ambiguous) := by decide +kernel
example : parseLine e17T [.word e17TuneWord, .short 'h', .long ['s']] = some (.error .ambiguous) := by decide +kernel
example : parseLine e17T [.word e17TuneWord, .eq e17Size.name (e17Text ['x']), .long ['s']] = some (.error .ambiguous) := by
  decide +kernel
-- `--strict=1`, `--str=`, `--help=1`, top-level `--hel=x`: no value wanted
example : parseLine e17T [.word e17TuneWord, .eq e17Strict.name (e17Num ['1'] 1)] = some (.error .explicitArg) := by decide +kernel
example : parseLine e17T [.word e17TuneWord, .eq ['s', 't', 'r'] (e17Text [])] = some (.error .explicitArg) := by decide +kernel
example : parseLine e17T [.word e17TuneWord, .eq helpName (e17Num ['1'] 1)] = some (.error .explicitArg) := by decide +kernel
example : parseLine e17T [.eq ['h', 'e', 'l'] (e17Text ['x'])] = some (.error .explicitArg) := by decide +kernel
-- `--he`: only `--help` starts like that (`--hint` does not); `--h` is ambiguous
example : parseLine e17T [.word e17TuneWord, .long ['h', 'e']] = some (.help (some e17Tune.name)) := by decide +kernel
example : parseLine e17T [.word e17TuneWord, .long ['h']] = some (.error .ambiguous) := by decide +kernel
-- `--speed=` (an empty string is no int), `--speed=x`
example : parseLine e17T [.word e17TuneWord, .eq e17Speed.name (e17Text [])] = some (.error .badValue) := by decide +kernel
-- `--zz=1`, `--zz`: no option starts like that — left over
example : parseLine e17T [.word e17TuneWord, .eq ['z', 'z'] (e17Num ['1'] 1)] = some (.error .unrecognized) := by decide +kernel
example : parseLine e17T [.word e17TuneWord, .long ['z', 'z']] = some (.error .unrecognized) := by decide +kernel
-- `--hint=--`: outside the fragment (argparse stores an empty list)
example : parseLine e17T [.word e17TuneWord, .eq e17Hint.name (e17Text dashdash)] = none := by decide +kernel

/-! non-vacuity of the single-dash forms and of the separator: `note(first, *words, sep="+", high=0, quiet=False, loud=False)`
— `-s SEP`, `-H HIGH` (`-h` is help), `-q`, `-l` -/

def e17First : Param := { name := ['f', 'i', 'r', 's', 't'], kind := .positional, pass := .byPosition, conv := .str }
def e17Words : Param := { name := ['w', 'o', 'r', 'd', 's'], kind := .varPositional, pass := .byStar, conv := .str }
def e17Sep : Param := { name := ['s', 'e', 'p'], kind := .optional, pass := .byKeyword, conv := .str }
def e17High : Param := { name := ['h', 'i', 'g', 'h'], kind := .optional, pass := .byKeyword, conv := .int }
def e17Quiet : Param := { name := ['q', 'u', 'i', 'e', 't'], kind := .flag, pass := .byKeyword, conv := .str }
def e17Lou : Param := { name := ['l', 'o', 'u', 'd'], kind := .flag, pass := .byKeyword, conv := .str }
def e17Note : Member :=
  { name := ['n', 'o', 't', 'e'], kind := .function, params := [e17First, e17Words, e17Sep, e17High, e17Quiet, e17Lou] }
def e17NT : Table := commandTable [e17Note, e17Tune]
def e17NoteWord : Word := e17Text ['n', 'o', 't', 'e']
def e17A : Word := e17Text ['a']
def e17B : Word := e17Text ['b']
def e17Three : Word := e17Num ['3'] 3
/-- the namespace of `note a … ` with the given option entries -/
def e17Call (ws : List Atom) (sep high quiet loud : ArgVal) : Option Verdict :=
  some (.act (.call e17Note.name [(e17First.name, .one (.str ['a'])), (e17Words.name, .many ws), (e17Sep.name, sep),
    (e17High.name, high), (e17Quiet.name, quiet), (e17Lou.name, loud)]))

example : wellFormed [e17Note, e17Tune] = true := by decide +kernel
example : assignFlags e17Note.params [] = [(e17First, none), (e17Words, none), (e17Sep, some 's'), (e17High, some 'H'),
    (e17Quiet, some 'q'), (e17Lou, some 'l')] := by decide +kernel
-- `note a -ql` = `note a -q -l`
example : parseLine e17NT [.word e17NoteWord, .word e17A, .attached 'q' false (e17Text ['l']) [('l', none)]]
    = e17Call [] .dflt .dflt (.flag true) (.flag true) := by decide +kernel
example : parseLine e17NT [.word e17NoteWord, .word e17A, .attached 'q' false (e17Text ['l']) [('l', none)]]
    = parseLine e17NT [.word e17NoteWord, .word e17A, .short 'q', .short 'l'] := by decide +kernel
-- `note a -H3`, `note a -H=3`, `note a -H 3`: the same call
example : parseLine e17NT [.word e17NoteWord, .word e17A, .attached 'H' false e17Three [('3', none)]]
    = e17Call [] .dflt (.one (.int 3)) (.flag false) (.flag false) := by decide +kernel
example : parseLine e17NT [.word e17NoteWord, .word e17A, .attached 'H' true e17Three [('3', none)]]
    = parseLine e17NT [.word e17NoteWord, .word e17A, .short 'H', .word e17Three] := by decide +kernel
-- `note -qlH3 a`, `note -qlH 3 a`: flags, then an option with its value attached / in the next string; options first
example : parseLine e17NT [.word e17NoteWord,
      .attached 'q' false (e17Text ['l', 'H', '3']) [('l', some (e17Text ['H', '3'])), ('H', some e17Three), ('3', none)], .word e17A]
    = e17Call [] .dflt (.one (.int 3)) (.flag true) (.flag true) := by decide +kernel
example : parseLine e17NT [.word e17NoteWord,
      .attached 'q' false (e17Text ['l', 'H']) [('l', some (e17Text ['H'])), ('H', none)], .word e17Three, .word e17A]
    = e17Call [] .dflt (.one (.int 3)) (.flag true) (.flag true) := by decide +kernel
-- `note a -q=l`: one `=` behind the first letter is dropped, also behind a flag
example : parseLine e17NT [.word e17NoteWord, .word e17A, .attached 'q' true (e17Text ['l']) [('l', none)]]
    = e17Call [] .dflt .dflt (.flag true) (.flag true) := by decide +kernel
-- `note a -s=`: an empty string value; `note a -H=`: no int
example : parseLine e17NT [.word e17NoteWord, .word e17A, .attached 's' true (e17Text []) []]
    = e17Call [] (.one (.str [])) .dflt (.flag false) (.flag false) := by decide +kernel
example : parseLine e17NT [.word e17NoteWord, .word e17A, .attached 'H' true (e17Text []) []] = some (.error .badValue) := by
  decide +kernel
-- `note a -qH=3`: inside a cluster the `=` belongs to the value (`=3` is no int); `-s` takes it
example : parseLine e17NT [.word e17NoteWord, .word e17A,
      .attached 'q' false (e17Text ['H', '=', '3']) [('H', some (e17Text ['=', '3'])), ('=', some e17Three), ('3', none)]]
    = some (.error .badValue) := by decide +kernel
example : parseLine e17NT [.word e17NoteWord, .word e17A,
      .attached 'q' false (e17Text ['s', '=', '3']) [('s', some (e17Text ['=', '3'])), ('=', some e17Three), ('3', none)]]
    = e17Call [] (.one (.str ['=', '3'])) .dflt (.flag true) (.flag false) := by decide +kernel
-- `-qx`, `-q=`, `-hx`: ignored explicit argument; nothing of the string takes effect
example : parseLine e17NT [.word e17NoteWord, .word e17A, .attached 'q' false (e17Text ['x']) [('x', none)]]
    = some (.error .explicitArg) := by decide +kernel
example : parseLine e17NT [.word e17NoteWord, .word e17A, .attached 'q' true (e17Text []) []] = some (.error .explicitArg) := by
  decide +kernel
example : parseLine e17NT [.word e17NoteWord, .word e17A, .attached 'h' false (e17Text ['x']) [('x', none)]]
    = some (.error .explicitArg) := by decide +kernel
-- `-qh`, `-hq`: the command's help; `-hH` at the end of the line: the missing value is reported first; `-hH x`: help
example : parseLine e17NT [.word e17NoteWord, .word e17A, .attached 'q' false (e17Text ['h']) [('h', none)]]
    = some (.help (some e17Note.name)) := by decide +kernel
example : parseLine e17NT [.word e17NoteWord, .word e17A, .attached 'h' false (e17Text ['q']) [('q', none)]]
    = some (.help (some e17Note.name)) := by decide +kernel
example : parseLine e17NT [.word e17NoteWord, .word e17A, .attached 'h' false (e17Text ['H']) [('H', none)]]
    = some (.error .needsValue) := by decide +kernel
example : parseLine e17NT [.word e17NoteWord, .word e17A, .attached 'h' false (e17Text ['H']) [('H', none)], .word (e17Text ['x'])]
    = some (.help (some e17Note.name)) := by decide +kernel
-- `-qHx`: the flag is fine, the value is no int
example : parseLine e17NT [.word e17NoteWord, .word e17A,
      .attached 'q' false (e17Text ['H', 'x']) [('H', some (e17Text ['x'])), ('x', none)]] = some (.error .badValue) := by
  decide +kernel
-- `-zG`, `-1x`: the first letter is no option of the command — left over whole
example : parseLine e17NT [.word e17NoteWord, .word e17A, .attached 'z' false (e17Text ['G']) [('G', none)]]
    = some (.error .unrecognized) := by decide +kernel
-- `-s--`, `-s=--`: outside the fragment (argparse stores an empty list)
example : parseLine e17NT [.word e17NoteWord, .word e17A, .attached 's' false (e17Text dashdash) [('-', some (e17Text ['-'])), ('-', none)]]
    = none := by decide +kernel
-- top level: `-hh` is help, `-hx` and `-h=` are refused
example : parseLine e17NT [.attached 'h' false (e17Text ['h']) [('h', none)]] = some (.help none) := by decide +kernel
example : parseLine e17NT [.attached 'h' false (e17Text ['x']) [('x', none)], .word e17NoteWord] = some (.error .explicitArg) := by
  decide +kernel
example : parseLine e17NT [.attached 'h' true (e17Text []) []] = some (.error .explicitArg) := by decide +kernel
-- `note -- a b`, `note a -- b`, `note a b --`, `note -q -- a b`: the separator changes nothing
example : parseLine e17NT [.word e17NoteWord, .sep, .word e17A, .word e17B]
    = e17Call [.str ['b']] .dflt .dflt (.flag false) (.flag false) := by decide +kernel
example : parseLine e17NT [.word e17NoteWord, .word e17A, .sep, .word e17B]
    = parseLine e17NT [.word e17NoteWord, .word e17A, .word e17B] := by decide +kernel
example : parseLine e17NT [.word e17NoteWord, .word e17A, .word e17B, .sep]
    = parseLine e17NT [.word e17NoteWord, .word e17A, .word e17B] := by decide +kernel
example : parseLine e17NT [.word e17NoteWord, .short 'q', .sep, .word e17A, .word e17B]
    = e17Call [.str ['b']] .dflt .dflt (.flag true) (.flag false) := by decide +kernel
-- `note a -- -q`: behind the separator `-q` is a word
example : parseLine e17NT [.word e17NoteWord, .word e17A, .sep, .word (e17Text ['-', 'q'])]
    = e17Call [.str ['-', 'q']] .dflt .dflt (.flag false) (.flag false) := by decide +kernel
-- `note --`: the positional is missing; `note a -q --`, `note a -q -- b`: the separator and all behind it are left over
example : parseLine e17NT [.word e17NoteWord, .sep] = some (.error .missing) := by decide +kernel
example : parseLine e17NT [.word e17NoteWord, .word e17A, .short 'q', .sep] = some (.error .unrecognized) := by decide +kernel
example : parseLine e17NT [.word e17NoteWord, .word e17A, .short 'q', .sep, .word e17B] = some (.error .unrecognized) := by
  decide +kernel
-- `note -q --`: options, the separator, nothing behind it — the positional is missing
example : parseLine e17NT [.word e17NoteWord, .short 'q', .sep] = some (.error .missing) := by decide +kernel
-- `tune --`: a command without positional parameters leaves the separator over; `tune -n --`: the value is missing
example : parseLine e17NT [.word e17TuneWord, .sep] = some (.error .unrecognized) := by decide +kernel
example : parseLine e17NT [.word e17TuneWord, .short 'n', .sep, .word e17Three] = some (.error .needsValue) := by decide +kernel
-- an ambiguous abbreviation in front of the separator is fatal as ever
example : parseLine e17NT [.word e17TuneWord, .long ['s'], .sep] = some (.error .ambiguous) := by decide +kernel
-- a second `--` (the lexer's `other`) and `--` as the first string: outside the fragment
example : parseLine e17NT [.word e17NoteWord, .sep, .word e17A, .other] = none := by decide +kernel
example : parseLine e17NT [.sep, .word e17NoteWord, .word e17A] = none := by decide +kernel

end Taskpool.Control
