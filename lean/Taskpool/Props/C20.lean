import Taskpool.Inv.QueuePutSteps
/-! # C20 — the queue context manager marks every taken item processed exactly once

Model: `Taskpool/Model/Queue.lean` (M2): `asyncio.Queue` + `async with queue as item` of
`asyncio_taskpool.queue_context.Queue`.  A *history* is any list of `Input`s
(`put x` = `put_nowait(x)` by non-task code, `QueueFull` on a full bounded queue · `produce x` = spawn a producer task
`await queue.put(x)`, which waits in `_putters` while the queue is full · `cancelp p` = cancel producer `p` · `spawn` a
consumer · `join` = spawn a `join()` waiter · `cancel c` · `gate c ok|exc` = the body of consumer `c` ends normally /
raises · `take` = code outside every consumer task calls `get_nowait()` and marks the item it got by hand with
`item_processed()` · `run i` = the loop executes its `i`-th ready handle — of a consumer, a producer or a joiner),
applied to the empty queue `Queue(maxsize=m)`; `m = 0` is the unbounded `Queue()`.  Every theorem quantifies over
**all** `m` and **all** histories, hence over every interleaving of producers (blocked or not), consumers, hand marks,
body failures and cancellations before / inside the block or inside `put()`, and over every handle order.

An item counts as *put* when it enters the queue (`puts`): by a `put_nowait` of non-task code that did not raise
(`hputs`) or by a producer that got through its `put()` (`PPhase.done true`).

An item leaves the books in exactly one of two ways: the block it was handed to exits (`exits`, one per consumer
with `CPhase.done e true`), or it was taken and marked by hand (`takes`).

Only property theorems and their non-vacuity examples live here; the invariant and its preservation are in
`Taskpool/Inv/Queue{Inv,Prod,Refine,Steps,Shell,Putters,PutSteps}.lean`. -/
namespace Taskpool
open QueueM

/-- the state the history `ins` leads to on a queue created as `Queue(maxsize=m)` (`m = 0`: `Queue()`, unbounded) -/
abbrev QueueM.after (m : Nat) (ins : List Input) : Q := (Q.initN m).run ins

/-- **C20, exactly once.** In every reachable state: the number of `task_done()` calls equals the number of block
exits plus the number of hand-marked items; the number of block exits equals the number of consumers that were handed
an item and have left their block; and consumer by consumer (hand marks or not), the `__aexit__` of a consumer has called `task_done()` exactly once if it was handed an item and its block
has been left (normally, by exception or by cancellation — `CPhase.done e true` for every `e`), and not at all
otherwise: not while it still waits, not while it is inside the block, and not if it was cancelled while waiting
(`CPhase.done .cancelled false`). -/
theorem C20_marks_once (m : Nat) (ins : List Input) :
    (after m ins).k.tdCalls = (after m ins).k.exits + (after m ins).k.takes
    ∧ (after m ins).k.exits = (after m ins).k.cores.countP Core.tookDone
    ∧ ∀ (c : Nat) (x : Core), (after m ins).k.cores[c]? = some x → x.marks = if x.tookDone then 1 else 0 := by
  have hi := Q.inv_reach m ins
  obtain ⟨_, _, _, d, e⟩ := hi.cnt
  exact ⟨d, e, fun c x hx => hi.core x (List.mem_of_getElem? hx)⟩

/-- **C20, a consumer cancelled while still waiting marks nothing.** Whatever the history and whatever the next
input: if it ends a consumer that had not been handed an item (not started, or waiting in `get()`), then that
consumer ended by cancellation, made no `task_done()` call, and the step removed no item and left the unfinished
counter, the number of `task_done()` calls and the number of hand marks untouched. -/
theorem C20_cancelled_waiter_marks_nothing (m : Nat) (ins : List Input) (i : Input) (c : Nat) (x x' : Core)
    (hx : (after m ins).k.cores[c]? = some x) (hp : preBlock x.phase = true)
    (hx' : ((after m ins).step i).k.cores[c]? = some x') (hd : Q.isDone x'.phase = true) :
    x'.phase = .done .cancelled false ∧ x'.marks = 0
    ∧ ((after m ins).step i).k.items = (after m ins).k.items
    ∧ ((after m ins).step i).k.unfinished = (after m ins).k.unfinished
    ∧ ((after m ins).step i).k.tdCalls = (after m ins).k.tdCalls
    ∧ ((after m ins).step i).k.takes = (after m ins).k.takes := by
  have := (Q.kstep_step (after m ins) i).cancelled_waiter (Q.inv_reach m ins) c x x' hx hp hx' hd
  exact ⟨this.1, this.2.1, this.2.2.1, this.2.2.2.1, this.2.2.2.2.1, this.2.2.2.2.2.2.2⟩

/-- **C20, the books.** In every reachable state the unfinished counter is the number of items still queued plus the
number of consumers inside their block, and `puts = exits + takes + unfinished`, i.e.
`unfinished = puts − exits − takes`: every item put is still unfinished, or its block has exited, or it was taken and
marked by hand. -/
theorem C20_unfinished_eq (m : Nat) (ins : List Input) :
    (after m ins).k.unfinished = (after m ins).k.items.length + (after m ins).k.cores.countP Core.inBlock
    ∧ (after m ins).k.puts = (after m ins).k.exits + (after m ins).k.takes + (after m ins).k.unfinished := by
  obtain ⟨a, b, _, _, _⟩ := (Q.inv_reach m ins).cnt
  exact ⟨a, b⟩

/-- nothing is unfinished exactly when every item put so far has been taken by a block that has exited or was taken
and marked by hand (`exits` = number of consumers that were handed an item and have left their block, by
`C20_marks_once`); equivalently, when no item is queued and no consumer is inside its block -/
theorem C20_all_done_iff (m : Nat) (ins : List Input) :
    ((after m ins).k.unfinished = 0 ↔ (after m ins).k.puts = (after m ins).k.exits + (after m ins).k.takes)
    ∧ ((after m ins).k.unfinished = 0 ↔
        (after m ins).k.puts = (after m ins).k.cores.countP Core.tookDone + (after m ins).k.takes)
    ∧ ((after m ins).k.unfinished = 0 ↔
        (after m ins).k.items = [] ∧ ∀ x ∈ (after m ins).k.cores, x.inBlock = false) := by
  obtain ⟨a, b⟩ := C20_unfinished_eq m ins
  obtain ⟨_, e, _⟩ := C20_marks_once m ins
  refine ⟨by omega, by omega, ?_⟩
  constructor
  · intro h
    have h1 : (after m ins).k.items.length = 0 := by omega
    have h2 : (after m ins).k.cores.countP Core.inBlock = 0 := by omega
    refine ⟨List.length_eq_zero_iff.1 h1, fun x hx => ?_⟩
    have := List.countP_eq_zero.1 h2 x hx
    simpa using this
  · rintro ⟨h1, h2⟩
    have : (after m ins).k.cores.countP Core.inBlock = 0 := List.countP_eq_zero.2 (fun x hx => by simp [h2 x hx])
    rw [a, h1, this]; rfl

/-- **C20, never too often.** `task_done()` never raises `ValueError`: the error branch of the model is unreachable
— its ghost counter stays 0 and the observation log (the stream that is compared with the real run) never shows it. -/
theorem C20_never_too_often (m : Nat) (ins : List Input) :
    (after m ins).k.valueErrors = 0 ∧ Ev.valueError ∉ (after m ins).log :=
  ⟨(Q.inv_reach m ins).cnt.2.2.1, (Q.shell_reach m ins).noVE⟩

/-- **C20, join (release).** Take any reachable state and any `join()` waiter `j` whose future is still pending.
Then work is unfinished, and whatever the next input: the waiter is released — future resolved, task scheduled — by
that step **iff** the step brings the unfinished counter to zero (a block exit or a hand mark — nothing else lowers
the counter); otherwise it is left exactly as it was. -/
theorem C20_join_iff (m : Nat) (ins : List Input) (i : Input) (j : Nat) (x : Joiner)
    (hx : (after m ins).k.joiners[j]? = some x) (hp : x.phase = .waiting) (hf : x.fut = .pending) :
    0 < (after m ins).k.unfinished ∧
    ∃ x', ((after m ins).step i).k.joiners[j]? = some x' ∧ x'.phase = .waiting
      ∧ (x'.fut = .woken ↔ ((after m ins).step i).k.unfinished = 0)
      ∧ (x'.fut = .woken → x'.sched = true)
      ∧ (x'.fut ≠ .woken → x' = x) := by
  obtain ⟨hpos, x', h1, h2, h3⟩ := (Q.kstep_step (after m ins) i).join_release (Q.inv_reach m ins) j x hx hp hf
  refine ⟨hpos, x', h1, h2, ?_⟩
  rcases h3 with ⟨a, b, c⟩ | ⟨a, rfl⟩
  · exact ⟨⟨fun _ => a, fun _ => b⟩, fun _ => c, fun h => absurd b h⟩
  · refine ⟨⟨fun h => ?_, fun h => by omega⟩, fun h => ?_, fun _ => rfl⟩ <;> simp [hf] at h

/-- **C20, join (call time).** When the loop runs the first step of a `join()` task, the call returns at once iff
nothing is unfinished at that moment; otherwise the task becomes a pending waiter of the `_finished` event. -/
theorem C20_join_at_call (m : Nat) (ins : List Input) (n j : Nat) (x : Joiner)
    (hr : (after m ins).ready[n]? = some (.joiner j))
    (hx : (after m ins).k.joiners[j]? = some x) (hp : x.phase = .notStarted) :
    ∃ x', ((after m ins).step (.run n)).k.joiners[j]? = some x' ∧
      (((after m ins).k.unfinished = 0 ∧ x'.phase = .done
          ∧ ((after m ins).step (.run n)).log = (after m ins).log ++ [.joined j])
       ∨ (0 < (after m ins).k.unfinished ∧ x'.phase = .waiting ∧ x'.fut = .pending
          ∧ ((after m ins).step (.run n)).log = (after m ins).log)) := by
  obtain ⟨x', h1, h2⟩ := K.join_at_call _ (Q.inv_reach m ins) j x hx hp
  have hk : ((after m ins).step (.run n)).k = (after m ins).k.stepJoiner j := by simp [Q.step, hr, Q.runRef]
  have hl : ((after m ins).step (.run n)).log = (after m ins).log ++ (if (after m ins).k.joins j then [.joined j] else []) := by
    simp [Q.step, hr, Q.runRef, Q.stepJoiner]
  refine ⟨x', hk ▸ h1, ?_⟩
  rcases h2 with ⟨a, b, c⟩ | ⟨a, b, c, _, _, d⟩
  · exact .inl ⟨a, b, by rw [hl, c]; rfl⟩
  · exact .inr ⟨a, b, c, by rw [hl, d]; simp⟩

/-- **C20, join (return).** A released waiter is scheduled, its wake-up handle is in the loop's ready queue, and
whichever step of the loop runs that handle makes `join()` return. -/
theorem C20_join_returns_after_release (m : Nat) (ins : List Input) (j : Nat) (x : Joiner)
    (hx : (after m ins).k.joiners[j]? = some x) (hp : x.phase = .waiting) (hf : x.fut = .woken) :
    x.sched = true ∧ (∃ n : Nat, (after m ins).ready[n]? = some (Ref.joiner j)) ∧
    ∀ n : Nat, (after m ins).ready[n]? = some (Ref.joiner j) →
      ∃ x', ((after m ins).step (.run n)).k.joiners[j]? = some x' ∧ x'.phase = .done
        ∧ ((after m ins).step (.run n)).log = (after m ins).log ++ [.joined j] := by
  obtain ⟨hs, hj, x', h1, h2⟩ := K.join_wakeup _ (Q.inv_reach m ins) j x hx hp hf
  refine ⟨hs, List.mem_iff_getElem?.1 ((Q.shell_reach m ins).ready j x hx hs), fun n hr => ?_⟩
  have hk : ((after m ins).step (.run n)).k = (after m ins).k.stepJoiner j := by simp [Q.step, hr, Q.runRef]
  have hl : ((after m ins).step (.run n)).log = (after m ins).log ++ (if (after m ins).k.joins j then [.joined j] else []) := by
    simp [Q.step, hr, Q.runRef, Q.stepJoiner]
  exact ⟨x', hk ▸ h1, h2, by rw [hl, hj]; rfl⟩

/-- **C20, join (state form).** In every reachable state the `_finished` event is set iff nothing is unfinished; a
waiter with a pending future exists only while work is unfinished, is registered with the event and is not
scheduled (so `join()` cannot return early), and any other waiter has been released, is scheduled and its wake-up
handle is in the ready queue (no lost wake-up). -/
theorem C20_join_never_early_never_lost (m : Nat) (ins : List Input) :
    ((after m ins).k.finished = true ↔ (after m ins).k.unfinished = 0)
    ∧ ∀ (j : Nat) (x : Joiner), (after m ins).k.joiners[j]? = some x → x.phase = .waiting →
        (x.fut = .pending ∧ j ∈ (after m ins).k.evWaiters ∧ x.sched = false ∧ 0 < (after m ins).k.unfinished)
        ∨ (x.fut = .woken ∧ x.sched = true ∧ Ref.joiner j ∈ (after m ins).ready) := by
  have hj := (Q.inv_reach m ins).jn
  refine ⟨hj.fin, fun j x hx hp => ?_⟩
  by_cases hf : x.fut = .pending
  · exact .inl ⟨hf, hj.wait j x hx hp hf⟩
  · obtain ⟨a, b⟩ := hj.woken j x hx hp hf
    exact .inr ⟨a, b, (Q.shell_reach m ins).ready j x hx b⟩

/-- **C20, a block exit marks exactly once, whatever else happens on the queue.** Whatever the history (hand marks
included) and whatever the next input: if it ends a consumer that is inside its block, then the block was left
(`CPhase.done e true`: normally, by exception or by cancellation), the consumer had made no `task_done()` call before
and has made exactly one now, and that step made exactly one `task_done()` call, which did not raise and lowered the
unfinished counter by exactly one; it took no item and is no hand mark. -/
theorem C20_block_exit_marks_once (m : Nat) (ins : List Input) (i : Input) (c : Nat) (x x' : Core)
    (hx : (after m ins).k.cores[c]? = some x) (hp : isInBlock x.phase = true)
    (hx' : ((after m ins).step i).k.cores[c]? = some x') (hd : Q.isDone x'.phase = true) :
    x.marks = 0 ∧ x'.marks = 1 ∧ (∃ e, x'.phase = .done e true)
    ∧ ((after m ins).step i).k.tdCalls = (after m ins).k.tdCalls + 1
    ∧ ((after m ins).step i).k.exits = (after m ins).k.exits + 1
    ∧ ((after m ins).step i).k.unfinished + 1 = (after m ins).k.unfinished
    ∧ ((after m ins).step i).k.takes = (after m ins).k.takes
    ∧ ((after m ins).step i).k.items = (after m ins).k.items
    ∧ ((after m ins).step i).k.valueErrors = 0 := by
  obtain ⟨a, b, c', d, e, f, g, h, _, j⟩ := (Q.kstep_step (after m ins) i).block_exit (Q.inv_reach m ins) c x x' hx hp hx' hd
  exact ⟨a, b, c', d, e, f, g, h, by rw [j]; exact (Q.inv_reach m ins).cnt.2.2.1⟩

/-- **C20, a hand mark leaves the blocks alone.** Take any reachable state and let non-task code `take`.
* The step changes no consumer: every consumer's phase and every consumer's `marks` are what they were (the list of
  consumer cores is unchanged), and so are the event-loop bookkeeping of the consumer tasks and the `_getters` deque;
  it is not a block exit.
* On an empty queue (`QueueEmpty`) the step changes nothing at all.  Otherwise it removes the head item and makes
  exactly one `task_done()` call, which does not raise: `takes` and the number of `task_done()` calls go up by one,
  the unfinished counter goes down by one, and the log shows the item and the new counter value.
* A block that exits after the `take` — after any continuation `more` of the history, by any input — still marks
  exactly once: the consumer has no mark while inside its block and exactly one when it has left it, the exit step
  makes exactly one `task_done()` call, lowers the unfinished counter by exactly one and is not counted as a hand
  mark. -/
theorem C20_hand_mark_leaves_blocks_alone (m : Nat) (ins : List Input) :
    ((after m ins).step .take).k.cores = (after m ins).k.cores
    ∧ ((after m ins).step .take).aux = (after m ins).aux
    ∧ ((after m ins).step .take).getters = (after m ins).getters
    ∧ ((after m ins).step .take).k.exits = (after m ins).k.exits
    ∧ ((after m ins).k.items = [] → (after m ins).step .take = after m ins)
    ∧ (∀ y rest, (after m ins).k.items = y :: rest →
        ((after m ins).step .take).k.items = rest
        ∧ ((after m ins).step .take).k.takes = (after m ins).k.takes + 1
        ∧ ((after m ins).step .take).k.tdCalls = (after m ins).k.tdCalls + 1
        ∧ ((after m ins).step .take).k.unfinished + 1 = (after m ins).k.unfinished
        ∧ ((after m ins).step .take).k.puts = (after m ins).k.puts
        ∧ ((after m ins).step .take).k.valueErrors = 0
        ∧ ((after m ins).step .take).log
            = (after m ins).log ++ [.handTook y, .taskDone ((after m ins).step .take).k.unfinished])
    ∧ ∀ (more : List Input) (i : Input) (c : Nat) (x x' : Core),
        (after m (ins ++ .take :: more)).k.cores[c]? = some x → isInBlock x.phase = true →
        ((after m (ins ++ .take :: more)).step i).k.cores[c]? = some x' → Q.isDone x'.phase = true →
        x.marks = 0 ∧ x'.marks = 1 ∧ (∃ e, x'.phase = .done e true)
        ∧ ((after m (ins ++ .take :: more)).step i).k.tdCalls = (after m (ins ++ .take :: more)).k.tdCalls + 1
        ∧ ((after m (ins ++ .take :: more)).step i).k.unfinished + 1 = (after m (ins ++ .take :: more)).k.unfinished
        ∧ ((after m (ins ++ .take :: more)).step i).k.takes = (after m (ins ++ .take :: more)).k.takes := by
  have hi := Q.inv_reach m ins
  have hk : ((after m ins).step .take).k = (after m ins).k.handTake := by simp [Q.step]
  refine ⟨by rw [hk, K.cores_handTake], ?_, ?_, ?_, ?_, ?_, ?_⟩
  · simp only [Q.step, Q.handTake]; split
    · rfl
    · exact Q.aux_wakePutter _
  · simp only [Q.step, Q.handTake]; split
    · rfl
    · exact Q.getters_wakePutter _
  · rw [hk]
    rcases K.handTake_cases (after m ins).k with ⟨_, e⟩ | ⟨y, rest, _, e⟩ <;> rw [e]
    exact (K.frame_taskDone _).2.2.2.1
  · intro h0
    simp only [Q.step, Q.handTake]
    split
    · rfl
    · rename_i y rest hit; rw [h0] at hit; cases hit
  · intro y rest hit
    have hpos : 0 < ({ (after m ins).k with items := rest, takes := (after m ins).k.takes + 1 } : K).unfinished :=
      hi.pos_of_items y rest hit
    have hk' : (after m ins).k.handTake
        = ({ (after m ins).k with items := rest, takes := (after m ins).k.takes + 1 } : K).taskDone := by
      unfold K.handTake; rw [hit]
    have hv := K.view_taskDone _ hpos
    simp only [K.view, V.mk.injEq] at hv
    obtain ⟨-, v2, -, -, v5, -, v7, v8, v9⟩ := hv
    have hve : (after m ins).k.valueErrors = 0 := hi.cnt.2.2.1
    have hpos' : 0 < (after m ins).k.unfinished := hpos
    have hne : ¬ (after m ins).k.unfinished = 0 := by omega
    refine ⟨?_, ?_, ?_, ?_, ?_, ?_, ?_⟩
    · rw [hk, hk']; exact (K.frame_taskDone _).1
    · rw [hk, hk']; exact v9
    · rw [hk, hk']; exact v7
    · rw [hk, hk', v2]; show (after m ins).k.unfinished - 1 + 1 = (after m ins).k.unfinished; omega
    · rw [hk, hk']; exact v5
    · rw [hk, hk', v8]; exact hve
    · have hu : ((after m ins).step .take).k.unfinished = (after m ins).k.unfinished - 1 := by rw [hk, hk', v2]
      rw [hu]
      simp only [Q.step, Q.handTake, hit, hne, if_false]
  · intro more i c x x' hx hp hx' hd
    obtain ⟨a, b, c', d, _, f, g, _⟩ := C20_block_exit_marks_once m (ins ++ .take :: more) i c x x' hx hp hx' hd
    exact ⟨a, b, c', d, f, g⟩

/-! ## Bounded queues and producer tasks -/

/-- **C20, a bounded queue is never over-full.** The queue keeps the `maxsize` it was created with, and a bounded queue
(`0 < m`) never holds more than `m` items — in every reachable state, whatever producers, consumers and cancellations
did.  `put_nowait()` by non-task code on a full queue (`QueueFull`) changes nothing at all. -/
theorem C20_bounded_never_over_full (m : Nat) (ins : List Input) :
    (after m ins).k.maxsize = m
    ∧ (0 < m → (after m ins).k.items.length ≤ m)
    ∧ ((after m ins).k.full = true → ∀ x, (after m ins).step (.put x) = after m ins) := by
  have hm := Q.maxsize_reach m ins
  refine ⟨hm, fun h0 => ?_, fun hf x => by simp [Q.step, Q.put, hf]⟩
  rcases (Q.pok_reach m ins).bnd with h | h
  · rw [hm] at h; omega
  · rw [hm] at h; exact h

/-- **C20, a producer cancelled before its item entered the queue puts nothing.**
* The books: in every reachable state the number of items that ever entered the queue is the number of successful
  `put_nowait` calls of non-task code plus the number of producers that got through `put()` — a cancelled producer is
  not among them.
* The step: whatever the history and whatever the next input, if it ends a producer that had not put its item yet (not
  started, or waiting in `put()` — pending or already woken) by cancellation (`PPhase.done false`), then the step left
  the queue, `puts`, the unfinished counter, the `_finished` event and the number of `task_done()` calls untouched.
* For ever: whatever follows, that producer stays cancelled — its item never enters the queue. -/
theorem C20_cancelled_producer_puts_nothing (m : Nat) (ins : List Input) :
    (after m ins).k.puts = (after m ins).k.hputs + (after m ins).k.prods.countP Prod.putDone
    ∧ ∀ (i : Input) (j : Nat) (p p' : Prod), (after m ins).k.prods[j]? = some p → prePut p.phase = true →
        ((after m ins).step i).k.prods[j]? = some p' → p'.phase = .done false →
        ((after m ins).step i).k.items = (after m ins).k.items
        ∧ ((after m ins).step i).k.puts = (after m ins).k.puts
        ∧ ((after m ins).step i).k.unfinished = (after m ins).k.unfinished
        ∧ ((after m ins).step i).k.finished = (after m ins).k.finished
        ∧ ((after m ins).step i).k.tdCalls = (after m ins).k.tdCalls
        ∧ p'.item = p.item
        ∧ ∀ more : List Input, (after m (ins ++ i :: more)).k.prods[j]? = some p' := by
  refine ⟨(Q.pok_reach m ins).puts, fun i j p p' hp hpre hp' hd => ?_⟩
  have hdone : isPDone p'.phase = true := by rw [hd]; rfl
  have hitem : p'.item = p.item := by
    obtain ⟨p2, h1, h2, _⟩ := (Q.kstep_step (after m ins) i).prod_final j p hp
    rw [hp'] at h1; cases h1; exact h2
  rcases (Q.kstep_step (after m ins) i).producer_done j p p' hp hpre hp' hdone with ⟨h, _⟩ | ⟨_, a, b, c, _, e, f⟩
  · rw [hd] at h; cases h
  · refine ⟨a, b, c, f, e, hitem, fun more => ?_⟩
    have : after m (ins ++ i :: more) = ((after m ins).step i).run more := by
      simp [after, Q.run, List.foldl_append]
    rw [this]
    exact Q.prod_final_run _ more j p' hp' hdone

/-- **C20, a producer's item is put exactly once, when its `put()` gets through.** Whatever the history and whatever
the next input: if it takes a producer that had not put its item yet through `put()` (`PPhase.done true`), then the
queue was not full, the step appended exactly that producer's item at the tail, and `puts` and the unfinished counter
went up by exactly one; it is not counted as a `put_nowait` of non-task code. -/
theorem C20_producer_puts_once (m : Nat) (ins : List Input) (i : Input) (j : Nat) (p p' : Prod)
    (hp : (after m ins).k.prods[j]? = some p) (hpre : prePut p.phase = true)
    (hp' : ((after m ins).step i).k.prods[j]? = some p') (hd : p'.phase = .done true) :
    (after m ins).k.full = false
    ∧ ((after m ins).step i).k.items = (after m ins).k.items ++ [p.item]
    ∧ ((after m ins).step i).k.puts = (after m ins).k.puts + 1
    ∧ ((after m ins).step i).k.unfinished = (after m ins).k.unfinished + 1
    ∧ ((after m ins).step i).k.hputs = (after m ins).k.hputs := by
  have hdone : isPDone p'.phase = true := by rw [hd]; rfl
  rcases (Q.kstep_step (after m ins) i).producer_done j p p' hp hpre hp' hdone with ⟨_, a, b, c, d, e⟩ | ⟨h, _⟩
  · exact ⟨a, b, c, d, e⟩
  · rw [hd] at h; cases h

/-- **C20, no lost putter wake-up.** In every reachable state every producer has its event-loop bookkeeping, and a
producer waiting inside `put()` is in one of two situations:
* its putter future is pending: then the queue is bounded, the producer is registered in `_putters` and not scheduled,
  and **if the queue is not full, a wake-up is on its way** — some producer's putter future has been resolved by
  `get_nowait()`, that producer is scheduled and its handle is in the loop's ready queue (it will put, or — cancelled
  meanwhile — hand the wake-up on); so with the queue not full and no wake-up on its way, no producer is left waiting;
* or its putter future is done (resolved or cancelled): then the producer is scheduled and its handle is in the ready
  queue. -/
theorem C20_no_lost_putter_wakeup (m : Nat) (ins : List Input) :
    (after m ins).k.prods.length = (after m ins).paux.length
    ∧ ∀ (j : Nat) (p : Prod) (a : Aux), (after m ins).k.prods[j]? = some p → (after m ins).paux[j]? = some a →
        p.phase = .waiting →
        (a.gate = .pending ∧ a.sched = false ∧ j ∈ (after m ins).putters ∧ 0 < m
          ∧ ((after m ins).k.full = false →
              ∃ (j' : Nat) (p' : Prod) (a' : Aux), (after m ins).k.prods[j']? = some p' ∧ (after m ins).paux[j']? = some a'
                ∧ p'.phase = .waiting ∧ a'.gate = .woken ∧ a'.sched = true ∧ Ref.producer j' ∈ (after m ins).ready))
        ∨ (a.gate ≠ .pending ∧ a.sched = true ∧ Ref.producer j ∈ (after m ins).ready) := by
  have hI : PInv (after m ins) := Q.pinv_reach m ins
  have hk := Q.pok_reach m ins
  have hm := Q.maxsize_reach m ins
  refine ⟨hI.len, fun j p a hp ha hw => ?_⟩
  by_cases hg : a.gate = .pending
  · left
    obtain ⟨h1, h2⟩ := hI.pend j p a hp ha hw hg
    have hpos : 0 < m := by
      rcases Nat.eq_zero_or_pos m with h0 | h0
      · exact absurd hw (hk.unb (by rw [hm]; exact h0) p (List.mem_of_getElem? hp))
      · exact h0
    refine ⟨hg, h1, h2, hpos, fun hf => ?_⟩
    have hP : 0 < cnt2 pendW (after m ins).k.prods (after m ins).paux :=
      cnt2_pos_of _ _ _ j p a hp ha (by simp [pendW, isWaitingP, hw, hg])
    have hW := hI.cnt hP
    have hfree : 0 < (after m ins).free := by
      have := (after m ins).k.room_of_not_full hf
      simp only [Q.free]; rw [hm] at this ⊢; omega
    obtain ⟨j', p', a', h1', h2', h3'⟩ := cnt2_pos _ _ _ (Nat.lt_of_lt_of_le hfree hW)
    simp only [wokenW, Bool.and_eq_true, beq_iff_eq] at h3'
    have hw' : p'.phase = .waiting := (Q.isWaitingP_iff _).1 h3'.1
    obtain ⟨s1, s2⟩ := hI.fly j' p' a' h1' h2' hw' (by rw [h3'.2]; simp)
    exact ⟨j', p', a', h1', h2', hw', h3'.2, s1, s2⟩
  · right
    obtain ⟨h1, h2⟩ := hI.fly j p a hp ha hw hg
    exact ⟨hg, h1, h2⟩

/-! ## Non-vacuity

One concrete history: two consumers start and wait; two items arrive; both consumers enter their blocks; a third
consumer starts waiting and is cancelled there; a `join()` is called and has to wait; the first block ends by an
exception, the second is cancelled inside the block; the joiner is released by the second exit and returns. -/
def C20_demo₁ : List Input :=
  [.spawn, .spawn, .run 0, .run 0,            -- consumers 0, 1 wait in get()
   .put 7, .put 8, .run 0, .run 0,            -- both are handed an item
   .spawn, .run 0,                            -- consumer 2 waits
   .join, .run 0]                             -- joiner 0 has to wait: 2 unfinished

/-- … then consumer 2 is cancelled while waiting and consumer 0's body raises -/
def C20_demo₂ : List Input := C20_demo₁ ++ [.cancel 2, .run 0, .gate 0 true, .run 0]

/-- … then consumer 1 is cancelled inside its block -/
def C20_demo₃ : List Input := C20_demo₂ ++ [.cancel 1]

def C20_demo₄ : List Input := C20_demo₃ ++ [.run 0, .run 0]

-- after demo₁: two consumers in their block, one waiting, a pending join waiter, 2 unfinished
example : ((after 0 C20_demo₁).k.cores.map (·.phase)) = [.inBlock 7, .inBlock 8, .waiting] := by decide +kernel
example : (after 0 C20_demo₁).k.joiners[0]? = some ⟨.waiting, .pending, false⟩ := by decide +kernel
example : (after 0 C20_demo₁).k.unfinished = 2 ∧ (after 0 C20_demo₁).k.puts = 2 ∧ (after 0 C20_demo₁).k.exits = 0 := by decide +kernel
-- the hypotheses of `C20_cancelled_waiter_marks_nothing` are met by consumer 2 and the step `run 0` after `cancel 2`
example : (after 0 (C20_demo₁ ++ [.cancel 2])).k.cores[2]? = some ⟨.waiting, 0⟩ := by decide +kernel
example : ((after 0 (C20_demo₁ ++ [.cancel 2])).step (.run 0)).k.cores[2]? = some ⟨.done .cancelled false, 0⟩ := by decide +kernel
-- after demo₂: one exit by exception, marked once; the cancelled waiter marked nothing; the joiner still waits
example : ((after 0 C20_demo₂).k.cores.map fun x => (x.phase, x.marks))
    = [(.done .exc true, 1), (.inBlock 8, 0), (.done .cancelled false, 0)] := by decide +kernel
example : (after 0 C20_demo₂).k.tdCalls = 1 ∧ (after 0 C20_demo₂).k.exits = 1 ∧ (after 0 C20_demo₂).k.unfinished = 1 := by decide +kernel
example : (after 0 C20_demo₂).k.joiners[0]? = some ⟨.waiting, .pending, false⟩ := by decide +kernel
-- the step `run 0` after `cancel 1` (hypotheses of `C20_join_iff`) brings the counter to zero and releases the joiner
example : (after 0 C20_demo₃).k.joiners[0]? = some ⟨.waiting, .pending, false⟩ := by decide +kernel
example : ((after 0 C20_demo₃).step (.run 0)).k.unfinished = 0
    ∧ ((after 0 C20_demo₃).step (.run 0)).k.joiners[0]? = some ⟨.waiting, .woken, true⟩ := by decide +kernel
-- hypotheses of `C20_join_returns_after_release`
example : (after 0 (C20_demo₃ ++ [.run 0])).ready[0]? = some (.joiner 0) := by decide +kernel
-- after demo₄: every exit path occurred once, every taken item marked exactly once, join() returned
example : ((after 0 C20_demo₄).k.cores.map fun x => (x.phase, x.marks))
    = [(.done .exc true, 1), (.done .cancelled true, 1), (.done .cancelled false, 0)] := by decide +kernel
example : (after 0 C20_demo₄).k.joiners[0]? = some ⟨.done, .woken, false⟩ := by decide +kernel
example : (after 0 C20_demo₄).k.tdCalls = 2 ∧ (after 0 C20_demo₄).k.puts = 2 ∧ (after 0 C20_demo₄).k.valueErrors = 0 := by decide +kernel
example : (after 0 C20_demo₄).log = [.got 0 7, .got 1 8, .sawCancel 2, .exited 0, .taskDone 1, .sawCancel 1, .exited 1,
    .taskDone 0, .joined 0] := by decide +kernel
-- hypotheses of `C20_join_at_call`, both ways: with work unfinished (demo₁ before its last step) and without
example : (after 0 (C20_demo₁.take 11)).ready[0]? = some (.joiner 0)
    ∧ (after 0 (C20_demo₁.take 11)).k.joiners[0]? = some ⟨.notStarted, .pending, true⟩
    ∧ (after 0 (C20_demo₁.take 11)).k.unfinished = 2 := by decide +kernel
example : (after 0 [.join]).ready[0]? = some (.joiner 0) ∧ (after 0 [.join]).k.joiners[0]? = some ⟨.notStarted, .pending, true⟩
    ∧ (after 0 [.join, .run 0]).k.joiners[0]? = some ⟨.done, .pending, false⟩ := by decide +kernel
-- a normal exit as well
example : ((after 0 [.put 3, .spawn, .run 0, .gate 0 false, .run 0]).k.cores.map fun x => (x.phase, x.marks))
    = [(.done .ok true, 1)] := by decide +kernel

/-! A history with hand marks: two items, consumer 0 is handed the first; while it is inside its block the second item
is taken and marked by hand; a `join()` has to wait; the block exits and releases it.  (On this history a queue whose
`__aexit__` skips the mark after a foreign `item_processed()` leaves the joiner waiting for ever.) -/
def C20_demo₅ : List Input := [.put 1, .put 2, .spawn, .run 0]
def C20_demo₆ : List Input := C20_demo₅ ++ [.take, .join, .run 0]
def C20_demo₇ : List Input := C20_demo₆ ++ [.gate 0 false, .run 0]

-- hypotheses of the `take` clause of `C20_hand_mark_leaves_blocks_alone`: an item is queued, a block is open
example : (after 0 C20_demo₅).k.items = [2] ∧ ((after 0 C20_demo₅).k.cores.map fun x => (x.phase, x.marks)) = [(.inBlock 1, 0)]
    ∧ (after 0 C20_demo₅).k.unfinished = 2 := by decide +kernel
-- the hand mark: one item gone, one unfinished less, the block untouched; the joiner has to wait for the block
example : (after 0 C20_demo₆).k.items = [] ∧ ((after 0 C20_demo₆).k.cores.map fun x => (x.phase, x.marks)) = [(.inBlock 1, 0)]
    ∧ (after 0 C20_demo₆).k.unfinished = 1 ∧ (after 0 C20_demo₆).k.takes = 1 ∧ (after 0 C20_demo₆).k.tdCalls = 1
    ∧ (after 0 C20_demo₆).k.joiners[0]? = some ⟨.waiting, .pending, false⟩ := by decide +kernel
-- hypotheses of its block-exit clause (`ins = demo₅`, `more = [join, run 0, gate 0 ok]`, `i = run 0`), and the outcome
example : ((after 0 (C20_demo₆ ++ [.gate 0 false])).k.cores.map (·.phase)) = [.inBlock 1]
    ∧ (((after 0 (C20_demo₆ ++ [.gate 0 false])).step (.run 0)).k.cores.map fun x => (x.phase, x.marks)) = [(.done .ok true, 1)] := by
  decide +kernel
example : (after 0 C20_demo₇).k.unfinished = 0 ∧ (after 0 C20_demo₇).k.puts = 2 ∧ (after 0 C20_demo₇).k.exits = 1
    ∧ (after 0 C20_demo₇).k.takes = 1 ∧ (after 0 C20_demo₇).k.tdCalls = 2
    ∧ (after 0 C20_demo₇).k.joiners[0]? = some ⟨.waiting, .woken, true⟩ := by decide +kernel
example : (after 0 (C20_demo₇ ++ [.run 0])).log = [.got 0 1, .handTook 2, .taskDone 1, .exited 0, .taskDone 0, .joined 0] := by
  decide +kernel
-- a hand mark can be the step that releases a joiner (`C20_join_iff` with `i = take`)
example : (after 0 [.put 5, .join, .run 0]).k.joiners[0]? = some ⟨.waiting, .pending, false⟩
    ∧ ((after 0 [.put 5, .join, .run 0]).step .take).k.unfinished = 0
    ∧ ((after 0 [.put 5, .join, .run 0]).step .take).k.joiners[0]? = some ⟨.waiting, .woken, true⟩ := by decide +kernel
-- `take` on an empty queue changes nothing
example : (after 0 [.spawn, .run 0, .take]).k.takes = 0 ∧ (after 0 [.spawn, .run 0, .take]).log = [] := by decide +kernel
-- an item taken by hand from under a woken getter: the consumer goes back to waiting, marks nothing
example : ((after 0 [.spawn, .run 0, .put 4, .take, .run 0]).k.cores.map fun x => (x.phase, x.marks)) = [(.waiting, 0)]
    ∧ (after 0 [.spawn, .run 0, .put 4, .take, .run 0]).k.unfinished = 0 := by decide +kernel

/-! Bounded queues.  `Queue(maxsize=1)`: an item is put, a second `put_nowait` raises `QueueFull`; two producers start
and block; a hand `take` frees the slot and wakes producer 0 (producer 1 keeps waiting: the wake-up is on its way);
producer 0 is cancelled before it runs — it hands the wake-up to producer 1, puts nothing, and producer 1 puts. -/
def C20_demo₈ : List Input := [.put 1, .put 2, .produce 5, .produce 6, .run 0, .run 0]
def C20_demo₉ : List Input := C20_demo₈ ++ [.take]
def C20_demo₁₀ : List Input := C20_demo₉ ++ [.cancelp 0]
def C20_demo₁₁ : List Input := C20_demo₁₀ ++ [.run 0, .run 0]

-- `C20_bounded_never_over_full`: the queue is full with one item, the second `put` changed nothing, both producers wait
example : (after 1 C20_demo₈).k.items = [1] ∧ (after 1 C20_demo₈).k.full = true ∧ (after 1 C20_demo₈).k.hputs = 1
    ∧ (after 1 C20_demo₈).k.prods = [⟨5, .waiting⟩, ⟨6, .waiting⟩] ∧ (after 1 C20_demo₈).putters = [0, 1]
    ∧ (after 1 C20_demo₈).ready = [] := by decide +kernel
example : (after 2 [.put 1, .put 2, .put 3, .produce 4, .run 0]).k.items = [1, 2]
    ∧ (after 0 [.put 1, .put 2, .put 3, .produce 4, .run 0]).k.items = [1, 2, 3, 4] := by decide +kernel
-- hypotheses of the first case of `C20_no_lost_putter_wakeup` with the queue not full: producer 1 waits with a pending
-- putter while the wake-up of producer 0 is on its way
example : (after 1 C20_demo₉).k.full = false ∧ (after 1 C20_demo₉).k.prods = [⟨5, .waiting⟩, ⟨6, .waiting⟩]
    ∧ (after 1 C20_demo₉).paux.map (fun a => (a.gate, a.sched)) = [(.woken, true), (.pending, false)]
    ∧ (after 1 C20_demo₉).putters = [1] ∧ (after 1 C20_demo₉).ready = [.producer 0] := by decide +kernel
-- … and of its second case (a cancelled pending putter): the task is scheduled
example : (after 1 (C20_demo₈ ++ [.cancelp 1])).paux.map (fun a => (a.gate, a.sched)) = [(.pending, false), (.cancelled, true)]
    ∧ (after 1 (C20_demo₈ ++ [.cancelp 1])).ready = [.producer 1] := by decide +kernel
-- hypotheses of `C20_cancelled_producer_puts_nothing` (`ins = demo₁₀`, `i = run 0`, producer 0, woken then cancelled): it
-- ends `done false`, nothing entered the queue, the wake-up went to producer 1
example : (after 1 C20_demo₁₀).k.prods[0]? = some ⟨5, .waiting⟩
    ∧ ((after 1 C20_demo₁₀).step (.run 0)).k.prods[0]? = some ⟨5, .done false⟩
    ∧ ((after 1 C20_demo₁₀).step (.run 0)).k.items = [] ∧ ((after 1 C20_demo₁₀).step (.run 0)).k.puts = 1
    ∧ ((after 1 C20_demo₁₀).step (.run 0)).ready = [.producer 1] := by decide +kernel
-- … and with a producer cancelled while its putter is still pending
example : (after 1 (C20_demo₈ ++ [.cancelp 1])).k.prods[1]? = some ⟨6, .waiting⟩
    ∧ ((after 1 (C20_demo₈ ++ [.cancelp 1])).step (.run 0)).k.prods[1]? = some ⟨6, .done false⟩
    ∧ ((after 1 (C20_demo₈ ++ [.cancelp 1])).step (.run 0)).k.items = [1] := by decide +kernel
-- hypotheses of `C20_producer_puts_once`: producer 1 gets through
example : (after 1 (C20_demo₁₀ ++ [.run 0])).k.prods[1]? = some ⟨6, .waiting⟩
    ∧ ((after 1 (C20_demo₁₀ ++ [.run 0])).step (.run 0)).k.prods[1]? = some ⟨6, .done true⟩ := by decide +kernel
example : (after 1 C20_demo₁₁).k.items = [6] ∧ (after 1 C20_demo₁₁).k.puts = 2 ∧ (after 1 C20_demo₁₁).k.hputs = 1
    ∧ (after 1 C20_demo₁₁).k.takes = 1 ∧ (after 1 C20_demo₁₁).k.unfinished = 1
    ∧ (after 1 C20_demo₁₁).k.prods = [⟨5, .done false⟩, ⟨6, .done true⟩]
    ∧ (after 1 C20_demo₁₁).log = [.handTook 1, .taskDone 0, .pCancel 0, .putDone 1 6] := by decide +kernel
-- a consumer's `get()` wakes a putter as well; the block marks exactly once on a bounded queue, the joiner is released
example : (after 1 [.put 1, .produce 5, .run 0, .spawn, .run 0, .join, .run 0, .run 0, .gate 0 false, .run 0]).log
      = [.got 0 1, .putDone 0 5, .exited 0, .taskDone 1]
    ∧ (after 1 [.put 1, .produce 5, .run 0, .spawn, .run 0, .join, .run 0, .run 0, .gate 0 false, .run 0]).k.joiners[0]?
      = some ⟨.waiting, .pending, false⟩ := by decide +kernel
-- a woken putter that finds the queue full again (a `put_nowait` slipped in) waits again
example : (after 1 [.put 1, .produce 5, .run 0, .take, .put 2, .run 0]).k.prods = [⟨5, .waiting⟩]
    ∧ (after 1 [.put 1, .produce 5, .run 0, .take, .put 2, .run 0]).putters = [0]
    ∧ (after 1 [.put 1, .produce 5, .run 0, .take, .put 2, .run 0]).k.items = [2] := by decide +kernel

end Taskpool
