import Taskpool.Inv.Steps
/-! Every step of the pool machine is monotone (`Mono`, `Inv/Tame.lean`): tasks and requests are only appended, a
finished task stays finished, progress counters never decrease, a cancellation snapshot is never rewritten, a request
keeps its outcome, a closed pool stays closed.  This is a relation between the state before and after a step, proved by
walking the step functions once; the tame parts (every synchronous call, all user code, gathers) come from `Tame.mono`. -/
namespace Taskpool

/-- `Mono`, with the task that is being stepped exempt from "finished stays finished" -/
structure MonoX (x : Nat) (p q : Pool) : Prop where
  tl : p.tasks.length ≤ q.tasks.length
  fin : ∀ (t : Nat) (tk : PTask), t ≠ x → p.tasks[t]? = some tk → tk.phase = .finished →
        ∃ tk', q.tasks[t]? = some tk' ∧ tk'.phase = .finished
  rl : p.reqs.length ≤ q.reqs.length
  rq : ∀ (m : Nat) (r : Req), p.reqs[m]? = some r → ∃ r', q.reqs[m]? = some r' ∧ r.created ≤ r'.created ∧
        r.pulled ≤ r'.pulled ∧ (∀ s, r.cancelSnap = some s → r'.cancelSnap = some s) ∧
        (r.outcome.isSome = true → r'.outcome.isSome = true)
  cl : p.closed = true → q.closed = true

theorem Mono.toX {p q : Pool} (h : Mono p q) (x : Nat) : MonoX x p q :=
  ⟨h.tl, fun t tk _ a b => h.fin t tk a b, h.rl, h.rq, h.cl⟩

theorem MonoX.refl (x : Nat) (p : Pool) : MonoX x p p := (Mono.refl p).toX x

theorem MonoX.trans {x : Nat} {p q r : Pool} (h1 : MonoX x p q) (h2 : MonoX x q r) : MonoX x p r := by
  refine ⟨Nat.le_trans h1.tl h2.tl, ?_, Nat.le_trans h1.rl h2.rl, ?_, fun h => h2.cl (h1.cl h)⟩
  · intro t tk hne a b
    obtain ⟨tk', a', b'⟩ := h1.fin t tk hne a b
    exact h2.fin t tk' hne a' b'
  · intro m y a
    obtain ⟨y', a', c1, c2, c3, c4⟩ := h1.rq m y a
    obtain ⟨y'', a'', d1, d2, d3, d4⟩ := h2.rq m y' a'
    exact ⟨y'', a'', Nat.le_trans c1 d1, Nat.le_trans c2 d2, fun s hs => d3 s (c3 s hs), fun h => d4 (c4 h)⟩

/-- the exempted task was not finished to begin with (or keeps its phase): nothing is exempt -/
theorem MonoX.close {x : Nat} {p q : Pool} (h : MonoX x p q)
    (hx : ∀ tk, p.tasks[x]? = some tk → tk.phase = .finished → ∃ tk', q.tasks[x]? = some tk' ∧ tk'.phase = .finished) :
    Mono p q :=
  ⟨h.tl, fun t tk a b => by
      by_cases e : t = x
      · subst e; exact hx tk a b
      · exact h.fin t tk e a b, h.rl, h.rq, h.cl⟩

namespace Pool

theorem monoX_modTask (p : Pool) (t : Nat) (f : PTask → PTask) : MonoX t p (p.modTask t f) := by
  refine ⟨by simp [modTask], ?_, Nat.le_refl _, fun _ r a => ⟨r, a, Nat.le_refl _, Nat.le_refl _, fun _ h => h, fun h => h⟩,
    fun h => h⟩
  intro i tk hne a b
  refine ⟨tk, ?_, b⟩
  simp only [modTask_tasks, List.getElem?_modify]
  have : ¬ t = i := fun e => hne e.symm
  simp [this, a]

/-- a change that touches neither tasks, nor requests, nor the closed flag -/
theorem monoX_of_eq (x : Nat) (p q : Pool) (ht : q.tasks = p.tasks) (hr : q.reqs = p.reqs) (hc : q.closed = p.closed) :
    MonoX x p q := (Mono.of_eq p q ht hr hc).toX x

theorem mono_releasePool (p : Pool) : Mono p p.releasePool := by
  unfold releasePool
  exact (Mono.of_eq p ({ p with sem := p.sem.release.1 } : Pool) rfl rfl rfl).trans (tame_schedOpt _ _).mono

theorem mono_releaseMap (p : Pool) (m : Nat) : Mono p (p.releaseMap m) := by
  unfold releaseMap
  split
  · exact Mono.refl p
  · rename_i r hr
    exact (Mono.modReq p m (fun x => { x with mapSem := r.mapSem.release.1 }) (fun _ => ⟨Nat.le_refl _, Nat.le_refl _⟩)
      (fun _ _ h => h) (fun _ h => h)).trans (tame_schedOpt _ _).mono

/-! ### the wrapper of a pool task -/

theorem monoX_completeTask (p : Pool) (t : Nat) (o : Outcome) : MonoX t p (p.completeTask t o) := by
  unfold completeTask
  split
  · exact MonoX.refl t p
  · exact (monoX_modTask p t _).trans ((tame_emitChildren _ _).mono.toX t)

theorem monoX_finishTask (p : Pool) (t : Nat) : MonoX t p (p.finishTask t) := by
  unfold finishTask
  split
  · exact MonoX.refl t p
  · exact monoX_completeTask p t _

theorem monoX_suspendTask (p : Pool) (t : Nat) (ph : Phase) : MonoX t p (p.suspendTask t ph) := by
  unfold suspendTask
  split
  · exact MonoX.refl t p
  · split
    · exact (monoX_modTask p t _).trans ((tame_schedTask _ _).mono.toX t)
    · exact monoX_modTask p t _

theorem monoX_cbBegin (p : Pool) (t : Nat) (tk : PTask) (isEnd : Bool) : MonoX t p (p.cbBegin t tk isEnd) := by
  unfold cbBegin
  simp only
  exact ((monoX_modTask p t _).trans ((tame_logEv _ _).mono.toX t)).trans ((tame_runHooks _ _ _).mono.toX t)

theorem monoX_runCb (p : Pool) (t : Nat) (tk : PTask) (isEnd : Bool) : MonoX t p (p.runCb t tk isEnd).1 := by
  unfold runCb
  split
  · exact MonoX.refl t p
  · exact (monoX_cbBegin p t tk isEnd).trans ((tame_logEv _ _).mono.toX t)
  · exact ((monoX_cbBegin p t tk isEnd).trans ((tame_logEv _ _).mono.toX t)).trans (monoX_modTask _ t _)
  · exact (monoX_cbBegin p t tk isEnd).trans (monoX_suspendTask _ t _)

theorem monoX_releaseMapSlot (p : Pool) (t : Nat) (tk : PTask) : MonoX t p (p.releaseMapSlot t tk) := by
  unfold releaseMapSlot
  split
  · exact ((mono_releaseMap p tk.req).toX t).trans (monoX_modTask _ t _)
  · exact MonoX.refl t p

theorem monoX_endCallback (p : Pool) (t : Nat) (tk : PTask) : MonoX t p (p.endCallback t tk) := by
  unfold endCallback
  simp only
  split
  · exact (monoX_releaseMapSlot p t tk).trans (monoX_runCb _ t tk true)
  · exact ((monoX_releaseMapSlot p t tk).trans (monoX_runCb _ t tk true)).trans (monoX_finishTask _ t)

theorem monoX_endingTail (p : Pool) (t : Nat) (tk : PTask) : MonoX t p (p.endingTail t tk) := by
  unfold endingTail
  exact (((mono_releasePool p).toX t).trans (monoX_modTask _ t _)).trans (monoX_endCallback _ t tk)

theorem monoX_keyErrorFinish (p : Pool) (t : Nat) : MonoX t p (p.keyErrorFinish t) := by
  unfold keyErrorFinish
  exact ((monoX_of_eq t p ({ p with lost := true } : Pool) rfl rfl rfl).trans (monoX_modTask _ t _)).trans
    (monoX_finishTask _ t)

theorem monoX_taskEnding (p : Pool) (t : Nat) : MonoX t p (p.taskEnding t) := by
  unfold taskEnding
  split
  · exact MonoX.refl t p
  · split
    · exact monoX_keyErrorFinish p t
    · rename_i p1 hm
      have f := moveToEnded_frame p p1 t hm
      have hc : p1.closed = p.closed := by
        unfold moveToEnded at hm
        split at hm
        · simp at hm; subst hm; rfl
        · split at hm
          · simp at hm; subst hm; rfl
          · simp at hm
      exact (monoX_of_eq t p p1 f.2 (moveToEnded_reqs p p1 t hm) hc).trans (monoX_endingTail p1 t _)

theorem monoX_cancelCallback (p : Pool) (t : Nat) (tk : PTask) : MonoX t p (p.cancelCallback t tk) := by
  unfold cancelCallback
  simp only
  split
  · exact monoX_runCb p t tk false
  · exact (monoX_runCb p t tk false).trans (monoX_taskEnding _ t)

theorem monoX_taskCancellation (p : Pool) (t : Nat) (tk : PTask) : MonoX t p (p.taskCancellation t tk) := by
  unfold taskCancellation
  split
  · exact ((monoX_of_eq t p ({ p with running := p.running.erase t, cancelledR := p.cancelledR ++ [t] } : Pool) rfl rfl rfl).trans
      (monoX_modTask _ t _)).trans (monoX_cancelCallback _ t tk)
  · exact ((monoX_of_eq t p ({ p with lost := true } : Pool) rfl rfl rfl).trans (monoX_modTask _ t _)).trans
      (monoX_taskEnding _ t)

theorem monoX_afterWorker (p : Pool) (t : Nat) (e : Option Err) : MonoX t p (p.afterWorker t e) := by
  unfold afterWorker
  split
  · exact (((tame_logEv p _).mono.toX t).trans (monoX_modTask _ t _)).trans (monoX_taskEnding _ t)
  · exact (((tame_logEv p _).mono.toX t).trans (monoX_modTask _ t _)).trans (monoX_taskEnding _ t)

theorem monoX_stepCreated (p : Pool) (t : Nat) (tk : PTask) : MonoX t p (p.stepCreated t tk) := by
  unfold stepCreated
  split
  · exact (monoX_modTask p t _).trans (monoX_taskCancellation _ t tk)
  · simp only
    have h0 : MonoX t p (((p.logEv (.started t tk.arg)).modTask t fun k => { k with phase := .inWorker, fut := .ok, unstarted := false }).runHooks tk.req (p.reqOf tk).hooks.start) :=
      (((tame_logEv p _).mono.toX t).trans (monoX_modTask _ t _)).trans ((tame_runHooks _ _ _).mono.toX t)
    split
    · exact h0.trans (monoX_afterWorker _ t _)
    · exact h0.trans (monoX_afterWorker _ t _)
    · exact (h0.trans (monoX_modTask _ t _)).trans (monoX_suspendTask _ t _)

theorem monoX_workerNext (p : Pool) (t : Nat) (tk : PTask) : MonoX t p (p.workerNext t tk) := by
  unfold workerNext
  exact ((((tame_logEv p _).mono.toX t).trans (monoX_modTask _ t _)).trans ((tame_runHooks _ _ _).mono.toX t)).trans
    (monoX_suspendTask _ t _)

theorem monoX_workerCancelled (p : Pool) (t : Nat) (tk : PTask) : MonoX t p (p.workerCancelled t tk) := by
  unfold workerCancelled
  split
  · exact (((tame_logEv p _).mono.toX t).trans (monoX_modTask _ t _)).trans (monoX_suspendTask _ t _)
  · simp only
    have h0 : MonoX t p ((p.logEv (.sawCancel t)).modTask t fun k => { k with sawCancel := true, phase := .wrapUp, nSaw := k.nSaw + 1 }) :=
      ((tame_logEv p _).mono.toX t).trans (monoX_modTask _ t _)
    split
    · exact h0.trans (monoX_afterWorker _ t _)
    · exact h0.trans (monoX_taskCancellation _ t tk)

theorem monoX_stepInWorker (p : Pool) (t : Nat) (tk : PTask) : MonoX t p (p.stepInWorker t tk) := by
  unfold stepInWorker
  split
  · exact (monoX_modTask p t _).trans (monoX_workerCancelled _ t tk)
  · split
    · split
      · exact monoX_workerNext p t tk
      · exact monoX_afterWorker p t _
    · exact monoX_afterWorker p t _
    · exact MonoX.refl t p

theorem monoX_stepInCancelCb (p : Pool) (t : Nat) (tk : PTask) : MonoX t p (p.stepInCancelCb t tk) := by
  unfold stepInCancelCb
  split
  · exact (((tame_logEv p _).mono.toX t).trans (monoX_modTask _ t _)).trans (monoX_taskEnding _ t)
  · exact (((tame_logEv p _).mono.toX t).trans (monoX_modTask _ t _)).trans (monoX_taskEnding _ t)
  · exact (((tame_logEv p _).mono.toX t).trans (monoX_modTask _ t _)).trans (monoX_taskEnding _ t)
  · exact MonoX.refl t p

theorem monoX_stepInEndCb (p : Pool) (t : Nat) (tk : PTask) : MonoX t p (p.stepInEndCb t tk) := by
  unfold stepInEndCb
  split
  · exact ((tame_logEv p _).mono.toX t).trans (monoX_finishTask _ t)
  · exact (((tame_logEv p _).mono.toX t).trans (monoX_modTask _ t _)).trans (monoX_finishTask _ t)
  · exact (((tame_logEv p _).mono.toX t).trans (monoX_modTask _ t _)).trans (monoX_finishTask _ t)
  · exact MonoX.refl t p

/-- one step of a pool task's wrapper is monotone: in particular a finished task is not stepped at all -/
theorem mono_stepTask (p : Pool) (t : Nat) : Mono p (p.stepTask t) := by
  unfold stepTask
  split
  · exact Mono.refl p
  · rename_i tk htk
    split
    · exact Mono.refl p
    · simp only
      have h0 : Mono p (p.modTask t fun k => { k with sched := false }) := (tame_modTask p t _).mono
      split
      · rename_i hph
        refine ((h0.toX t).trans (monoX_stepCreated _ t tk)).close ?_
        intro x hx hf; rw [htk] at hx; cases hx; rw [hph] at hf; cases hf
      · exact h0
      · rename_i hph
        refine ((h0.toX t).trans (monoX_stepInWorker _ t tk)).close ?_
        intro x hx hf; rw [htk] at hx; cases hx; rw [hph] at hf; cases hf
      · rename_i hph
        refine ((h0.toX t).trans (monoX_stepInCancelCb _ t tk)).close ?_
        intro x hx hf; rw [htk] at hx; cases hx; rw [hph] at hf; cases hf
      · rename_i hph
        refine ((h0.toX t).trans (monoX_stepInEndCb _ t tk)).close ?_
        intro x hx hf; rw [htk] at hx; cases hx; rw [hph] at hf; cases hf
      · exact h0

/-! ### spawners -/

/-- a request update that moves no counter backwards and keeps snapshot and outcome (closes goals whose rewriting
function is visible in the goal) -/
macro "mono_mr" : tactic =>
  `(tactic| exact Mono.modReq _ _ _
      (fun _ => ⟨by first | exact Nat.le_refl _ | exact Nat.le_succ _, by first | exact Nat.le_refl _ | exact Nat.le_succ _⟩)
      (fun _ _ h => h) (fun _ h => h))

macro "mono_eq" : tactic => `(tactic| exact Mono.of_eq _ _ rfl rfl rfl)

theorem mono_waitRoom (p : Pool) (m : Nat) : Mono p (p.waitRoom m) := by
  unfold waitRoom
  simp only
  have h0 : ∀ w : Waiter, Mono p (({ p with sem := { p.sem with waiters := p.sem.waiters ++ [w] } } : Pool).modReq m
      fun x => { x with frame := MFrame.waitRoom, mustCancel := false }) := fun w => by
    refine Mono.trans (q := ({ p with sem := { p.sem with waiters := p.sem.waiters ++ [w] } } : Pool)) ?_ ?_
    · mono_eq
    · mono_mr
  split
  · exact (h0 _).trans (tame_schedMeta _ m).mono
  · exact h0 _

theorem mono_waitMapSem (p : Pool) (m : Nat) : Mono p (p.waitMapSem m) := by
  unfold waitMapSem
  simp only
  split
  · refine Mono.trans ?_ (tame_schedMeta _ m).mono
    mono_mr
  · mono_mr

theorem mono_createTask (p : Pool) (m : Nat) (isMap : Bool) : Mono p (p.createTask m isMap) := by
  unfold createTask
  simp only [emitRef, modReq]
  refine ⟨by simp, ?_, by simp, ?_, fun h => h⟩
  · intro t tk a b
    exact ⟨tk, by simp only; rw [List.getElem?_append_left (List.getElem?_eq_some_iff.mp a).1]; exact a, b⟩
  · intro i r a
    refine ⟨if m = i then { r with created := r.created + 1 } else r, by simp [List.getElem?_modify, a], ?_⟩
    split
    · exact ⟨Nat.le_succ _, Nat.le_refl _, fun _ h => h, fun h => h⟩
    · exact ⟨Nat.le_refl _, Nat.le_refl _, fun _ h => h, fun h => h⟩

theorem mono_takeSlotAndCreate (p : Pool) (m : Nat) (isMap : Bool) : Mono p (p.takeSlotAndCreate m isMap) := by
  unfold takeSlotAndCreate
  refine Mono.trans ?_ (mono_createTask _ m isMap)
  mono_eq

theorem mono_finishAfterModReq (p : Pool) (m : Nat) (f : Req → Req) (o : Outcome)
    (h : Mono p (p.modReq m f)) : Mono p ((p.modReq m f).finishMeta m o) := h.trans (tame_finishMeta _ m o).mono

theorem mono_applyLoop (m n : Nat) (p : Pool) : Mono p (applyLoop m n p) := by
  induction n generalizing p with
  | zero =>
    unfold applyLoop
    refine Mono.trans ?_ (tame_finishMeta _ m _).mono
    mono_mr
  | succ n ih =>
    unfold applyLoop
    simp only
    have h0 : Mono p (p.modReq m fun x => { x with remaining := n + 1 }) := by mono_mr
    split
    · refine (h0.trans ?_).trans (ih _)
      mono_mr
    · split
      · exact h0.trans (tame_finishMeta _ m _).mono
      · split
        · exact h0.trans (tame_finishMeta _ m _).mono
        · split
          · exact h0.trans (mono_waitRoom _ m)
          · exact (h0.trans (mono_takeSlotAndCreate _ m false)).trans (ih _)

theorem mono_pullItem (p : Pool) (m : Nat) (rest : List Item) : Mono p (p.pullItem m rest) := by
  unfold pullItem
  simp only
  refine Mono.trans ?_ (tame_runHooks _ m _).mono
  refine Mono.trans ?_ (tame_logEv _ _).mono
  mono_mr

theorem mono_takeMapSlot (p : Pool) (m : Nat) : Mono p (p.takeMapSlot m) := by
  unfold takeMapSlot
  mono_mr

theorem mono_mapStartTask (p : Pool) (m : Nat) : Mono p (p.mapStartTask m).1 := by
  unfold mapStartTask
  split
  · exact (tame_finishMeta p m _).mono
  · split
    · exact mono_waitRoom p m
    · exact mono_takeSlotAndCreate p m true

theorem mono_mapLoop (m : Nat) (items : List Item) (p : Pool) : Mono p (mapLoop m items p) := by
  induction items generalizing p with
  | nil =>
    unfold mapLoop
    refine Mono.trans ?_ (tame_finishMeta _ m _).mono
    mono_mr
  | cons it rest ih =>
    unfold mapLoop
    simp only
    have h0 := mono_pullItem p m rest
    split
    · exact h0.trans (tame_finishMeta _ m _).mono
    · split
      · refine (h0.trans ?_).trans (ih _)
        mono_mr
      · split
        · exact h0.trans (mono_waitMapSem _ m)
        · have h1 := (h0.trans (mono_takeMapSlot _ m)).trans (mono_mapStartTask _ m)
          split
          · exact h1.trans (ih _)
          · exact h1

theorem mono_continueSpawner (p : Pool) (m : Nat) : Mono p (p.continueSpawner m) := by
  unfold continueSpawner
  simp only
  split
  · exact mono_applyLoop m _ p
  · exact mono_mapLoop m _ p

theorem mono_roomWaitCancelled (p : Pool) (m : Nat) (r : Req) (st : Option WaitSt) : Mono p (p.roomWaitCancelled m r st) := by
  unfold roomWaitCancelled
  simp only
  refine Mono.trans ?_ (tame_finishMeta _ m _).mono
  have h1 : Mono p (if (st == some WaitSt.granted) = true then p.releasePool else p) := by
    split
    · exact mono_releasePool p
    · exact Mono.refl p
  generalize (if (st == some WaitSt.granted) = true then p.releasePool else p) = q at h1 ⊢
  refine h1.trans ?_
  split
  · exact mono_releaseMap q m
  · exact Mono.refl q

theorem mono_roomGranted (p : Pool) (m : Nat) (r : Req) : Mono p (p.roomGranted m r) := by
  unfold roomGranted
  simp only
  refine Mono.trans ?_ (mono_continueSpawner _ m)
  refine Mono.trans ?_ (mono_createTask _ m _)
  have h0 : Mono p (p.modReq m fun x => { x with frame := MFrame.running }) := by mono_mr
  refine h0.trans ?_
  split
  · refine Mono.trans ?_ (tame_schedOpt _ _).mono
    mono_eq
  · exact Mono.refl _

theorem mono_wakeWaitRoomCore (p : Pool) (m : Nat) (r : Req) : Mono p (p.wakeWaitRoomCore m r) := by
  unfold wakeWaitRoomCore
  simp only
  have h0 : Mono p (({ p with sem := { p.sem with waiters := (removeWaiterL m p.sem.waiters).2 } } : Pool).modReq m
      fun x => { x with mustCancel := false }) := by
    refine Mono.trans (q := ({ p with sem := { p.sem with waiters := (removeWaiterL m p.sem.waiters).2 } } : Pool)) ?_ ?_
    · mono_eq
    · mono_mr
  split
  · exact h0.trans (mono_roomWaitCancelled _ m r _)
  · split
    · exact h0.trans (mono_roomGranted _ m r)
    · exact h0

theorem mono_wakeWaitRoom (p : Pool) (m : Nat) (r : Req) : Mono p (p.wakeWaitRoom m r) := by
  unfold wakeWaitRoom
  split
  · exact mono_wakeWaitRoomCore p m r
  · exact Mono.refl p

theorem mono_mapSemGranted (p : Pool) (m : Nat) (r : Req) : Mono p (p.mapSemGranted m r) := by
  unfold mapSemGranted
  simp only
  have h0 : Mono p (p.modReq m fun x => { x with acquired := true, frame := MFrame.running }) := by mono_mr
  have h1 := h0.trans (mono_mapStartTask _ m)
  split
  · exact h1.trans (mono_mapLoop m _ _)
  · exact h1

theorem mono_wakeWaitMapSemCore (p : Pool) (m : Nat) (r : Req) : Mono p (p.wakeWaitMapSemCore m r) := by
  unfold wakeWaitMapSemCore
  simp only
  generalize (if ((removeWaiterL m r.mapSem.waiters).1 == some WaitSt.granted) = true then _ else _ : Sem × Option Nat) = s2
  have h0 : Mono p ((p.modReq m fun x => { x with mapSem := s2.1, mustCancel := false }).schedOpt s2.2) := by
    refine Mono.trans ?_ (tame_schedOpt _ _).mono
    mono_mr
  split
  · exact h0.trans (tame_finishMeta _ m _).mono
  · split
    · exact h0.trans (mono_mapSemGranted _ m r)
    · exact h0

theorem mono_wakeWaitMapSem (p : Pool) (m : Nat) (r : Req) : Mono p (p.wakeWaitMapSem m r) := by
  unfold wakeWaitMapSem
  split
  · exact mono_wakeWaitMapSemCore p m r
  · exact Mono.refl p

theorem mono_stepMeta (p : Pool) (m : Nat) : Mono p (p.stepMeta m) := by
  unfold stepMeta
  split
  · exact Mono.refl p
  · split
    · exact Mono.refl p
    · simp only
      have h0 : Mono p (p.modReq m fun x => { x with sched := false }) := (tame_modReq p m _).mono
      split
      · exact h0
      · exact h0
      · unfold stepMetaNotStarted
        split
        · exact h0.trans (tame_finishMeta _ m _).mono
        · split
          · exact h0.trans (mono_applyLoop m _ _)
          · exact h0.trans (mono_mapLoop m _ _)
      · exact h0.trans (mono_wakeWaitRoom _ m _)
      · exact h0.trans (mono_wakeWaitMapSem _ m _)

/-! ### flush / gather_and_close / until_closed -/

theorem mono_modApi (p : Pool) (a : Nat) (f : Api → Api) : Mono p (p.modApi a f) := Mono.of_eq _ _ rfl rfl rfl

theorem mono_flushAfter2 (p : Pool) (a : Nat) (o : Outcome) : Mono p (p.flushAfter2 a o) := by
  unfold flushAfter2
  split
  · simp only
    refine Mono.trans ?_ (tame_finishApi _ a _).mono
    mono_eq
  · exact (tame_finishApi p a _).mono

theorem mono_flushAfter1 (p : Pool) (a : Nat) (re : Bool) (o : Outcome) : Mono p (p.flushAfter1 a re o) := by
  unfold flushAfter1
  split
  · exact (tame_finishApi p a _).mono
  · simp only
    have t1 : Tame p ({ p with metaCancelled := [], reqs := p.reqs.map fun (r : Req) => { r with inCancelled := false } } : Pool) :=
      tame_of_map _ _ _ rfl rfl rfl
        (fun x => ⟨rfl, rfl, rfl, Nat.le_refl _, fun h => h, rfl, Or.inl rfl, fun h => h, fun h => h, fun _ => rfl, fun _ => Nat.le_refl _⟩)
    split
    · refine Mono.trans ?_ (mono_flushAfter2 _ a _)
      refine Mono.trans ?_ (tame_gatherStart _ _ _ _ _).mono
      refine Mono.trans ?_ (mono_modApi _ a _)
      exact t1.mono
    · refine Mono.trans ?_ (mono_modApi _ a _)
      refine Mono.trans ?_ (tame_gatherStart _ _ _ _ _).mono
      refine Mono.trans ?_ (mono_modApi _ a _)
      exact t1.mono

theorem mono_flushStage1 (p : Pool) (a : Nat) (re : Bool) : Mono p (p.flushStage1 a re) := by
  unfold flushStage1
  simp only
  have t1 : Tame p ({ p with reqs := p.reqs.map fun (r : Req) => if r.inRunning && r.outcome.isSome then { r with inRunning := false } else r } : Pool) :=
    tame_of_map _ _ _ rfl rfl rfl
      (fun x => by split <;> exact ⟨rfl, rfl, rfl, Nat.le_refl _, fun h => h, rfl, Or.inl rfl, fun h => h, fun h => h, fun _ => rfl, fun _ => Nat.le_refl _⟩)
  split
  · refine Mono.trans ?_ (mono_flushAfter1 _ a re _)
    refine Mono.trans ?_ (tame_gatherStart _ _ _ _ _).mono
    exact t1.mono
  · refine Mono.trans ?_ (mono_modApi _ a _)
    refine Mono.trans ?_ (tame_gatherStart _ _ _ _ _).mono
    exact t1.mono

theorem mono_gacAfter2 (p : Pool) (a : Nat) (o : Outcome) : Mono p (p.gacAfter2 a o) := by
  unfold gacAfter2
  split
  · simp only
    refine Mono.trans ?_ (tame_finishApi _ a _).mono
    refine Mono.trans ?_ (tame_foldl _ _ (fun p w => tame_schedApi p w) _).mono
    exact ⟨Nat.le_refl _, fun _ tk x y => ⟨tk, x, y⟩, Nat.le_refl _,
      fun _ r x => ⟨r, x, Nat.le_refl _, Nat.le_refl _, fun _ h => h, fun h => h⟩, fun _ => rfl⟩
  · exact (tame_finishApi p a _).mono

theorem mono_gacAfter1 (p : Pool) (a : Nat) (re : Bool) (g : Nat) : Mono p (p.gacAfter1 a re g) := by
  unfold gacAfter1
  simp only
  split
  · exact (tame_finishApi p a _).mono
  · have t1 : Tame p ({ p with metaCancelled := [], reqs := p.reqs.map fun (r : Req) => { r with inCancelled := false, inRunning := false } } : Pool) :=
      tame_of_map _ _ _ rfl rfl rfl
        (fun x => ⟨rfl, rfl, rfl, Nat.le_refl _, fun h => h, rfl, Or.inl rfl, fun h => h, fun h => h, fun _ => rfl, fun _ => Nat.le_refl _⟩)
    split
    · refine Mono.trans ?_ (mono_gacAfter2 _ a _)
      refine Mono.trans ?_ (tame_gatherStart _ _ _ _ _).mono
      exact t1.mono
    · refine Mono.trans ?_ (mono_modApi _ a _)
      refine Mono.trans ?_ (tame_gatherStart _ _ _ _ _).mono
      exact t1.mono

theorem mono_gacStage1 (p : Pool) (a : Nat) (re : Bool) : Mono p (p.gacStage1 a re) := by
  unfold gacStage1
  simp only
  split
  · refine Mono.trans ?_ (mono_gacAfter1 _ a re _)
    refine Mono.trans ?_ (tame_gatherStart _ _ true a 0).mono
    mono_eq
  · refine Mono.trans ?_ (mono_modApi _ a _)
    refine Mono.trans ?_ (tame_gatherStart _ _ true a 0).mono
    mono_eq

theorem mono_stepApi (p : Pool) (a : Nat) : Mono p (p.stepApi a) := by
  unfold stepApi
  split
  · exact Mono.refl p
  · split
    · exact Mono.refl p
    · simp only
      have h0 : Mono p (p.modApi a fun x => { x with sched := false }) := (mono_modApi p a _)
      split
      · exact h0
      · exact h0.trans (mono_flushStage1 _ a _)
      · exact h0.trans (mono_gacStage1 _ a _)
      · unfold untilClosedStart
        split
        · exact h0.trans (tame_finishApi _ a _).mono
        · refine h0.trans ?_
          refine Mono.trans ?_ (mono_modApi _ a _)
          mono_eq
      · exact h0.trans (tame_finishApi _ a _).mono
      · split
        · exact h0.trans (mono_flushAfter1 _ a _ _)
        · exact h0
      · split
        · exact h0.trans (mono_gacAfter1 _ a _ _)
        · exact h0
      · split
        · exact h0.trans (mono_flushAfter2 _ a _)
        · exact h0
      · split
        · exact h0.trans (mono_gacAfter2 _ a _)
        · exact h0
      · exact h0

/-! ### every handle, every operation -/

theorem mono_runRef (p : Pool) (r : Ref) : Mono p (p.runRef r) := by
  cases r with
  | task t => exact mono_stepTask p t
  | spawner m => exact mono_stepMeta p m
  | api a => exact mono_stepApi p a
  | gchild g i => exact (tame_gatherChildDone p g i true).mono

theorem mono_addApi (p : Pool) (k : ApiKind) : Mono p (p.addApi k) := by
  unfold addApi
  simp only
  refine Mono.trans ?_ (tame_emitRef _ _).mono
  mono_eq

theorem mono_applyOp (p : Pool) (op : Op) : Mono p (p.applyOp op).1 := by
  by_cases hs : op.isSetSize = true
  · cases op with
    | setSize v =>
      show Mono p (p.doSetSize v).1
      unfold doSetSize
      split
      · exact Mono.refl p
      · exact Mono.of_eq p _ rfl rfl rfl
    | _ => simp [Op.isSetSize] at hs
  · by_cases ha : op.isAsync = true
    · cases op with
      | flush re => exact mono_addApi p _
      | gac re => exact mono_addApi p _
      | untilClosed => exact mono_addApi p _
      | _ => simp [Op.isAsync] at ha
    · exact (tame_applyOp p op (by simpa using hs) (by simpa using ha)).mono

end Pool
end Taskpool

namespace Taskpool

/-- `w'` is a later world than `w`: every pool of `w` is still there (at its index) and has only moved forward -/
def World.Later (w w' : World) : Prop :=
  ∀ (i : Nat) (p : Pool), w.pools[i]? = some p → ∃ p', w'.pools[i]? = some p' ∧ Mono p p'

theorem World.Later.refl (w : World) : w.Later w := fun _ p h => ⟨p, h, Mono.refl p⟩

theorem World.Later.trans {a b c : World} (h1 : a.Later b) (h2 : b.Later c) : a.Later c := fun i p h => by
  obtain ⟨p', a', m1⟩ := h1 i p h
  obtain ⟨p'', a'', m2⟩ := h2 i p' a'
  exact ⟨p'', a'', m1.trans m2⟩

theorem World.later_set (w : World) (i : Nat) (p q : Pool) (hp : w.pools[i]? = some p) (hm : Mono p q) (w' : World)
    (hps : w'.pools = w.pools.set i q) : w.Later w' := by
  intro j x hx
  rw [hps, List.getElem?_set]
  split
  · rename_i e; subst e
    rw [hp] at hx; cases hx
    have : i < w.pools.length := (List.getElem?_eq_some_iff.mp hp).1
    simp [this]
    exact hm
  · exact ⟨x, hx, Mono.refl x⟩

theorem World.later_step (w : World) (x : WOp) : w.Later (w.step x).1 := by
  cases x with
  | mkpool size simple name =>
    simp only [World.step, World.mkpool]
    split
    · exact World.Later.refl w
    · split
      · exact fun i p h => ⟨p, h, Mono.refl p⟩
      · intro i p h
        refine ⟨p, ?_, Mono.refl p⟩
        simp only
        rw [List.getElem?_append_left (List.getElem?_eq_some_iff.mp h).1]; exact h
  | on i orders op =>
    simp only [World.step]
    split
    · exact World.Later.refl w
    · rename_i p hp
      refine World.later_set w i p _ hp ?_ _ rfl
      exact (Pool.tame_setOrders p orders).mono.trans (Pool.mono_applyOp _ op)
  | run k orders =>
    simp only [World.step]
    split
    · exact World.Later.refl w
    · split
      · exact fun i p h => ⟨p, h, Mono.refl p⟩
      · rename_i p hp
        refine World.later_set w _ p _ hp ?_ _ rfl
        exact (Pool.tame_setOrders p orders).mono.trans (Pool.mono_runRef _ _)

theorem World.later_drain (w : World) : w.Later w.drain := by
  intro i p h
  refine ⟨{ p with emit := [] }, by simp [World.drain, List.getElem?_map, h], Mono.of_eq _ _ rfl rfl rfl⟩

theorem World.later_next (w : World) (x : WOp) : w.Later (w.next x) :=
  (World.later_step w x).trans (World.later_drain _)

/-- **whatever happens next**: after any further inputs every pool has only moved forward -/
theorem World.later_run (w : World) (h : History) : w.Later (w.run h) := by
  induction h generalizing w with
  | nil => exact World.Later.refl w
  | cons x xs ih =>
    simp only [World.run, List.foldl_cons]
    exact (World.later_next w x).trans (ih _)

theorem World.run_append (w : World) (h h' : History) : w.run (h ++ h') = (w.run h).run h' := by
  simp [World.run, List.foldl_append]

end Taskpool

