import Taskpool.Inv.QueueInv
/-! C20, bounded queues, part 1: the books of the producers in the accounting core `K`.

`K.POK` = every item that entered the queue was put by non-task code (`hputs`) or by a producer task that is through
its `put()` (`PPhase.done true`); a bounded queue never holds more than `maxsize` items; nobody waits in `put()` on an
unbounded queue.  Preserved by every guarded core operation (`KStep`); `maxsize` never changes; a producer that is
through `put()` — either way — is never touched again. -/
namespace Taskpool.QueueM

structure K.POK (k : K) : Prop where
  puts : k.puts = k.hputs + k.prods.countP Prod.putDone
  bnd  : k.maxsize = 0 ∨ k.items.length ≤ k.maxsize
  unb  : k.maxsize = 0 → ∀ p ∈ k.prods, p.phase ≠ .waiting

theorem K.pok_initN (n : Nat) : (K.initN n).POK := by
  refine ⟨by simp [K.initN], by simp [K.initN], by simp [K.initN]⟩

/-- `full()` is false: there is room for one more item -/
theorem K.room_of_not_full (k : K) (h : k.full = false) : k.maxsize = 0 ∨ k.items.length < k.maxsize := by
  simp only [K.full, Bool.and_eq_false_iff, decide_eq_false_iff_not] at h
  omega

theorem K.pos_of_full (k : K) (h : k.full = true) : 0 < k.maxsize ∧ k.maxsize ≤ k.items.length := by
  simpa [K.full] using h

/-- the books do not change when only other parts of the state do and the queue does not grow -/
theorem K.POK.of_le {k k' : K} (hp : k.POK) (h1 : k'.puts = k.puts) (h2 : k'.hputs = k.hputs) (h3 : k'.prods = k.prods)
    (h4 : k'.maxsize = k.maxsize) (h5 : k'.items.length ≤ k.items.length) : k'.POK := by
  obtain ⟨a, b, c⟩ := hp
  refine ⟨by rw [h1, h2, h3]; exact a, ?_, by rw [h3, h4]; exact c⟩
  rw [h4]; omega

/-! ### frames of the old operations -/

theorem K.pframe_setPhase (k : K) (c : Nat) (p : CPhase) :
    (k.setPhase c p).puts = k.puts ∧ (k.setPhase c p).hputs = k.hputs ∧ (k.setPhase c p).prods = k.prods
      ∧ (k.setPhase c p).maxsize = k.maxsize ∧ (k.setPhase c p).items = k.items ∧ (k.setPhase c p).unfinished = k.unfinished :=
  ⟨rfl, rfl, rfl, rfl, rfl, rfl⟩

theorem K.pframe_taskDone (k : K) :
    k.taskDone.puts = k.puts ∧ k.taskDone.hputs = k.hputs ∧ k.taskDone.prods = k.prods ∧ k.taskDone.maxsize = k.maxsize
      ∧ k.taskDone.items = k.items := by
  simp only [K.taskDone, K.taskDoneOk, K.setFinished]
  repeat' (first | split | exact ⟨rfl, rfl, rfl, rfl, rfl⟩)

theorem K.pframe_take (k : K) (c : Nat) :
    (k.take c).puts = k.puts ∧ (k.take c).hputs = k.hputs ∧ (k.take c).prods = k.prods ∧ (k.take c).maxsize = k.maxsize
      ∧ (k.take c).items.length ≤ k.items.length ∧ (k.take c).unfinished = k.unfinished := by
  unfold K.take
  split
  · exact ⟨rfl, rfl, rfl, rfl, Nat.le_refl _, rfl⟩
  · rename_i x rest h
    refine ⟨rfl, rfl, rfl, rfl, ?_, rfl⟩
    simp [K.setPhase, h]

theorem K.pframe_exit (k : K) (c : Nat) (e : Exit) :
    (k.exit c e).puts = k.puts ∧ (k.exit c e).hputs = k.hputs ∧ (k.exit c e).prods = k.prods
      ∧ (k.exit c e).maxsize = k.maxsize ∧ (k.exit c e).items = k.items := by
  obtain ⟨a, b, c', d, e'⟩ := K.pframe_taskDone ({ k with exits := k.exits + 1 } : K)
  exact ⟨a, b, c', d, e'⟩

theorem K.pframe_handTake (k : K) :
    k.handTake.puts = k.puts ∧ k.handTake.hputs = k.hputs ∧ k.handTake.prods = k.prods ∧ k.handTake.maxsize = k.maxsize
      ∧ k.handTake.items.length ≤ k.items.length := by
  rcases K.handTake_cases k with ⟨_, e⟩ | ⟨x, rest, hit, e⟩ <;> rw [e]
  · exact ⟨rfl, rfl, rfl, rfl, Nat.le_refl _⟩
  · obtain ⟨a, b, c, d, e'⟩ := K.pframe_taskDone ({ k with items := rest, takes := k.takes + 1 } : K)
    refine ⟨a, b, c, d, ?_⟩
    rw [e', hit]; simp

theorem K.pframe_stepJoiner (k : K) (j : Nat) :
    (k.stepJoiner j).puts = k.puts ∧ (k.stepJoiner j).hputs = k.hputs ∧ (k.stepJoiner j).prods = k.prods
      ∧ (k.stepJoiner j).maxsize = k.maxsize ∧ (k.stepJoiner j).items = k.items := by
  unfold K.stepJoiner K.joinStart K.joinWake K.modJ
  repeat' (first | split | exact ⟨rfl, rfl, rfl, rfl, rfl⟩)

/-! ### the producers' own operations -/

theorem prePut_not_putDone (p : Prod) (h : prePut p.phase = true) : p.putDone = false := by
  cases p with | mk it ph => cases ph <;> simp_all [Prod.putDone, putDone, prePut]

theorem prePut_not_done (p : Prod) (h : prePut p.phase = true) : isPDone p.phase = false := by
  cases p with | mk it ph => cases ph <;> simp_all [isPDone, prePut]

theorem K.countP_setPP (k : K) (j : Nat) (p : Prod) (ph : PPhase) (h : k.prods[j]? = some p) (hp : prePut p.phase = true) :
    (k.setPP j ph).prods.countP Prod.putDone = k.prods.countP Prod.putDone + (if putDone ph then 1 else 0) := by
  have h1 := countP_modify_at Prod.putDone k.prods j p (fun y => { y with phase := ph }) h
  have a := prePut_not_putDone p hp
  have e : Prod.putDone ((fun y : Prod => { y with phase := ph }) p) = putDone ph := rfl
  rw [e, a] at h1
  simp only [Bool.false_eq_true, if_false, Nat.add_zero] at h1
  exact h1

theorem K.pok_put (k : K) (x : Nat) (hf : k.full = false) (hp : k.POK) : (k.put x).POK := by
  obtain ⟨a, b, c⟩ := hp
  have := k.room_of_not_full hf
  refine ⟨?_, ?_, c⟩
  · simp only [K.put]; omega
  · simp only [K.put, List.length_append, List.length_singleton]; omega

theorem K.pok_produce (k : K) (x : Nat) (hp : k.POK) : (k.produce x).POK := by
  obtain ⟨a, b, c⟩ := hp
  refine ⟨?_, b, ?_⟩
  · simpa [K.produce, List.countP_append, Prod.putDone, putDone] using a
  · intro h0 p hm
    simp only [K.produce, List.mem_append, List.mem_singleton] at hm
    rcases hm with h | rfl
    · exact c h0 p h
    · simp

theorem K.pok_pwait (k : K) (j : Nat) (p : Prod) (h : k.prods[j]? = some p) (hpre : prePut p.phase = true)
    (hf : k.full = true) (hp : k.POK) : (k.pwait j).POK := by
  obtain ⟨a, b, c⟩ := hp
  have := k.pos_of_full hf
  refine ⟨?_, b, ?_⟩
  · rw [K.pwait, K.countP_setPP k j p _ h hpre]; simpa [putDone, K.setPP] using a
  · intro h0
    have h0' : k.maxsize = 0 := h0
    omega

theorem K.pok_pabort (k : K) (j : Nat) (p : Prod) (h : k.prods[j]? = some p) (hpre : prePut p.phase = true)
    (hp : k.POK) : (k.pabort j).POK := by
  obtain ⟨a, b, c⟩ := hp
  refine ⟨?_, b, ?_⟩
  · rw [K.pabort, K.countP_setPP k j p _ h hpre]; simpa [putDone, K.setPP] using a
  · intro h0 y hy
    rcases mem_modify _ _ _ _ hy with h' | ⟨z, _, rfl⟩
    · exact c h0 y h'
    · simp

theorem K.pput_eq (k : K) (j : Nat) (p : Prod) (h : k.prods[j]? = some p) :
    k.pput j = ({ k with items := k.items ++ [p.item], unfinished := k.unfinished + 1, finished := false,
                         puts := k.puts + 1 } : K).setPP j (.done true) := by
  unfold K.pput; rw [h]

theorem K.pok_pput (k : K) (j : Nat) (p : Prod) (h : k.prods[j]? = some p) (hpre : prePut p.phase = true)
    (hf : k.full = false) (hp : k.POK) : (k.pput j).POK := by
  obtain ⟨a, b, c⟩ := hp
  have hr := k.room_of_not_full hf
  rw [K.pput_eq k j p h]
  refine ⟨?_, ?_, ?_⟩
  · have hc := K.countP_setPP ({ k with items := k.items ++ [p.item], unfinished := k.unfinished + 1, finished := false,
                                          puts := k.puts + 1 } : K) j p (.done true) h hpre
    simp only [K.setPP, putDone, if_true] at hc ⊢
    omega
  · simp only [K.setPP, List.length_append, List.length_singleton]; omega
  · intro h0 y hy
    rcases mem_modify _ _ _ _ hy with h' | ⟨z, _, rfl⟩
    · exact c h0 y h'
    · simp

/-- every guarded core operation keeps the producers' books -/
theorem KStep.pok {k k' : K} (h : KStep k k') (hp : k.POK) : k'.POK := by
  cases h with
  | refl => exact hp
  | put x hf => exact K.pok_put k x hf hp
  | spawn => exact hp.of_le rfl rfl rfl rfl (Nat.le_refl _)
  | join => exact hp.of_le rfl rfl rfl rfl (Nat.le_refl _)
  | wait c x _ _ => exact hp.of_le rfl rfl rfl rfl (Nat.le_refl _)
  | take c x _ _ =>
    obtain ⟨a, b, c', d, e, _⟩ := K.pframe_take k c
    exact hp.of_le a b c' d e
  | abort c x _ _ => exact hp.of_le rfl rfl rfl rfl (Nat.le_refl _)
  | exit c x e _ _ =>
    obtain ⟨a, b, c', d, e'⟩ := K.pframe_exit k c e
    exact hp.of_le a b c' d (by rw [e']; exact Nat.le_refl _)
  | stepJ j =>
    obtain ⟨a, b, c', d, e'⟩ := K.pframe_stepJoiner k j
    exact hp.of_le a b c' d (by rw [e']; exact Nat.le_refl _)
  | handTake =>
    obtain ⟨a, b, c', d, e'⟩ := K.pframe_handTake k
    exact hp.of_le a b c' d e'
  | produce x => exact K.pok_produce k x hp
  | pwait j p h hpre hf => exact K.pok_pwait k j p h hpre hf hp
  | pput j p h hpre hf => exact K.pok_pput k j p h hpre hf hp
  | pabort j p h hpre => exact K.pok_pabort k j p h hpre hp

/-- no operation changes `maxsize` -/
theorem KStep.maxsize_eq {k k' : K} (h : KStep k k') : k'.maxsize = k.maxsize := by
  cases h with
  | refl => rfl
  | put x hf => rfl
  | spawn => rfl
  | join => rfl
  | wait c x _ _ => rfl
  | take c x _ _ => exact (K.pframe_take k c).2.2.2.1
  | abort c x _ _ => rfl
  | exit c x e _ _ => exact (K.pframe_exit k c e).2.2.2.1
  | stepJ j => exact (K.pframe_stepJoiner k j).2.2.2.1
  | handTake => exact (K.pframe_handTake k).2.2.2.1
  | produce x => rfl
  | pwait j p h hpre hf => rfl
  | pput j p h hpre hf => rw [K.pput_eq k j p h]; rfl
  | pabort j p h hpre => rfl

/-- what the old operations leave alone: the producers -/
theorem KStep.prods_old {k k' : K} (h : KStep k k') :
    k'.prods = k.prods ∨ (∃ x, k'.prods = k.prods ++ [{ item := x, phase := .notStarted }])
      ∨ ∃ j p ph, k.prods[j]? = some p ∧ prePut p.phase = true ∧ k'.prods = k.prods.modify j fun y => { y with phase := ph } := by
  cases h with
  | refl => exact .inl rfl
  | put x hf => exact .inl rfl
  | spawn => exact .inl rfl
  | join => exact .inl rfl
  | wait c x _ _ => exact .inl rfl
  | take c x _ _ => exact .inl (K.pframe_take k c).2.2.1
  | abort c x _ _ => exact .inl rfl
  | exit c x e _ _ => exact .inl (K.pframe_exit k c e).2.2.1
  | stepJ j => exact .inl (K.pframe_stepJoiner k j).2.2.1
  | handTake => exact .inl (K.pframe_handTake k).2.2.1
  | produce x => exact .inr (.inl ⟨x, rfl⟩)
  | pwait j p h hpre hf => exact .inr (.inr ⟨j, p, _, h, hpre, rfl⟩)
  | pput j p h hpre hf => rw [K.pput_eq k j p h]; exact .inr (.inr ⟨j, p, _, h, hpre, rfl⟩)
  | pabort j p h hpre => exact .inr (.inr ⟨j, p, _, h, hpre, rfl⟩)

/-- a producer that is through `put()` — its item entered the queue, or it was cancelled before — is final: no
operation touches it again, and no operation changes the item a producer carries -/
theorem KStep.prod_final {k k' : K} (h : KStep k k') (j : Nat) (p : Prod) (hj : k.prods[j]? = some p) :
    ∃ p', k'.prods[j]? = some p' ∧ p'.item = p.item ∧ (isPDone p.phase = true → p' = p) := by
  have hlt : j < k.prods.length := (List.getElem?_eq_some_iff.1 hj).1
  rcases h.prods_old with e | ⟨x, e⟩ | ⟨j0, p0, ph, h0, hpre, e⟩ <;> rw [e]
  · exact ⟨p, hj, rfl, fun _ => rfl⟩
  · exact ⟨p, by rw [List.getElem?_append_left hlt]; exact hj, rfl, fun _ => rfl⟩
  · by_cases hjj : j0 = j
    · subst hjj
      rw [hj] at h0; cases h0
      refine ⟨{ p with phase := ph }, by simp [hj], rfl, fun hd => ?_⟩
      rw [prePut_not_done p hpre] at hd; cases hd
    · exact ⟨p, by simp [hjj, hj], rfl, fun _ => rfl⟩

/-- the step that takes producer `j` through its `put()`: either its item entered the queue — the queue was not
full, the item is appended, `puts` and the unfinished counter go up by one — or it was cancelled and the step changed
neither the queue nor any counter -/
theorem KStep.producer_done {k k' : K} (h : KStep k k') (j : Nat) (p p' : Prod)
    (hp : k.prods[j]? = some p) (hpre : prePut p.phase = true) (hp' : k'.prods[j]? = some p') (hd : isPDone p'.phase = true) :
    (p'.phase = .done true ∧ k.full = false ∧ k'.items = k.items ++ [p.item] ∧ k'.puts = k.puts + 1
        ∧ k'.unfinished = k.unfinished + 1 ∧ k'.hputs = k.hputs)
    ∨ (p'.phase = .done false ∧ k'.items = k.items ∧ k'.puts = k.puts ∧ k'.unfinished = k.unfinished
        ∧ k'.hputs = k.hputs ∧ k'.tdCalls = k.tdCalls ∧ k'.finished = k.finished) := by
  have hnd := prePut_not_done p hpre
  have hlt : j < k.prods.length := (List.getElem?_eq_some_iff.1 hp).1
  have same : k'.prods = k.prods → False := by
    intro e; rw [e, hp] at hp'; cases hp'; rw [hnd] at hd; cases hd
  cases h with
  | refl => exact (same rfl).elim
  | put x hf => exact (same rfl).elim
  | spawn => exact (same rfl).elim
  | join => exact (same rfl).elim
  | wait c x _ _ => exact (same rfl).elim
  | take c x _ _ => exact (same (K.pframe_take k c).2.2.1).elim
  | abort c x _ _ => exact (same rfl).elim
  | exit c x e _ _ => exact (same (K.pframe_exit k c e).2.2.1).elim
  | stepJ j0 => exact (same (K.pframe_stepJoiner k j0).2.2.1).elim
  | handTake => exact (same (K.pframe_handTake k).2.2.1).elim
  | produce x =>
    exfalso
    simp only [K.produce, List.getElem?_append_left hlt] at hp'
    rw [hp] at hp'; cases hp'; rw [hnd] at hd; cases hd
  | pwait j0 p0 h0 hpre0 hf =>
    exfalso
    simp only [K.pwait, K.setPP, List.getElem?_modify, hp, Option.map_eq_map, Option.map_some, Option.some.injEq] at hp'
    subst hp'
    split at hd <;> simp_all [isPDone]
  | pput j0 p0 h0 hpre0 hf =>
    rw [K.pput_eq k j0 p0 h0] at hp' ⊢
    simp only [K.setPP, List.getElem?_modify, hp, Option.map_eq_map, Option.map_some, Option.some.injEq] at hp'
    by_cases hjj : j0 = j
    · subst hjj
      rw [hp] at h0; cases h0
      simp only [if_true] at hp'
      subst hp'
      exact .inl ⟨rfl, hf, rfl, rfl, rfl, rfl⟩
    · simp only [hjj, if_false] at hp'; subst hp'; rw [hnd] at hd; cases hd
  | pabort j0 p0 h0 hpre0 =>
    simp only [K.pabort, K.setPP, List.getElem?_modify, hp, Option.map_eq_map, Option.map_some, Option.some.injEq] at hp'
    by_cases hjj : j0 = j
    · subst hjj
      simp only [if_true] at hp'
      subst hp'
      exact .inr ⟨rfl, rfl, rfl, rfl, rfl, rfl, rfl⟩
    · simp only [hjj, if_false] at hp'; subst hp'; rw [hnd] at hd; cases hd

end Taskpool.QueueM
