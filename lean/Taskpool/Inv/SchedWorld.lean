import Taskpool.Inv.SchedWalk
/-! **Whoever is flagged as scheduled has a handle — every reachable world.**  The relation `Pool.Sch` of
`Inv/Sched.lean` (walked through every step function in `Inv/SchedWalk.lean`) is lifted to the loop's ready queue: after
any history, every flagged entity of every pool has a handle in the ready queue; if the loop is idle nobody is flagged. -/
namespace Taskpool

/-- every flagged entity of every pool has a handle: in the loop's ready queue or in the pool's out-queue -/
def World.SchedOK (w : World) : Prop :=
  ∀ i p, w.pools[i]? = some p → ∀ r, p.flag r = true → 0 < w.ready.count (i, r) + p.cnt r

/-! ### list facts -/

theorem count_eraseIdx {α} [BEq α] [LawfulBEq α] [DecidableEq α] (l : List α) (k : Nat) (x y : α) (hx : l[k]? = some x) :
    (l.eraseIdx k).count y + (if x = y then 1 else 0) = l.count y := by
  induction l generalizing k with
  | nil => simp at hx
  | cons a as ih =>
    cases k with
    | zero =>
      simp at hx; subst hx
      simp only [List.eraseIdx_zero, List.tail_cons, List.count_cons, beq_iff_eq]
    | succ n =>
      simp at hx
      have := ih n hx
      simp only [List.eraseIdx_cons_succ, List.count_cons]
      omega

theorem count_emit_map (i k : Nat) (r : Ref) (l : List Ref) :
    (l.map fun r' => (k, r')).count (i, r) = if k = i then l.count r else 0 := by
  induction l with
  | nil => simp
  | cons a as ih =>
    simp only [List.map_cons, List.count_cons, ih, beq_iff_eq, Prod.mk.injEq]
    by_cases e : k = i
    · subst e; simp
    · simp [e]

theorem drain_count_ref (l : List Pool) (k i : Nat) (r : Ref) :
    ((l.zipIdx k).map fun (p, j) => p.emit.map fun r' => (j, r')).flatten.count (i, r)
      = if k ≤ i then (match l[i - k]? with | some p => p.cnt r | none => 0) else 0 := by
  induction l generalizing k with
  | nil => simp
  | cons p ps ih =>
    simp only [List.zipIdx_cons, List.map_cons, List.flatten_cons, List.count_append, count_emit_map, ih (k + 1)]
    by_cases h1 : k = i
    · subst h1
      simp only [if_true, Nat.le_refl, Nat.sub_self, List.getElem?_cons_zero]
      have : ¬ k + 1 ≤ k := by omega
      simp [this, Pool.cnt]
    · by_cases h2 : k < i
      · have e1 : k + 1 ≤ i := h2
        have e2 : k ≤ i := by omega
        have e3 : i - k = (i - (k + 1)) + 1 := by omega
        simp only [h1, if_false, e1, e2, if_true, Nat.zero_add]
        rw [e3, List.getElem?_cons_succ]
      · have e1 : ¬ k + 1 ≤ i := by omega
        have e2 : ¬ k ≤ i := by omega
        simp [h1, e1, e2]

theorem World.ready_drain (w : World) (i : Nat) (p : Pool) (hp : w.pools[i]? = some p) (r : Ref) :
    w.drain.ready.count (i, r) = w.ready.count (i, r) + p.cnt r := by
  simp only [World.drain, List.count_append]
  have := drain_count_ref w.pools 0 i r
  simp only [Nat.zero_le, if_true, Nat.sub_zero, hp] at this
  omega

/-! ### the flags of a drained / fresh pool -/

theorem Pool.flag_emit_nil (p : Pool) (r : Ref) : ({ p with emit := [] } : Pool).flag r = p.flag r := by
  cases r <;> rfl

theorem Pool.flag_init (cap : Cap) (simple : Option SpawnSpec) (r : Ref) : (Pool.init cap simple).flag r = false := by
  cases r <;> simp [Pool.flag, Pool.init]

theorem Pool.sch_orders (p : Pool) (orders : List (List Nat)) : Pool.Sch p { p with orders := orders } :=
  Pool.sch_of_eq rfl rfl rfl rfl

/-! ### one input -/

theorem World.SchedOK.drain {w : World} (h : w.SchedOK) : w.drain.SchedOK := by
  intro i p' hp' r hf
  have hp'' := hp'
  simp only [World.drain, List.getElem?_map] at hp''
  cases hq : w.pools[i]? with
  | none => simp [hq] at hp''
  | some p =>
    simp only [hq, Option.map_some, Option.some.injEq] at hp''
    subst hp''
    rw [Pool.flag_emit_nil] at hf
    have := h i p hq r hf
    rw [World.ready_drain w i p hq r]
    omega

theorem World.SchedOK.set {w : World} (h : w.SchedOK) (i : Nat) (p q : Pool) (hp : w.pools[i]? = some p)
    (hs : Pool.Sch p q) : ({ w with pools := w.pools.set i q } : World).SchedOK := by
  intro j p' hp' r hf
  simp only [List.getElem?_set] at hp'
  show 0 < w.ready.count (j, r) + p'.cnt r
  by_cases e : i = j
  · subst e
    have hl : i < w.pools.length := by
      rcases List.getElem?_eq_some_iff.mp hp with ⟨hl, _⟩; exact hl
    simp only [if_true, hl] at hp'
    cases hp'
    have hem := hs.em r
    rcases hs.fl r hf with a | a
    · have := h i p hp r a
      omega
    · omega
  · simp only [e, if_false] at hp'
    exact h j p' hp' r hf

theorem World.SchedOK.step {w : World} (h : w.SchedOK) (x : WOp) : (w.step x).1.SchedOK := by
  cases x with
  | mkpool size simple name =>
    simp only [World.step, World.mkpool]
    split
    · exact h
    · split
      · exact h
      · intro i p hp r hf
        simp only at hp
        by_cases e : i < w.pools.length
        · rw [List.getElem?_append_left e] at hp
          exact h i p hp r hf
        · rw [List.getElem?_append_right (Nat.le_of_not_lt e)] at hp
          cases hk : i - w.pools.length with
          | zero =>
            simp only [hk, List.getElem?_cons_zero, Option.some.injEq] at hp
            subst hp
            simp [Pool.flag_init] at hf
          | succ n => simp [hk] at hp
  | on i orders op =>
    simp only [World.step]
    cases hp : w.pools[i]? with
    | none => exact h
    | some p =>
      exact h.set i p _ hp ((Pool.sch_orders p orders).trans (Pool.sch_applyOp _ op))
  | run k orders =>
    simp only [World.step]
    cases hk : w.ready[k]? with
    | none => exact h
    | some ir =>
      obtain ⟨i, r0⟩ := ir
      simp only
      have hcnt : ∀ y, (w.ready.eraseIdx k).count y + (if (i, r0) = y then 1 else 0) = w.ready.count y :=
        fun y => count_eraseIdx w.ready k (i, r0) y hk
      cases hp : w.pools[i]? with
      | none =>
        intro j p' hp' r hf
        simp only at hp'
        have hne : ¬ ((i, r0) = (j, r)) := by
          intro e
          simp only [Prod.mk.injEq] at e
          rw [← e.1, hp] at hp'
          cases hp'
        have := hcnt (j, r)
        simp only [hne, if_false] at this
        have := h j p' hp' r hf
        show 0 < (w.ready.eraseIdx k).count (j, r) + p'.cnt r
        omega
      | some p =>
        intro j p' hp' r hf
        simp only [List.getElem?_set] at hp'
        show 0 < (w.ready.eraseIdx k).count (j, r) + p'.cnt r
        by_cases e : i = j
        · subst e
          have hl : i < w.pools.length := by
            rcases List.getElem?_eq_some_iff.mp hp with ⟨hl, _⟩; exact hl
          simp only [if_true, hl] at hp'
          cases hp'
          have hs0 := Pool.sch_orders p orders
          by_cases er : r0 = r
          · subst er
            have := Pool.sch_runRef_self ({ p with orders := orders } : Pool) r0 hf
            omega
          · have hs := hs0.trans (Pool.sch_runRef ({ p with orders := orders } : Pool) r0)
            have hne : ¬ ((i, r0) = (i, r)) := by
              intro e; simp only [Prod.mk.injEq] at e; exact er e.2
            have hc := hcnt (i, r)
            simp only [hne, if_false] at hc
            have hem := hs.em r
            rcases hs.fl r hf with a | a
            · have := h i p hp r a
              omega
            · omega
        · simp only [e, if_false] at hp'
          have hne : ¬ ((i, r0) = (j, r)) := by
            intro e'; simp only [Prod.mk.injEq] at e'; exact e e'.1
          have hc := hcnt (j, r)
          simp only [hne, if_false] at hc
          have := h j p' hp' r hf
          omega

theorem World.SchedOK.next {w : World} (h : w.SchedOK) (x : WOp) : (w.next x).SchedOK :=
  (h.step x).drain

/-! ### every history -/

theorem World.SchedOK.init (base : Nat) : (World.init base).SchedOK := by
  intro i p hp
  simp [World.init] at hp

theorem World.SchedOK.run {w : World} (h : w.SchedOK) (hs : History) : (w.run hs).SchedOK := by
  induction hs generalizing w with
  | nil => exact h
  | cons x xs ih => exact ih (h.next x)

theorem World.schedOK_run (base : Nat) (h : History) : ((World.init base).run h).SchedOK :=
  (World.SchedOK.init base).run h

/-- all out-queues are empty -/
def World.EmitNil (w : World) : Prop := ∀ (i : Nat) (p : Pool), w.pools[i]? = some p → p.emit = []

theorem World.emitNil_drain (w : World) : w.drain.EmitNil := by
  intro i p hp
  simp only [World.drain, List.getElem?_map] at hp
  cases hq : w.pools[i]? with
  | none => simp [hq] at hp
  | some q =>
    simp only [hq, Option.map_some, Option.some.injEq] at hp
    subst hp
    rfl

theorem World.EmitNil.run {w : World} (h : w.EmitNil) (hs : History) : (w.run hs).EmitNil := by
  induction hs generalizing w with
  | nil => exact h
  | cons x xs ih => exact ih (World.emitNil_drain _)

/-- between two inputs the out-queues are empty -/
theorem World.emit_nil_run (base : Nat) (h : History) (i : Nat) (p : Pool)
    (hp : ((World.init base).run h).pools[i]? = some p) : p.emit = [] := by
  have h0 : (World.init base).EmitNil := by
    intro i p hp
    simp [World.init] at hp
  exact h0.run h i p hp

/-- hence: after any history, whoever is flagged has a handle in the loop's ready queue -/
theorem World.flagged_in_ready (base : Nat) (h : History) (i : Nat) (p : Pool)
    (hp : ((World.init base).run h).pools[i]? = some p) (r : Ref) (hf : p.flag r = true) :
    (i, r) ∈ ((World.init base).run h).ready := by
  have h1 := World.schedOK_run base h i p hp r hf
  have h2 := World.emit_nil_run base h i p hp
  simp only [Pool.cnt, h2, List.count_nil, Nat.add_zero] at h1
  exact List.count_pos_iff.mp h1

/-- in particular: if the loop is idle, nobody is flagged -/
theorem World.idle_no_flag (base : Nat) (h : History) (hidle : ((World.init base).run h).ready = []) (i : Nat) (p : Pool)
    (hp : ((World.init base).run h).pools[i]? = some p) (r : Ref) : p.flag r = false := by
  cases hf : p.flag r with
  | false => rfl
  | true =>
    have := World.flagged_in_ready base h i p hp r hf
    rw [hidle] at this
    cases this

#print axioms World.idle_no_flag

end Taskpool
