import Taskpool.Inv.SemLemmas
/-! The books of the map family's own semaphores (`num_concurrent`): frame lemma and the leaves that move a map slot. -/
namespace Taskpool

/-- `q` is `p` up to changes that move no map slot -/
structure MapFrame (p q : Pool) : Prop where
  len : q.tasks.length = p.tasks.length
  tk : ∀ (t : Nat) (tk' : PTask), q.tasks[t]? = some tk' →
        ∃ tk : PTask, p.tasks[t]? = some tk ∧ tk'.mapHeld = tk.mapHeld ∧ tk'.req = tk.req
  rql : p.reqs.length ≤ q.reqs.length
  rq : ∀ (m : Nat) (r' : Req), q.reqs[m]? = some r' →
        (∃ r : Req, p.reqs[m]? = some r ∧ MSigLe r' r) ∨ (p.reqs.length ≤ m ∧ FreshReq r')

theorem MapFrame.heldM_eq {p q : Pool} (h : MapFrame p q) (m : Nat) : heldM q.tasks m = heldM p.tasks m :=
  countP_pointwise _ _ _ h.len (fun t tk' ht => by
    obtain ⟨tk, a, b, c⟩ := h.tk t tk' ht
    exact ⟨tk, a, by rw [b, c]⟩)

theorem heldM_fresh (p : Pool) (hm : MapOK p) (m : Nat) (hge : p.reqs.length ≤ m) : heldM p.tasks m = 0 := by
  unfold heldM
  rw [List.countP_eq_zero]
  intro tk hmem
  obtain ⟨i, hi, rfl⟩ := List.getElem_of_mem hmem
  by_cases hh : p.tasks[i].mapHeld = true
  · have := hm.ref i p.tasks[i] (by simp [hi]) hh
    have hne : p.tasks[i].req ≠ m := by omega
    simp [hne]
  · simp [hh]

theorem MapFrame.map {p q : Pool} (h : MapFrame p q) (hm : MapOK p) : MapOK q := by
  refine ⟨?_, ?_, ?_, ?_⟩
  · intro t tk' ht hh
    obtain ⟨tk, a, b, c⟩ := h.tk t tk' ht
    rw [c]
    exact Nat.lt_of_lt_of_le (hm.ref t tk a (b ▸ hh)) h.rql
  · intro m r' hr
    rcases h.rq m r' hr with ⟨r, a, b⟩ | ⟨hge, ⟨v, hv, hs, hs2, _⟩, _⟩
    · obtain ⟨v, hv, hs, hs2⟩ := hm.le m r a
      refine ⟨v, by rw [b.value]; exact hv, ?_, ?_⟩
      · rw [h.heldM_eq, b.grants, b.nc]
        have := b.pend
        omega
      · intro hnd
        rw [h.heldM_eq, b.grants, b.nc]
        have := b.pge hnd
        have := hs2 (b.live hnd)
        omega
    · refine ⟨v, hv, ?_, ?_⟩
      · rw [h.heldM_eq, heldM_fresh p hm m hge]
        omega
      · intro hnd
        rw [h.heldM_eq, heldM_fresh p hm m hge]
        have := hs2 hnd
        omega
  · intro m r' hr
    rcases h.rq m r' hr with ⟨r, a, b⟩ | ⟨_, ⟨_, _, _, _, hw⟩, _⟩
    · exact b.wk (hm.wk m r a)
    · exact hw
  · intro m r' hr
    rcases h.rq m r' hr with ⟨r, a, b⟩ | ⟨_, _, ha, _⟩
    · exact b.acq (hm.acq m r a)
    · exact ha

theorem Tame.mapFrame {p q : Pool} (h : Tame p q) : MapFrame p q :=
  ⟨h.len, fun t tk' ht => by
      obtain ⟨tk, a, b⟩ := h.soft t tk' ht
      exact ⟨tk, a, congrArg SoftP.mapHeld b, congrArg SoftP.req b⟩,
   h.rql, h.rq⟩

/-- nothing about requests changed, tasks changed only in fields the map books do not read -/
theorem MapFrame.of_tasks (p q : Pool) (hr : q.reqs = p.reqs) (hl : q.tasks.length = p.tasks.length)
    (ht : ∀ (t : Nat) (tk' : PTask), q.tasks[t]? = some tk' →
        ∃ tk : PTask, p.tasks[t]? = some tk ∧ tk'.mapHeld = tk.mapHeld ∧ tk'.req = tk.req) : MapFrame p q :=
  ⟨hl, ht, by rw [hr]; exact Nat.le_refl _, fun m r' h => by rw [hr] at h; exact Or.inl ⟨r', h, MSigLe.refl r'⟩⟩

theorem MapOK.of_eq {p q : Pool} (hm : MapOK p) (hr : q.reqs = p.reqs) (ht : q.tasks = p.tasks) : MapOK q :=
  (MapFrame.of_tasks p q hr (by rw [ht]) (fun t tk' h => by rw [ht] at h; exact ⟨tk', h, rfl, rfl⟩)).map hm

/-- updating task `t` by a function that keeps `mapHeld` and `req` -/
theorem MapFrame.modify (p q : Pool) (t : Nat) (f : PTask → PTask) (hr : q.reqs = p.reqs)
    (ht : q.tasks = p.tasks.modify t f) (hf : ∀ x, p.tasks[t]? = some x → (f x).mapHeld = x.mapHeld ∧ (f x).req = x.req) :
    MapFrame p q := by
  refine MapFrame.of_tasks p q hr (by rw [ht]; simp) ?_
  intro i tk' h
  rw [ht] at h
  obtain ⟨x, hx, rfl⟩ := getElem?_modify_some p.tasks t i f tk' h
  refine ⟨x, hx, ?_⟩
  split
  · rename_i e; subst e; exact hf x hx
  · exact ⟨rfl, rfl⟩

/-! ### semaphore release at the level of one semaphore -/

theorem Sem.release_effect (s : Sem) (v : Nat) (hv : s.value = .fin v) :
    ∃ v', s.release.1.value = .fin v' ∧ v' + grantsL s.release.1.waiters = v + 1 + grantsL s.waiters := by
  unfold Sem.release Sem.wakeNext
  simp only [hv, Cap.inc]
  generalize hr : wakeNextL (Cap.fin (v + 1)) s.waiters = r
  obtain ⟨c, ws', o⟩ := r
  obtain ⟨v', h1, h2⟩ := Pool.wakeNextL_sum (v+1) s.waiters (by omega) c ws' o hr
  exact ⟨v', by simp [h1], by simp [h2]⟩

/-! ### counting map-slot holders -/

theorem heldM_modify_other (ts : List PTask) (t : Nat) (f : PTask → PTask) (x : PTask) (hx : ts[t]? = some x) (m : Nat)
    (hf : ((f x).mapHeld && (f x).req == m) = (x.mapHeld && x.req == m)) : heldM (ts.modify t f) m = heldM ts m := by
  induction ts generalizing t with
  | nil => simp at hx
  | cons a as ih =>
    cases t with
    | zero =>
      simp at hx; subst hx
      simp [heldM, List.countP_cons, hf]
    | succ n =>
      simp at hx
      have := ih n hx
      simp only [heldM, List.modify_succ_cons, List.countP_cons] at this ⊢
      omega

theorem heldM_modify_drop (ts : List PTask) (t : Nat) (f : PTask → PTask) (x : PTask) (hx : ts[t]? = some x) (m : Nat)
    (h1 : x.mapHeld = true) (h2 : x.req = m) (hf : (f x).mapHeld = false) :
    heldM (ts.modify t f) m + 1 = heldM ts m := by
  induction ts generalizing t with
  | nil => simp at hx
  | cons a as ih =>
    cases t with
    | zero =>
      simp at hx; subst hx
      simp [heldM, List.countP_cons, hf, h1, h2]
    | succ n =>
      simp at hx
      have := ih n hx
      simp only [heldM, List.modify_succ_cons, List.countP_cons] at this ⊢
      omega

theorem heldM_append_one (ts : List PTask) (x : PTask) (m : Nat) :
    heldM (ts ++ [x]) m = heldM ts m + (if (x.mapHeld && x.req == m) = true then 1 else 0) := by
  simp [heldM, List.countP_append, List.countP_cons]

end Taskpool

namespace Taskpool

/-- the books of the map semaphores with `k` slots of request `m` "in flight" (taken from its semaphore, or handed
back by a task, but not yet entered anywhere) -/
structure MapMid (p : Pool) (m : Nat) (k : Int) : Prop where
  ref : ∀ (t : Nat) (tk : PTask), p.tasks[t]? = some tk → tk.mapHeld = true → tk.req < p.reqs.length
  le : ∀ (m' : Nat) (r : Req), p.reqs[m']? = some r →
        ∃ v, r.mapSem.value = .fin v ∧
          ((v + heldM p.tasks m' + grantsL r.mapSem.waiters + r.pend : Nat) : Int) + (if m' = m then k else 0) ≤ r.nc ∧
          (r.outcome = none →
            (r.nc : Int) ≤ ((v + heldM p.tasks m' + grantsL r.mapSem.waiters + r.pend : Nat) : Int) + (if m' = m then k else 0))
  wk : ∀ (m' : Nat) (r : Req), p.reqs[m']? = some r → r.mapSem.WakeInv
  acq : ∀ (m' : Nat) (r : Req), p.reqs[m']? = some r → r.AcqOK

theorem MapOK.mid {p : Pool} (h : MapOK p) (m : Nat) : MapMid p m 0 :=
  ⟨h.ref, fun m' r hr => by
    obtain ⟨v, hv, hs, hs2⟩ := h.le m' r hr
    exact ⟨v, hv, by split <;> omega, fun hnd => by have := hs2 hnd; split <;> omega⟩, h.wk, h.acq⟩

theorem MapMid.ok {p : Pool} {m : Nat} {k : Int} (h : MapMid p m k) (hk : k = 0 := by omega) : MapOK p :=
  ⟨h.ref, fun m' r hr => by
    obtain ⟨v, hv, hs, hs2⟩ := h.le m' r hr
    exact ⟨v, hv, by split at hs <;> omega, fun hnd => by have := hs2 hnd; split at this <;> omega⟩, h.wk, h.acq⟩

/-- a change that moves no map slot keeps the slots in flight in flight -/
theorem MapFrame.mid {p q : Pool} (h : MapFrame p q) {m : Nat} {k : Int} (hm : MapMid p m k) (hlt : m < p.reqs.length) :
    MapMid q m k := by
  refine ⟨?_, ?_, ?_, ?_⟩
  · intro t tk' ht hh
    obtain ⟨tk, a, b, c⟩ := h.tk t tk' ht
    rw [c]
    exact Nat.lt_of_lt_of_le (hm.ref t tk a (b ▸ hh)) h.rql
  · intro m' r' hr
    rcases h.rq m' r' hr with ⟨r, a, b⟩ | ⟨hge, ⟨v, hv, hs, hs2, _⟩, _⟩
    · obtain ⟨v, hv, hs, hs2⟩ := hm.le m' r a
      refine ⟨v, by rw [b.value]; exact hv, ?_, ?_⟩
      · rw [h.heldM_eq, b.grants, b.nc]
        have := b.pend
        omega
      · intro hnd
        rw [h.heldM_eq, b.grants, b.nc]
        have := b.pge hnd
        have := hs2 (b.live hnd)
        omega
    · have h0 : heldM p.tasks m' = 0 := by
        unfold heldM
        rw [List.countP_eq_zero]
        intro tk hmem
        obtain ⟨i, hi, rfl⟩ := List.getElem_of_mem hmem
        by_cases hh : p.tasks[i].mapHeld = true
        · have := hm.ref i p.tasks[i] (by simp [hi]) hh
          have hne : p.tasks[i].req ≠ m' := by omega
          simp [hne]
        · simp [hh]
      have : m' ≠ m := by omega
      refine ⟨v, hv, ?_, ?_⟩
      · rw [h.heldM_eq, h0]
        simp only [this, if_false]
        omega
      · intro hnd
        have := hs2 hnd
        rw [h.heldM_eq, h0]
        simp only [*, if_false]
        omega
  · intro m' r' hr
    rcases h.rq m' r' hr with ⟨r, a, b⟩ | ⟨_, ⟨_, _, _, _, hw⟩, _⟩
    · exact b.wk (hm.wk m' r a)
    · exact hw
  · intro m' r' hr
    rcases h.rq m' r' hr with ⟨r, a, b⟩ | ⟨_, _, ha, _⟩
    · exact b.acq (hm.acq m' r a)
    · exact ha

/-- request `m` is rewritten; the tasks stay -/
theorem MapMid.modReq {p : Pool} {m : Nat} {k : Int} (h : MapMid p m k) (f : Req → Req) (k' : Int)
    (hf : ∀ r v, p.reqs[m]? = some r → r.mapSem.value = .fin v →
        ∃ v', (f r).mapSem.value = .fin v' ∧
          ((v' + grantsL (f r).mapSem.waiters + (f r).pend : Nat) : Int) + k' ≤ (v + grantsL r.mapSem.waiters + r.pend : Nat) + k ∧
          ((f r).outcome = none → r.outcome = none ∧
            ((v + grantsL r.mapSem.waiters + r.pend : Nat) : Int) + k ≤ (v' + grantsL (f r).mapSem.waiters + (f r).pend : Nat) + k'))
    (hnc : ∀ r, (f r).nc = r.nc) (hacq : ∀ r, p.reqs[m]? = some r → r.AcqOK → (f r).AcqOK)
    (hwk : ∀ r, p.reqs[m]? = some r → r.mapSem.WakeInv → (f r).mapSem.WakeInv := by intro _ _ h; exact h) :
    MapMid (p.modReq m f) m k' := by
  refine ⟨?_, ?_, ?_, ?_⟩
  · intro t tk ht hh
    simp only [Pool.modReq, List.length_modify]
    exact h.ref t tk ht hh
  · intro m' r' hr
    simp only [Pool.modReq] at hr
    obtain ⟨x, hx, rfl⟩ := getElem?_modify_some p.reqs m m' f r' hr
    obtain ⟨v, hv, hs, hs2⟩ := h.le m' x hx
    split
    · rename_i e; subst e
      obtain ⟨v', hv', hs', hs2'⟩ := hf x v hx hv
      refine ⟨v', hv', ?_, ?_⟩
      · simp only [Pool.modReq_tasks, hnc, if_true] at hs ⊢
        omega
      · intro hnd
        obtain ⟨hl, hh⟩ := hs2' hnd
        have := hs2 hl
        simp only [Pool.modReq_tasks, hnc, if_true] at this ⊢
        omega
    · rename_i ne
      have : m' ≠ m := fun e => ne e.symm
      refine ⟨v, hv, ?_, ?_⟩
      · simp only [Pool.modReq_tasks, this, if_false] at hs ⊢
        exact hs
      · intro hnd
        have h3 := hs2 hnd
        simp only [Pool.modReq_tasks, this, if_false] at h3 ⊢
        exact h3
  · intro m' r' hr
    simp only [Pool.modReq] at hr
    obtain ⟨x, hx, rfl⟩ := getElem?_modify_some p.reqs m m' f r' hr
    split
    · rename_i e; subst e; exact hwk x hx (h.wk _ x hx)
    · exact h.wk m' x hx
  · intro m' r' hr
    simp only [Pool.modReq] at hr
    obtain ⟨x, hx, rfl⟩ := getElem?_modify_some p.reqs m m' f r' hr
    split
    · rename_i e; subst e; exact hacq x hx (h.acq _ x hx)
    · exact h.acq m' x hx

/-- task `t` of request `m` hands back its map slot: one more slot of `m` in flight -/
theorem MapMid.dropTask {p : Pool} {m : Nat} {k : Int} (h : MapMid p m k) (t : Nat) (f : PTask → PTask) (x : PTask)
    (hx : p.tasks[t]? = some x) (h1 : x.mapHeld = true) (h2 : x.req = m) (hf : (f x).mapHeld = false)
    (hq : (f x).req = x.req) : MapMid (p.modTask t f) m (k + 1) := by
  refine ⟨?_, ?_, h.wk, h.acq⟩
  · intro i tk' ht hh
    simp only [Pool.modTask_tasks] at ht
    obtain ⟨y, hy, rfl⟩ := getElem?_modify_some p.tasks t i f tk' ht
    by_cases e : t = i
    · subst e; rw [hx] at hy; cases hy; simp only [if_true] at hh; rw [hf] at hh; cases hh
    · simp only [e, if_false] at hh ⊢; exact h.ref i y hy hh
  · intro m' r hr
    obtain ⟨v, hv, hs, hs2⟩ := h.le m' r hr
    simp only [Pool.modTask_tasks]
    by_cases e : m' = m
    · subst e
      have := heldM_modify_drop p.tasks t f x hx m' h1 h2 hf
      refine ⟨v, hv, ?_, fun hnd => ?_⟩
      · simp only [if_true] at hs ⊢
        omega
      · have h3 := hs2 hnd
        simp only [if_true] at h3 ⊢
        omega
    · have := heldM_modify_other p.tasks t f x hx m' (by
        have hne : (x.req == m') = false := by rw [h2]; simpa using fun e' => e e'.symm
        rw [hq, hne]; simp)
      refine ⟨v, hv, ?_, fun hnd => ?_⟩
      · simp only [e, if_false] at hs ⊢
        omega
      · have h3 := hs2 hnd
        simp only [e, if_false] at h3 ⊢
        omega

/-- a task is appended; if it holds a map slot of `m`, one slot in flight is entered in the books -/
theorem MapMid.addTask {p : Pool} {m : Nat} {k : Int} (h : MapMid p m (k + 1)) (x : PTask) (hq : x.req = m)
    (hh : x.mapHeld = true) (hlt : m < p.reqs.length) (q : Pool) (ht : q.tasks = p.tasks ++ [x]) (hr : q.reqs = p.reqs) : MapMid q m k := by
  refine ⟨?_, ?_, fun m' r h' => h.wk m' r (hr ▸ h'), fun m' r h' => h.acq m' r (hr ▸ h')⟩
  · intro i tk hi hh
    rw [ht, List.getElem?_append] at hi
    rw [hr]
    split at hi
    · exact h.ref i tk hi hh
    · rcases Nat.lt_or_ge (i - p.tasks.length) 1 with h1 | h1
      · have : i - p.tasks.length = 0 := by omega
        rw [this] at hi; simp at hi; subst hi; rw [hq]; exact hlt
      · rw [List.getElem?_eq_none (by simpa using h1)] at hi; cases hi
  · intro m' r h'
    rw [hr] at h'
    obtain ⟨v, hv, hs, hs2⟩ := h.le m' r h'
    rw [ht, heldM_append_one]
    by_cases e : m' = m
    · subst e
      refine ⟨v, hv, ?_, fun hnd => ?_⟩
      · simp only [if_true] at hs ⊢
        split <;> omega
      · have h3 := hs2 hnd
        have hxm : (x.mapHeld && x.req == m') = true := by simp [hh, hq]
        simp only [if_true, hxm] at h3 ⊢
        omega
    · have hne : (x.req == m') = false := by rw [hq]; simpa using fun e' => e e'.symm
      refine ⟨v, hv, ?_, fun hnd => ?_⟩
      · simp only [e, if_false, hne, Bool.and_false] at hs ⊢
        simpa using hs
      · have h3 := hs2 hnd
        simp only [e, if_false, hne, Bool.and_false] at h3 ⊢
        simpa using h3

/-- a task that holds no map slot is appended -/
theorem MapMid.addPlainTask {p : Pool} {m : Nat} {k : Int} (h : MapMid p m k) (x : PTask) (hx : x.mapHeld = false)
    (q : Pool) (ht : q.tasks = p.tasks ++ [x]) (hr : q.reqs = p.reqs) : MapMid q m k := by
  refine ⟨?_, ?_, fun m' r h' => h.wk m' r (hr ▸ h'), fun m' r h' => h.acq m' r (hr ▸ h')⟩
  · intro i tk hi hh
    rw [ht, List.getElem?_append] at hi
    rw [hr]
    split at hi
    · exact h.ref i tk hi hh
    · rcases Nat.lt_or_ge (i - p.tasks.length) 1 with h1 | h1
      · have : i - p.tasks.length = 0 := by omega
        rw [this] at hi; simp at hi; subst hi; rw [hx] at hh; cases hh
      · rw [List.getElem?_eq_none (by simpa using h1)] at hi; cases hi
  · intro m' r h'
    rw [hr] at h'
    obtain ⟨v, hv, hs, hs2⟩ := h.le m' r h'
    rw [ht, heldM_append_one]
    simp only [hx, Bool.false_and, Bool.false_eq_true, if_false]
    exact ⟨v, hv, by simpa using hs, fun hnd => by simpa using hs2 hnd⟩

end Taskpool

namespace Taskpool

theorem MapFrame.refl (p : Pool) : MapFrame p p := (Tame.refl p).mapFrame

theorem MapFrame.trans {p q r : Pool} (h1 : MapFrame p q) (h2 : MapFrame q r) : MapFrame p r := by
  refine ⟨h2.len.trans h1.len, ?_, Nat.le_trans h1.rql h2.rql, ?_⟩
  · intro t tk'' h
    obtain ⟨tk', a, b, c⟩ := h2.tk t tk'' h
    obtain ⟨tk, a', b', c'⟩ := h1.tk t tk' a
    exact ⟨tk, a', b.trans b', c.trans c'⟩
  · intro m r'' h
    rcases h2.rq m r'' h with ⟨r', hq, e2⟩ | ⟨hge, hf⟩
    · rcases h1.rq m r' hq with ⟨r, hp, e1⟩ | ⟨hge, hf⟩
      · exact Or.inl ⟨r, hp, e1.trans e2⟩
      · exact Or.inr ⟨hge, hf.le e2⟩
    · exact Or.inr ⟨Nat.le_trans h1.rql hge, hf⟩

namespace Pool

theorem mapFrame_releasePool (p : Pool) : MapFrame p p.releasePool := by
  unfold releasePool
  exact (MapFrame.of_tasks p ({ p with sem := p.sem.release.1 } : Pool) rfl rfl
    (fun t tk' h => ⟨tk', h, rfl, rfl⟩)).trans (tame_schedOpt _ _).mapFrame

theorem tame0_schedOpt (p : Pool) (o) : Tame0 p (p.schedOpt o) := (tame_schedOpt p o).toTame0

/-- an update of a request that moves no map slot, as far as the map books and the accounting go -/
theorem mapFrame_modReq (p : Pool) (m : Nat) (f : Req → Req)
    (hf : ∀ x, MSigLe (f x) x := by intro x; exact ⟨rfl, rfl, rfl, Nat.le_refl _, fun h => h, rfl, Or.inl rfl, fun h => h, fun h => h, fun _ => rfl, fun _ => Nat.le_refl _⟩) :
    MapFrame p (p.modReq m f) := by
  refine ⟨rfl, fun t tk' h => ⟨tk', h, rfl, rfl⟩, by simp [modReq], ?_⟩
  intro i r' h
  simp only [modReq] at h
  obtain ⟨x, hx, rfl⟩ := getElem?_modify_some p.reqs m i f r' h
  refine Or.inl ⟨x, hx, ?_⟩
  split
  · exact hf x
  · exact MSigLe.refl x

theorem _root_.Taskpool.Sem.release_own (s : Sem) (i : Nat) (h : ownCancelled i s.waiters) : ownCancelled i s.release.1.waiters := by
  unfold Sem.release Sem.wakeNext
  exact ownCancelled_wake i _ _ h

theorem _root_.Taskpool.Sem.wakeNext_own (s : Sem) (i : Nat) (h : ownCancelled i s.waiters) : ownCancelled i s.wakeNext.1.waiters := by
  unfold Sem.wakeNext
  exact ownCancelled_wake i _ _ h

/-- `_enough_room.release()` wakes pending waiters only: a cancelled spawner stays doomed -/
theorem cancOK_releasePool {E : Nat → Prop} (p : Pool) (h : CancEx E p) : CancEx E p.releasePool := by
  unfold releasePool
  refine (tame_schedOpt _ _).cok E ?_
  exact h.frame (fun i x => Sem.release_own p.sem i x) (fun _ r' a => Or.inl ⟨r', a, CSame.refl r'⟩)

/-- so does the `release()` of a call's own semaphore -/
theorem cancOK_releaseMap {E : Nat → Prop} (p : Pool) (m : Nat) (h : CancEx E p) : CancEx E (p.releaseMap m) := by
  unfold releaseMap
  split
  · exact h
  · rename_i r hr
    refine (tame_schedOpt _ _).cok E ?_
    refine h.frame (fun _ x => x) ?_
    intro i r' a
    simp only [modReq] at a
    obtain ⟨x, hx, rfl⟩ := getElem?_modify_some p.reqs m i _ r' a
    refine Or.inl ⟨x, hx, ?_⟩
    split
    · rename_i e; subst e
      rw [hr] at hx; cases hx
      exact ⟨rfl, rfl, rfl, Or.inl rfl, fun h => Or.inl h, fun i h => Or.inl (Sem.release_own r.mapSem i h)⟩
    · exact CSame.refl x

theorem tame0_releaseMap (p : Pool) (m) : Tame0 p (p.releaseMap m) := by
  unfold releaseMap
  split
  · exact Tame0.refl p
  · exact (tame0_modReq p m _).trans (tame0_schedOpt _ _)

/-- `release()` of request `m`'s own semaphore enters one slot in flight in the books again -/
theorem mapMid_releaseMap {p : Pool} {m : Nat} {k : Int} (h : MapMid p m (k + 1)) (hlt : m < p.reqs.length) :
    MapMid (p.releaseMap m) m k := by
  unfold releaseMap
  split
  · rename_i hn
    rw [List.getElem?_eq_none_iff] at hn
    omega
  · rename_i r hr
    have h1 : MapMid (p.modReq m fun x => { x with mapSem := r.mapSem.release.1 }) m k := by
      refine h.modReq _ k ?_ (fun _ => rfl) (fun _ _ ha => ha)
        (fun _ _ _ v _ _ hg => Sem.release_wake r.mapSem hg)
      intro r0 v hr0 hv
      rw [hr] at hr0; cases hr0
      obtain ⟨v', a, b⟩ := Sem.release_effect r.mapSem v hv
      have e1 : grantsL ({ r with mapSem := r.mapSem.release.1 } : Req).mapSem.waiters = grantsL r.mapSem.release.1.waiters := rfl
      have e2 : ({ r with mapSem := r.mapSem.release.1 } : Req).pend = r.pend := rfl
      refine ⟨v', a, ?_, fun hnd => ⟨hnd, ?_⟩⟩
      · rw [e1, e2]; omega
      · rw [e1, e2]; omega
    exact (tame_schedOpt _ _).mapFrame.mid h1 (by simpa [modReq] using hlt)

end Pool
end Taskpool

namespace Taskpool

theorem MapMid.of_eq {p q : Pool} {m : Nat} {k : Int} (h : MapMid p m k) (hr : q.reqs = p.reqs) (ht : q.tasks = p.tasks) :
    MapMid q m k :=
  ⟨fun t tk a b => by rw [hr]; rw [ht] at a; exact h.ref t tk a b,
   fun m' r a => by rw [hr] at a; rw [ht]; exact h.le m' r a,
   fun m' r a => by rw [hr] at a; exact h.wk m' r a,
   fun m' r a => by rw [hr] at a; exact h.acq m' r a⟩

end Taskpool

namespace Taskpool

/-- `q` is `p` up to changes that keep every request's progress counters (and do not suspend a spawner anywhere
new) and every task's request -/
structure AccFrame (p q : Pool) : Prop where
  len : q.tasks.length = p.tasks.length
  tk : ∀ (t : Nat) (tk' : PTask), q.tasks[t]? = some tk' → ∃ tk : PTask, p.tasks[t]? = some tk ∧ tk'.req = tk.req
  rql : p.reqs.length ≤ q.reqs.length
  rq : ∀ (m : Nat) (r' : Req), q.reqs[m]? = some r' →
        (∃ r : Req, p.reqs[m]? = some r ∧ r'.cnt = r.cnt ∧ (r'.frame = r.frame ∨ r'.frame = .done ∨ r'.frame = .running)) ∨
        (p.reqs.length ≤ m ∧ r'.cnt.fresh ∧ (r'.frame = .notStarted ∨ r'.frame = .done ∨ r'.frame = .running))

theorem AccFrame.acc {p q : Pool} (h : AccFrame p q) (ha : AccOK p) : AccOK q := by
  have hto : ∀ m, tasksOf q.tasks m = tasksOf p.tasks m := fun m =>
    countP_pointwise _ _ _ h.len (fun t tk' ht => by
      obtain ⟨tk, a, b⟩ := h.tk t tk' ht
      exact ⟨tk, a, by rw [b]⟩)
  refine ⟨?_, ?_, ?_⟩
  · intro t tk' ht
    obtain ⟨tk, a, b⟩ := h.tk t tk' ht
    rw [b]
    exact Nat.lt_of_lt_of_le (ha.ref t tk a) h.rql
  · intro m r' hr
    rw [hto]
    rcases h.rq m r' hr with ⟨r, a, b, _⟩ | ⟨hge, hc, _⟩
    · rw [ha.tk m r a]
      exact (congrArg Cnt.created b).symm
    · rw [tasksOf_fresh p ha m hge]
      exact hc.1.symm
  · intro m r' hr
    rcases h.rq m r' hr with ⟨r, a, b, c⟩ | ⟨_, hc, hf⟩
    · rw [b]
      exact (ha.rq m r a).frame c
    · exact AccReq.fresh hc hf

theorem MapFrame.accFrame {p q : Pool} (h : MapFrame p q) : AccFrame p q :=
  ⟨h.len, fun t tk' ht => by obtain ⟨tk, a, _, c⟩ := h.tk t tk' ht; exact ⟨tk, a, c⟩, h.rql,
   fun m r' hr => by
     rcases h.rq m r' hr with ⟨r, a, b⟩ | ⟨hge, _, _, hc, hf⟩
     · exact Or.inl ⟨r, a, b.cnt, b.fr.elim Or.inl (fun e => Or.inr (Or.inl e))⟩
     · exact Or.inr ⟨hge, hc, hf⟩⟩

theorem MapFrame.acc {p q : Pool} (h : MapFrame p q) (ha : AccOK p) : AccOK q := h.accFrame.acc ha

theorem AccFrame.trans {p q r : Pool} (h1 : AccFrame p q) (h2 : AccFrame q r) : AccFrame p r := by
  refine ⟨h2.len.trans h1.len, ?_, Nat.le_trans h1.rql h2.rql, ?_⟩
  · intro t tk'' h
    obtain ⟨tk', a, b⟩ := h2.tk t tk'' h
    obtain ⟨tk, a', b'⟩ := h1.tk t tk' a
    exact ⟨tk, a', b.trans b'⟩
  · intro m r'' h
    rcases h2.rq m r'' h with ⟨r', hq, e2, f2⟩ | ⟨hge, hc, hf⟩
    · rcases h1.rq m r' hq with ⟨r0, hp, e1, f1⟩ | ⟨hge, hc, hf⟩
      · refine Or.inl ⟨r0, hp, e2.trans e1, ?_⟩
        rcases f2 with x | x | x
        · rcases f1 with y | y | y
          · exact Or.inl (x.trans y)
          · exact Or.inr (Or.inl (x.trans y))
          · exact Or.inr (Or.inr (x.trans y))
        · exact Or.inr (Or.inl x)
        · exact Or.inr (Or.inr x)
      · refine Or.inr ⟨hge, by rw [e2]; exact hc, ?_⟩
        rcases f2 with x | x | x
        · rw [x]; exact hf
        · exact Or.inr (Or.inl x)
        · exact Or.inr (Or.inr x)
    · exact Or.inr ⟨Nat.le_trans h1.rql hge, hc, hf⟩

/-- only a request's map semaphore (and scheduling flags) changed -/
theorem AccFrame.of_reqs (p q : Pool) (ht : q.tasks = p.tasks) (hl : q.reqs.length = p.reqs.length)
    (hr : ∀ (m : Nat) (r' : Req), q.reqs[m]? = some r' → ∃ r, p.reqs[m]? = some r ∧ r'.cnt = r.cnt ∧ r'.frame = r.frame) :
    AccFrame p q :=
  ⟨by rw [ht], fun t tk' h => by rw [ht] at h; exact ⟨tk', h, rfl⟩, by rw [hl]; exact Nat.le_refl _,
   fun m r' h => by obtain ⟨r, a, b, c⟩ := hr m r' h; exact Or.inl ⟨r, a, b, Or.inl c⟩⟩

theorem AccOK.of_eq {p q : Pool} (h : AccOK p) (hr : q.reqs = p.reqs) (ht : q.tasks = p.tasks) : AccOK q :=
  ⟨fun t tk a => by rw [hr]; rw [ht] at a; exact h.ref t tk a,
   fun m r a => by rw [hr] at a; rw [ht]; exact h.tk m r a,
   fun m r a => by rw [hr] at a; exact h.rq m r a⟩

namespace Pool

theorem accFrame_modTask (p : Pool) (t : Nat) (f : PTask → PTask) (hf : ∀ x, (f x).req = x.req) :
    AccFrame p (p.modTask t f) := by
  refine ⟨by simp [modTask], ?_, Nat.le_refl _, fun m r' h => Or.inl ⟨r', h, rfl, Or.inl rfl⟩⟩
  intro i tk' h
  obtain ⟨y, hy, rfl⟩ := getElem?_modify_some p.tasks t i f tk' h
  exact ⟨y, hy, by split <;> simp [hf]⟩

theorem accFrame_releaseMap (p : Pool) (m : Nat) : AccFrame p (p.releaseMap m) := by
  unfold releaseMap
  split
  · exact (MapFrame.refl p).accFrame
  · rename_i r hr
    refine AccFrame.trans (q := p.modReq m fun x => { x with mapSem := r.mapSem.release.1 }) ?_
      (tame_schedOpt _ _).mapFrame.accFrame
    refine AccFrame.of_reqs _ _ rfl (by simp [modReq]) ?_
    intro i r' h
    simp only [modReq] at h
    obtain ⟨x, hx, rfl⟩ := getElem?_modify_some p.reqs m i _ r' h
    exact ⟨x, hx, by split <;> rfl, by split <;> rfl⟩

end Pool
end Taskpool

namespace Taskpool

theorem MapMid.emitRef {p : Pool} {m : Nat} {k : Int} (h : MapMid p m k) (r : Ref) : MapMid (p.emitRef r) m k :=
  h.of_eq rfl rfl

/-- request `m` is rewritten in fields the map books do not read -/
theorem MapMid.modReq_same {p : Pool} {m : Nat} {k : Int} (h : MapMid p m k) (f : Req → Req)
    (hs : ∀ r, (f r).mapSem = r.mapSem ∧ (f r).nc = r.nc ∧ (f r).pend = r.pend ∧ (r.AcqOK → (f r).AcqOK) ∧
      ((f r).outcome = none → r.outcome = none)) :
    MapMid (p.modReq m f) m k := by
  refine h.modReq f k ?_ (fun r => (hs r).2.1) (fun r _ ha => (hs r).2.2.2.1 ha) (fun r _ hw => by rw [(hs r).1]; exact hw)
  intro r v _ hv
  refine ⟨v, by rw [(hs r).1]; exact hv, ?_, fun hnd => ⟨(hs r).2.2.2.2 hnd, ?_⟩⟩
  · rw [(hs r).1, (hs r).2.2.1]; omega
  · rw [(hs r).1, (hs r).2.2.1]; omega

end Taskpool
