import Taskpool.Inv.SealInv
import Taskpool.Inv.FinSWalk
import Taskpool.Inv.EndWalk2
import Taskpool.Inv.EmptiedWalk
/-! The two further invariants of sealed pools — `FinSOK` (a spawner that was never cancelled ends only when its work is
done, `Inv/FinS.lean`) and `EndFiled` (a task inside its end callback stays filed as ended, `Inv/EndOK.lean`) — lifted to
every pool of every world reachable without `unlock()` and without assignment to `pool_size`, on top of `SealedC`. -/
namespace Taskpool

/-- one input of a world: an invariant that is preserved by the steps *of the pools of this world* (so that the
obligations may use what is known about them) holds afterwards -/
theorem World.all_next_local {I : Cfg → Pool → Prop} (w : World) (x : WOp) (hw : w.All I)
    (hinit : ∀ size simple name, x = .mkpool size simple name → ∀ c : Cfg, c.isSimple = simple.isSome →
      I c (Pool.init c.size0 simple))
    (hop : ∀ i orders op, x = .on i orders op → ∀ (c : Cfg) (p : Pool), w.cfgs[i]? = some c → w.pools[i]? = some p → I c p →
      I c (({ p with orders := orders } : Pool).applyOp op).1)
    (hrun : ∀ k orders, x = .run k orders → ∀ (i : Nat) (r : Ref) (c : Cfg) (p : Pool), w.cfgs[i]? = some c → w.pools[i]? = some p → I c p →
      I c (({ p with orders := orders } : Pool).runRef r))
    (hdrain : ∀ c p, I c p → I c { p with emit := [] }) : (w.next x).All I := by
  have hstep : (w.step x).1.All I := by
    cases x with
    | mkpool size simple name =>
      simp only [World.step, World.mkpool]
      split
      · exact hw
      · split
        · exact ⟨hw.len, hw.inv⟩
        · refine ⟨by simp [hw.len], ?_⟩
          intro i c p hc hp
          simp only at hc hp
          rw [List.getElem?_append] at hc hp
          split at hp
          · rename_i hlt
            rw [if_pos (by rw [hw.len]; exact hlt)] at hc
            exact hw.inv i c p hc hp
          · rename_i hge
            rw [if_neg (by rw [hw.len]; exact hge)] at hc
            rw [hw.len] at hc
            cases hi : i - w.pools.length with
            | zero =>
              rw [hi] at hc hp
              simp at hc hp
              subst hc; subst hp
              exact hinit size simple name rfl _ rfl
            | succ n => rw [hi] at hp; simp at hp
    | on i orders op =>
      simp only [World.step]
      split
      · exact hw
      · rename_i p hp
        exact hw.set i p _ hp (fun c hc => hop i orders op rfl c p hc hp (hw.inv i c p hc hp)) _ rfl rfl
    | run k orders =>
      simp only [World.step]
      split
      · exact hw
      · split
        · exact ⟨hw.len, hw.inv⟩
        · rename_i i r _ p hp
          exact hw.set _ p _ hp (fun c hc => hrun k orders rfl _ _ c p hc hp (hw.inv _ c p hc hp)) _ rfl rfl
  show (w.step x).1.drain.All I
  refine ⟨by simp [World.drain, hstep.len], ?_⟩
  intro i c p hc hp
  simp only [World.drain, List.getElem?_map] at hc hp
  cases hq : (w.step x).1.pools[i]? with
  | none => simp [hq] at hp
  | some q =>
    simp [hq] at hp
    subst hp
    exact hdrain c q (hstep.inv i c q hc hq)

def SealedC2 (c : Cfg) (p : Pool) : Prop := SealedC c p ∧ Pool.FinSOK p ∧ Pool.EndFiled p ∧ Pool.EmptiedOK p

theorem World.sealed2_run (base : Nat) (h : History) (hh : ∀ x ∈ h, x.sealOk = true) :
    ((World.init base).run h).All SealedC2 := by
  have key : ∀ (suf pre : History), ((World.init base).run pre).All SealedC2 → (∀ x ∈ suf, x.sealOk = true) →
      ((World.init base).run (pre ++ suf)).All SealedC2 := by
    intro suf
    induction suf with
    | nil => intro pre hp _; simpa using hp
    | cons x xs ih =>
      intro pre hp hx
      have e : pre ++ x :: xs = (pre ++ [x]) ++ xs := by simp
      rw [e]
      refine ih (pre ++ [x]) ?_ (fun y hy => hx y (by simp [hy]))
      rw [World.run_append]
      show (((World.init base).run pre).next x).All SealedC2
      have hxo := hx x (by simp)
      refine World.all_next_local _ x hp ?_ ?_ ?_ ?_
      · intro size simple name e c hs
        subst e
        exact ⟨sealedC_init c simple hs hxo, Pool.finS_init _ _, Pool.endFiled_init _ _, Pool.emptied_init _ _⟩
      · intro i orders op e c p _ _ ⟨hs, hf, he, hm⟩
        subst e
        have hso : op.sealOk = true := hxo
        have hg1 : Good c.size0 false true ({ p with orders := orders } : Pool) := (Pool.tame_setOrders p orders).good hs.1
        have hw1 : Pool.Want ({ p with orders := orders } : Pool) :=
          ⟨hs.2.1.tq, hs.2.1.tw, hs.2.1.rs, hs.2.1.pn, hs.2.1.pw, hs.2.1.pe, hs.2.1.mn, hs.2.1.mw, hs.2.1.me, hs.2.1.od, hs.2.1.ce⟩
        have hs1 := Pool.seal_orders p orders hs.2.2
        have hno : op.noUnlock = true := by
          simp only [Op.sealOk, Bool.and_eq_true] at hso; exact hso.1
        exact ⟨sealedC_op c p orders op hso hs,
          Pool.finS_applyOp _ op hno hg1.lax hw1 hs1 (Pool.finS_orders p orders hf),
          Pool.endFiled_applyOp _ op hg1.lax hs1 (Pool.endFiled_orders p orders he),
          Pool.emptied_applyOp _ op hno hg1.lax hw1 hs1 (Pool.emptied_orders p orders hm)⟩
      · intro k orders e i r c p _ hpp ⟨hs, hf, he, hm⟩
        have hg1 : Good c.size0 false true ({ p with orders := orders } : Pool) := (Pool.tame_setOrders p orders).good hs.1
        have hw1 : Pool.Want ({ p with orders := orders } : Pool) :=
          ⟨hs.2.1.tq, hs.2.1.tw, hs.2.1.rs, hs.2.1.pn, hs.2.1.pw, hs.2.1.pe, hs.2.1.mn, hs.2.1.mw, hs.2.1.me, hs.2.1.od, hs.2.1.ce⟩
        have hs1 := Pool.seal_orders p orders hs.2.2
        have h0 := World.spawnersWaited_run base pre i p hpp
        have h1 := fun a re => World.spawnersWaited_stage1 base pre i p hpp orders a re
        exact ⟨sealedC_run c p orders r hs h0 h1,
          Pool.finS_runRef _ r hg1.lax hw1 hs1 (Pool.finS_orders p orders hf) (fun g G hG => h0 g G hG) h1,
          Pool.endFiled_runRef _ r hg1.lax hw1 hs1 (Pool.endFiled_orders p orders he),
          Pool.emptied_runRef _ r hg1.lax hw1 hs1 (Pool.emptied_orders p orders hm)⟩
      · intro c p ⟨hs, hf, he, hm⟩
        exact ⟨sealedC_drain c p hs, Pool.finS_drain p hf, Pool.endFiled_drain p he, Pool.emptied_drain p hm⟩
  simpa using key h [] (World.all_init SealedC2 base) hh

end Taskpool
