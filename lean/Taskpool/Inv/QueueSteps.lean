import Taskpool.Inv.QueueRefine
/-! C20, part 3: what one step does to a consumer that holds no item, and to a `join()` waiter. -/
namespace Taskpool.QueueM

theorem K.joiners_exit (k : K) (c : Nat) (e : Exit) :
    (k.exit c e).joiners = ({ k with exits := k.exits + 1 } : K).taskDone.joiners
    ∧ (k.exit c e).unfinished = ({ k with exits := k.exits + 1 } : K).taskDone.unfinished
    ∧ (k.exit c e).items = k.items ∧ (k.exit c e).evWaiters = k.evWaiters := by
  refine ⟨rfl, rfl, ?_, ?_⟩
  all_goals
    simp only [K.exit, K.setPhase, K.addMark, K.taskDone, K.taskDoneOk, K.setFinished]
    repeat' (first | split | rfl)

/-- a step that ends a consumer which was never handed an item: it ended by cancellation, made no `task_done()`
call, removed no item -/
theorem KStep.cancelled_waiter {k k' : K} (h : KStep k k') (hi : k.Inv) (c : Nat) (x x' : Core)
    (hx : k.cores[c]? = some x) (hp : preBlock x.phase = true) (hx' : k'.cores[c]? = some x') (hd : Q.isDone x'.phase = true) :
    x'.phase = .done .cancelled false ∧ x'.marks = 0 ∧ k'.items = k.items ∧ k'.unfinished = k.unfinished
      ∧ k'.tdCalls = k.tdCalls ∧ k'.exits = k.exits ∧ k'.puts = k.puts ∧ k'.takes = k.takes := by
  have hnd : Q.isDone x.phase = false := by
    cases x with | mk ph m => cases ph <;> simp_all [Q.isDone, preBlock]
  have hlt : c < k.cores.length := (List.getElem?_eq_some_iff.1 hx).1
  have hm : x.marks = 0 := by
    have := hi.core x (List.mem_of_getElem? hx)
    simpa [CoreOK, pre_not_tookDone x hp] using this
  cases h with
  | refl => rw [hx] at hx'; cases hx'; simp [hnd] at hd
  | put y => simp only [K.put] at hx'; rw [hx] at hx'; cases hx'; simp [hnd] at hd
  | spawn =>
    simp only [K.spawn, List.getElem?_append, hlt, if_true] at hx'
    rw [hx] at hx'; cases hx'; simp [hnd] at hd
  | join => simp only [K.join] at hx'; rw [hx] at hx'; cases hx'; simp [hnd] at hd
  | wait c0 x0 h0 hp0 =>
    simp only [K.wait, K.setPhase, List.getElem?_modify, hx, Option.map_eq_map, Option.map_some, Option.some.injEq] at hx'
    subst hx'
    split at hd <;> simp_all [Q.isDone]
  | take c0 x0 h0 hp0 =>
    unfold K.take at hx'
    split at hx'
    · rw [hx] at hx'; cases hx'; simp [hnd] at hd
    · simp only [K.setPhase, List.getElem?_modify, hx, Option.map_eq_map, Option.map_some, Option.some.injEq] at hx'
      subst hx'
      split at hd <;> simp_all [Q.isDone]
  | abort c0 x0 h0 hp0 =>
    simp only [K.abort, K.setPhase, List.getElem?_modify, hx, Option.map_eq_map, Option.map_some, Option.some.injEq] at hx'
    subst hx'
    by_cases hc : c0 = c
    · exact ⟨by simp [hc], by simpa [hc] using hm, rfl, rfl, rfl, rfl, rfl, rfl⟩
    · simp only [hc, if_false] at hd; simp [hnd] at hd
  | exit c0 x0 e h0 hp0 =>
    rw [K.cores_exit] at hx'
    simp only [List.getElem?_modify, hx, Option.map_eq_map, Option.map_some, Option.some.injEq] at hx'
    by_cases hc : c0 = c
    · subst hc; rw [hx] at h0; cases h0
      cases x with | mk ph m => cases ph <;> simp_all [isInBlock, preBlock]
    · simp only [hc, if_false] at hx'; subst hx'; simp [hnd] at hd
  | stepJ j =>
    rw [(K.view_stepJoiner k j).2, hx] at hx'; cases hx'; simp [hnd] at hd
  | handTake =>
    rw [K.cores_handTake, hx] at hx'; cases hx'; simp [hnd] at hd
  | produce y => simp only [K.produce] at hx'; rw [hx] at hx'; cases hx'; simp [hnd] at hd
  | pwait j0 p0 _ _ _ => simp only [K.pwait, K.setPP] at hx'; rw [hx] at hx'; cases hx'; simp [hnd] at hd
  | pput j0 p0 h0 _ _ =>
    rw [K.pput_eq k j0 p0 h0] at hx'; simp only [K.setPP] at hx'; rw [hx] at hx'; cases hx'; simp [hnd] at hd
  | pabort j0 p0 _ _ => simp only [K.pabort, K.setPP] at hx'; rw [hx] at hx'; cases hx'; simp [hnd] at hd

/-- `task_done()` edits the counter, the event and the joiners only -/
theorem K.frame_taskDone (k : K) :
    k.taskDone.items = k.items ∧ k.taskDone.puts = k.puts ∧ k.taskDone.takes = k.takes ∧ k.taskDone.exits = k.exits
      ∧ k.taskDone.evWaiters = k.evWaiters := by
  simp only [K.taskDone, K.taskDoneOk, K.setFinished]
  repeat' (first | split | exact ⟨rfl, rfl, rfl, rfl, rfl⟩)

theorem pre_not_inBlock (x : Core) (h : preBlock x.phase = true) : isInBlock x.phase = false := by
  cases x with | mk ph m => cases ph <;> simp_all [isInBlock, preBlock]

/-- a step that ends a consumer which is inside its block: the block was left (normally, by exception or by
cancellation), and that exit made exactly one `task_done()` call — the consumer's only one — which brought the
unfinished counter down by exactly one; no item was removed, nothing was hand-marked -/
theorem KStep.block_exit {k k' : K} (h : KStep k k') (hi : k.Inv) (c : Nat) (x x' : Core)
    (hx : k.cores[c]? = some x) (hp : isInBlock x.phase = true) (hx' : k'.cores[c]? = some x') (hd : Q.isDone x'.phase = true) :
    x.marks = 0 ∧ x'.marks = 1 ∧ (∃ e, x'.phase = .done e true) ∧ k'.tdCalls = k.tdCalls + 1 ∧ k'.exits = k.exits + 1
      ∧ k'.unfinished + 1 = k.unfinished ∧ k'.takes = k.takes ∧ k'.items = k.items ∧ k'.puts = k.puts
      ∧ k'.valueErrors = k.valueErrors := by
  have hnd : Q.isDone x.phase = false := by
    cases x with | mk ph m => cases ph <;> simp_all [Q.isDone, isInBlock]
  have hlt : c < k.cores.length := (List.getElem?_eq_some_iff.1 hx).1
  have hm : x.marks = 0 := by
    have := hi.core x (List.mem_of_getElem? hx)
    simpa [CoreOK, inBlock_not_tookDone x hp] using this
  have hne : ∀ c0 x0, k.cores[c0]? = some x0 → preBlock x0.phase = true → c0 ≠ c := by
    intro c0 x0 h0 hp0 hc
    subst hc; rw [hx] at h0; cases h0
    have := pre_not_inBlock x hp0
    rw [hp] at this; cases this
  cases h with
  | refl => rw [hx] at hx'; cases hx'; simp [hnd] at hd
  | put y => simp only [K.put] at hx'; rw [hx] at hx'; cases hx'; simp [hnd] at hd
  | spawn =>
    simp only [K.spawn, List.getElem?_append, hlt, if_true] at hx'
    rw [hx] at hx'; cases hx'; simp [hnd] at hd
  | join => simp only [K.join] at hx'; rw [hx] at hx'; cases hx'; simp [hnd] at hd
  | wait c0 x0 h0 hp0 =>
    have hc := hne c0 x0 h0 hp0
    simp only [K.wait, K.setPhase, List.getElem?_modify, hx, Option.map_eq_map, Option.map_some, Option.some.injEq, hc,
      if_false] at hx'
    subst hx'; simp [hnd] at hd
  | take c0 x0 h0 hp0 =>
    have hc := hne c0 x0 h0 hp0
    unfold K.take at hx'
    split at hx'
    · rw [hx] at hx'; cases hx'; simp [hnd] at hd
    · simp only [K.setPhase, List.getElem?_modify, hx, Option.map_eq_map, Option.map_some, Option.some.injEq, hc,
        if_false] at hx'
      subst hx'; simp [hnd] at hd
  | abort c0 x0 h0 hp0 =>
    have hc := hne c0 x0 h0 hp0
    simp only [K.abort, K.setPhase, List.getElem?_modify, hx, Option.map_eq_map, Option.map_some, Option.some.injEq, hc,
      if_false] at hx'
    subst hx'; simp [hnd] at hd
  | exit c0 x0 e h0 hp0 =>
    rw [K.cores_exit] at hx'
    simp only [List.getElem?_modify, hx, Option.map_eq_map, Option.map_some, Option.some.injEq] at hx'
    by_cases hc : c0 = c
    · subst hc
      simp only [if_true] at hx'
      subst hx'
      have hpos := hi.cnt.1
      have h1 := countP_modify_at Core.inBlock k.cores c0 x (fun y => { phase := .done .ok true, marks := y.marks }) hx
      have hib : x.inBlock = true := hp
      have e1 : Core.inBlock { phase := .done .ok true, marks := x.marks } = false := rfl
      simp only [hib, e1, if_true, Bool.false_eq_true, if_false, Nat.add_zero] at h1
      simp only [K.view] at hpos
      have hpos' : 0 < k.unfinished := by omega
      have hv := K.view_exit k c0 e hpos'
      simp only [K.view, V.mk.injEq] at hv
      obtain ⟨-, v2, -, -, v5, v6, v7, v8, v9⟩ := hv
      refine ⟨hm, by simp [hm], ⟨e, rfl⟩, v7, v6, by omega, v9, (K.joiners_exit k c0 e).2.2.1, v5, v8⟩
    · simp only [hc, if_false] at hx'; subst hx'; simp [hnd] at hd
  | stepJ j =>
    rw [(K.view_stepJoiner k j).2, hx] at hx'; cases hx'; simp [hnd] at hd
  | handTake =>
    rw [K.cores_handTake, hx] at hx'; cases hx'; simp [hnd] at hd
  | produce y => simp only [K.produce] at hx'; rw [hx] at hx'; cases hx'; simp [hnd] at hd
  | pwait j0 p0 _ _ _ => simp only [K.pwait, K.setPP] at hx'; rw [hx] at hx'; cases hx'; simp [hnd] at hd
  | pput j0 p0 h0 _ _ =>
    rw [K.pput_eq k j0 p0 h0] at hx'; simp only [K.setPP] at hx'; rw [hx] at hx'; cases hx'; simp [hnd] at hd
  | pabort j0 p0 _ _ => simp only [K.pabort, K.setPP] at hx'; rw [hx] at hx'; cases hx'; simp [hnd] at hd

/-- what `task_done()` does to the joiners when the counter is positive -/
theorem K.joiner_taskDone (k : K) (hpos : 0 < k.unfinished) (j : Nat) (x : Joiner) (hx : k.joiners[j]? = some x) :
    k.taskDone.unfinished = k.unfinished - 1 ∧
    k.taskDone.joiners[j]? = some (if k.unfinished = 1 ∧ k.wakes j x = true then { x with fut := .woken, sched := true } else x) := by
  have hne : ¬ k.unfinished = 0 := by omega
  unfold K.taskDone K.taskDoneOk
  simp only [hne, if_false]
  split
  · rename_i h0
    have h1 : k.unfinished = 1 := by omega
    refine ⟨rfl, ?_⟩
    simp only [K.setFinished, List.getElem?_mapIdx, hx, Option.map_some, h1, true_and]
    rfl
  · rename_i h0
    have h1 : ¬ k.unfinished = 1 := by omega
    refine ⟨rfl, ?_⟩
    simp only [h1, false_and, if_false]
    exact hx

/-- **release**: a `join()` waiter whose future is pending stays exactly as it is through every step that leaves
unfinished work, and is woken (future resolved, task scheduled) by the step that brings the counter to zero -/
theorem KStep.join_release {k k' : K} (h : KStep k k') (hi : k.Inv) (j : Nat) (x : Joiner)
    (hx : k.joiners[j]? = some x) (hp : x.phase = .waiting) (hf : x.fut = .pending) :
    0 < k.unfinished ∧ ∃ x', k'.joiners[j]? = some x' ∧ x'.phase = .waiting ∧
      ((k'.unfinished = 0 ∧ x'.fut = .woken ∧ x'.sched = true) ∨ (0 < k'.unfinished ∧ x' = x)) := by
  obtain ⟨hmem, hs, hpos⟩ := hi.jn.wait j x hx hp hf
  refine ⟨hpos, ?_⟩
  have hlt : j < k.joiners.length := (List.getElem?_eq_some_iff.1 hx).1
  cases h with
  | refl => exact ⟨x, hx, hp, .inr ⟨hpos, rfl⟩⟩
  | put y => exact ⟨x, hx, hp, .inr ⟨by simp [K.put], rfl⟩⟩
  | spawn => exact ⟨x, hx, hp, .inr ⟨hpos, rfl⟩⟩
  | join =>
    refine ⟨x, ?_, hp, .inr ⟨hpos, rfl⟩⟩
    show (k.joiners ++ _)[j]? = some x
    rw [List.getElem?_append_left hlt]; exact hx
  | wait c0 x0 h0 hp0 => exact ⟨x, hx, hp, .inr ⟨hpos, rfl⟩⟩
  | take c0 x0 h0 hp0 =>
    refine ⟨x, ?_, hp, .inr ⟨?_, rfl⟩⟩
    · unfold K.take; split <;> exact hx
    · unfold K.take; split <;> exact hpos
  | abort c0 x0 h0 hp0 => exact ⟨x, hx, hp, .inr ⟨hpos, rfl⟩⟩
  | exit c0 x0 e h0 hp0 =>
    obtain ⟨e1, e2, -, -⟩ := K.joiners_exit k c0 e
    obtain ⟨t1, t2⟩ := K.joiner_taskDone ({ k with exits := k.exits + 1 } : K) hpos j x hx
    rw [e1, e2, t1, t2]
    by_cases h1 : k.unfinished = 1
    · have hw : K.wakes ({ k with exits := k.exits + 1 } : K) j x = true := by
        simp [K.wakes, hf, hmem]
      rw [if_pos ⟨h1, hw⟩]
      exact ⟨_, rfl, hp, .inl ⟨by simp only; omega, rfl, rfl⟩⟩
    · rw [if_neg (fun h => h1 h.1)]
      exact ⟨_, rfl, hp, .inr ⟨by simp only; omega, rfl⟩⟩
  | stepJ j0 =>
    have hu : (k.stepJoiner j0).unfinished = k.unfinished := by
      have := (K.view_stepJoiner k j0).1
      simp only [K.view, V.mk.injEq] at this
      exact this.2.1
    rw [hu]
    refine ⟨x, ?_, hp, .inr ⟨hpos, rfl⟩⟩
    by_cases hj0 : j0 = j
    · subst hj0
      unfold K.stepJoiner
      simp [hx, hs]
    · unfold K.stepJoiner K.joinStart K.joinWake K.modJ
      repeat' split
      all_goals simp [hj0, hx]
  | handTake =>
    rcases K.handTake_cases k with ⟨_, e⟩ | ⟨y, rest, hit, e⟩ <;> rw [e]
    · exact ⟨x, hx, hp, .inr ⟨hpos, rfl⟩⟩
    · obtain ⟨t1, t2⟩ := K.joiner_taskDone ({ k with items := rest, takes := k.takes + 1 } : K) hpos j x hx
      rw [t1, t2]
      by_cases h1 : k.unfinished = 1
      · have hw : K.wakes ({ k with items := rest, takes := k.takes + 1 } : K) j x = true := by
          simp [K.wakes, hf, hmem]
        rw [if_pos ⟨h1, hw⟩]
        exact ⟨_, rfl, hp, .inl ⟨by simp only; omega, rfl, rfl⟩⟩
      · rw [if_neg (fun h => h1 h.1)]
        exact ⟨_, rfl, hp, .inr ⟨by simp only; omega, rfl⟩⟩
  | produce y => exact ⟨x, hx, hp, .inr ⟨hpos, rfl⟩⟩
  | pwait j0 p0 _ _ _ => exact ⟨x, hx, hp, .inr ⟨hpos, rfl⟩⟩
  | pput j0 p0 h0 _ _ =>
    rw [K.pput_eq k j0 p0 h0]
    exact ⟨x, hx, hp, .inr ⟨by simp [K.setPP], rfl⟩⟩
  | pabort j0 p0 _ _ => exact ⟨x, hx, hp, .inr ⟨hpos, rfl⟩⟩

/-- **at call time**: the first step of a `join()` task returns at once iff nothing is unfinished; otherwise it
registers as a waiter of the event -/
theorem K.join_at_call (k : K) (hi : k.Inv) (j : Nat) (x : Joiner) (hx : k.joiners[j]? = some x) (hp : x.phase = .notStarted) :
    ∃ x', (k.stepJoiner j).joiners[j]? = some x' ∧
      ((k.unfinished = 0 ∧ x'.phase = .done ∧ k.joins j = true) ∨
       (0 < k.unfinished ∧ x'.phase = .waiting ∧ x'.fut = .pending ∧ x'.sched = false ∧ j ∈ (k.stepJoiner j).evWaiters
          ∧ k.joins j = false)) := by
  obtain ⟨hf, hs, hn⟩ := hi.jn.fresh j x hx hp
  have hfin := hi.jn.fin
  unfold K.stepJoiner K.joins
  simp only [hx, hs, hp, Bool.not_true, Bool.false_eq_true, if_false, Bool.true_and]
  unfold K.joinStart
  by_cases h0 : k.unfinished = 0
  · have : k.finished = true := hfin.2 h0
    simp [h0, K.modJ, hx]
  · have hpos : 0 < k.unfinished := by omega
    have : k.finished = false := by
      cases hk : k.finished with
      | false => rfl
      | true => exact absurd (hfin.1 hk) h0
    simp [hpos, this, K.modJ, hx, hf, h0]

/-- **wake-up**: a released waiter's next step makes `join()` return -/
theorem K.join_wakeup (k : K) (hi : k.Inv) (j : Nat) (x : Joiner) (hx : k.joiners[j]? = some x) (hp : x.phase = .waiting)
    (hf : x.fut = .woken) :
    x.sched = true ∧ k.joins j = true ∧ ∃ x', (k.stepJoiner j).joiners[j]? = some x' ∧ x'.phase = .done := by
  obtain ⟨-, hs⟩ := hi.jn.woken j x hx hp (by simp [hf])
  refine ⟨hs, by simp [K.joins, hx, hs, hp], ?_⟩
  unfold K.stepJoiner
  simp [hx, hs, hp, K.joinWake, K.modJ]

end Taskpool.QueueM
